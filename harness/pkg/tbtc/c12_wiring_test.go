//go:build go1.23

package tbtc

// C12 through the node's channel wiring. The admission points of the wallet
// channels (coordination follower, signing-done listener, readiness
// announcer) are reached the way the network reaches them: a node holding the
// wallet's signers wires its channels with getCoordinationExecutor /
// getSigningExecutor (real unmarshaler factories, real membership validator,
// real channel filter); incoming envelopes are raw bytes plus the network key
// of their sender; the channel - like the libp2p channel - unmarshals each
// envelope with the factory the node registered, pairs the result with the
// sender's key and puts it into the buffered queue of the installed handlers,
// which is drained later. Envelopes arrive in bursts of back-to-back messages
// from different network keys (all of a burst are taken from the wire before
// the first of them is handed to the consumer). The outcome of the step must
// equal the admission model applied to what each key actually sent.

import (
	"context"
	"fmt"
	"math/big"
	"sync"
	"sync/atomic"
	"testing"
	"time"

	"github.com/keep-network/keep-core/internal/verifkit"
	"github.com/keep-network/keep-core/pkg/bitcoin"
	"github.com/keep-network/keep-core/pkg/chain/local_v1"
	"github.com/keep-network/keep-core/pkg/generator"
	"github.com/keep-network/keep-core/pkg/internal/tecdsatest"
	"github.com/keep-network/keep-core/pkg/net"
	"github.com/keep-network/keep-core/pkg/operator"
	"github.com/keep-network/keep-core/pkg/protocol/announcer"
	announcerpb "github.com/keep-network/keep-core/pkg/protocol/announcer/gen/pb"
	"github.com/keep-network/keep-core/pkg/protocol/group"
	"github.com/keep-network/keep-core/pkg/tecdsa"
	"google.golang.org/protobuf/proto"
	"pgregory.net/rapid"
)

// ---------------------------------------------------------------------------
// wire-level network provider (receiver side unmarshaling, buffered handler
// queue, explicit hand-over)

type c12WireMessage struct {
	channel *c12WireChannel
	stat    *c12WireHandlerStat // set on the copy handed to one handler
	key     []byte
	payload interface{}
	typ     string
	seqno   uint64
}

func (m *c12WireMessage) TransportSenderID() net.TransportIdentifier { return c12TransportID("c12") }
func (m *c12WireMessage) SenderPublicKey() []byte                    { return m.key }
func (m *c12WireMessage) Payload() interface{} {
	// every consumer asks for the payload first, once per message
	m.channel.consumed.Add(1)
	if m.stat != nil {
		m.stat.consumed.Add(1)
	}
	return m.payload
}
func (m *c12WireMessage) Type() string  { return m.typ }
func (m *c12WireMessage) Seqno() uint64 { return m.seqno }

type c12WireChannel struct {
	name string

	mu           sync.Mutex
	unmarshalers map[string]func() net.TaggedUnmarshaler
	filter       net.BroadcastChannelFilter
	handlers     []c12Handler
	stats        []*c12WireHandlerStat // per installed handler
	queue        []*c12WireMessage
	// onSend, when set, sees what the node sends (and may refuse it)
	onSend func(message net.TaggedMarshaler) error
	seqno  uint64

	queued   int64        // messages put into the handler queue so far
	consumed atomic.Int64 // Payload() calls so far
}

func (c *c12WireChannel) Name() string { return c.name }
func (c *c12WireChannel) Send(_ context.Context, message net.TaggedMarshaler, _ ...net.RetransmissionStrategy) error {
	c.mu.Lock()
	hook := c.onSend
	c.mu.Unlock()
	if hook != nil {
		return hook(message)
	}
	return nil
}

// c12WireHandlerStat counts, for one installed handler, the messages handed
// to it and the ones whose payload it has asked for.
type c12WireHandlerStat struct {
	delivered atomic.Int64
	consumed  atomic.Int64
}

func (c *c12WireChannel) Recv(ctx context.Context, fn func(net.Message)) {
	c.mu.Lock()
	c.handlers = append(c.handlers, c12Handler{ctx, fn})
	c.stats = append(c.stats, &c12WireHandlerStat{})
	c.mu.Unlock()
}
func (c *c12WireChannel) SetUnmarshaler(unmarshaler func() net.TaggedUnmarshaler) {
	c.mu.Lock()
	c.unmarshalers[unmarshaler().Type()] = unmarshaler
	c.mu.Unlock()
}
func (c *c12WireChannel) SetFilter(filter net.BroadcastChannelFilter) error {
	c.mu.Lock()
	c.filter = filter
	c.mu.Unlock()
	return nil
}

func (c *c12WireChannel) registered() int {
	c.mu.Lock()
	defer c.mu.Unlock()
	return len(c.handlers)
}

// receiveWire is what the channel does for an envelope taken from the wire:
// messages of operators rejected by the channel filter, of unknown type or
// with a payload that does not unmarshal are dropped, the others are
// unmarshaled with the registered factory and queued for the handlers.
func (c *c12WireChannel) receiveWire(sender *operator.PublicKey, typ string, payload []byte) bool {
	c.mu.Lock()
	defer c.mu.Unlock()
	if c.filter != nil && !c.filter(sender) {
		return false
	}
	factory, ok := c.unmarshalers[typ]
	if !ok {
		return false
	}
	unmarshaled := factory()
	if err := unmarshaled.Unmarshal(payload); err != nil {
		return false
	}
	c.seqno++
	c.queue = append(c.queue, &c12WireMessage{channel: c, key: operator.MarshalUncompressed(sender),
		payload: unmarshaled, typ: typ, seqno: c.seqno})
	c.queued++
	return true
}

// handOver passes the queued messages, in order, to the installed handlers.
func (c *c12WireChannel) handOver() {
	c.mu.Lock()
	queue := c.queue
	c.queue = nil
	handlers := append([]c12Handler{}, c.handlers...)
	stats := append([]*c12WireHandlerStat{}, c.stats...)
	c.mu.Unlock()
	for _, m := range queue {
		for i, h := range handlers {
			if h.ctx.Err() == nil {
				// every handler gets the same payload object, as on the
				// real channels
				handed := *m
				handed.stat = stats[i]
				stats[i].delivered.Add(1)
				h.fn(&handed)
			}
		}
	}
}

// settled reports whether every installed handler that is still listening
// has asked for the payload of everything handed to it.
func (c *c12WireChannel) settled() bool { return c.settledFor(nil, false) }

// settledFor restricts the question to the handlers in the set (only=true) or
// to the ones outside it (only=false).
func (c *c12WireChannel) settledFor(set map[int]bool, only bool) bool {
	c.mu.Lock()
	defer c.mu.Unlock()
	for i, h := range c.handlers {
		if set[i] != only {
			continue
		}
		if h.ctx.Err() == nil && c.stats[i].consumed.Load() < c.stats[i].delivered.Load() {
			return false
		}
	}
	return true
}

// handlerContext returns the context of the i-th installed handler.
func (c *c12WireChannel) handlerContext(i int) context.Context {
	c.mu.Lock()
	defer c.mu.Unlock()
	if i < 0 || i >= len(c.handlers) {
		return nil
	}
	return c.handlers[i].ctx
}

func (c *c12WireChannel) queuedTotal() int64 {
	c.mu.Lock()
	defer c.mu.Unlock()
	return c.queued
}

type c12WireProvider struct {
	mu       sync.Mutex
	channels map[string]*c12WireChannel
}

func (p *c12WireProvider) ID() net.TransportIdentifier { return c12TransportID("c12-self") }
func (p *c12WireProvider) Type() string                { return "c12-wire" }
func (p *c12WireProvider) BroadcastChannelFor(name string) (net.BroadcastChannel, error) {
	p.mu.Lock()
	defer p.mu.Unlock()
	if ch, ok := p.channels[name]; ok {
		return ch, nil
	}
	ch := &c12WireChannel{name: name, unmarshalers: map[string]func() net.TaggedUnmarshaler{}}
	p.channels[name] = ch
	return ch, nil
}
func (p *c12WireProvider) ConnectionManager() net.ConnectionManager { return nil }
func (p *c12WireProvider) CreateTransportIdentifier(*operator.PublicKey) (net.TransportIdentifier, error) {
	return c12TransportID("c12-id"), nil
}
func (p *c12WireProvider) BroadcastChannelForwarderFor(string) {}

// ---------------------------------------------------------------------------
// the node under test

type c12WireWorld struct {
	pool   []*c12Operator
	pubs   []*operator.PublicKey
	chains []*localChain // chain handle of a node run by the i-th operator
	share  *tecdsa.PrivateKeyShare
}

func c12NewWireWorld(t *testing.T) *c12WireWorld {
	w := &c12WireWorld{}
	w.pool, _ = c12Pool(t)
	for i := 0; i < c12PoolSize; i++ {
		// the same keys as c12Pool
		d := big.NewInt(int64(1201 + 17*i))
		x, y := local_v1.DefaultCurve.ScalarBaseMult(d.Bytes())
		private := &operator.PrivateKey{PublicKey: operator.PublicKey{Curve: operator.Secp256k1, X: x, Y: y}, D: d}
		if string(operator.MarshalUncompressed(&private.PublicKey)) != string(w.pool[i].key) {
			t.Fatalf("operator pool out of step")
		}
		w.pubs = append(w.pubs, &private.PublicKey)
		w.chains = append(w.chains, ConnectWithKey(private))
	}
	fixtures, err := tecdsatest.LoadPrivateKeyShareTestFixtures(1)
	if err != nil {
		t.Fatalf("fixtures: %v", err)
	}
	w.share = tecdsa.NewPrivateKeyShare(fixtures[0])
	return w
}

// node assembles a node of the given operator the way newNode does (the DKG
// executor with its background pre-parameter generator is left out) and
// registers the signers of the operator's seats through the wallet registry.
func (w *c12WireWorld) node(t *rapid.T, sc *c12Scenario, op int) (*node, []group.MemberIndex) {
	localChain := w.chains[op]
	registry, err := newWalletRegistry(&mockPersistenceHandle{}, localChain.CalculateWalletID)
	if err != nil {
		t.Fatalf("wallet registry: %v", err)
	}
	n := &node{
		groupParameters:          &GroupParameters{GroupSize: sc.n, GroupQuorum: sc.n, HonestThreshold: sc.n/2 + 1},
		chain:                    localChain,
		netProvider:              &c12WireProvider{channels: map[string]*c12WireChannel{}},
		walletRegistry:           registry,
		walletDispatcher:         newWalletDispatcher(),
		protocolLatch:            generator.NewProtocolLatch(),
		heartbeatFailureCounter:  newHeartbeatFailureCounter(),
		signingExecutors:         make(map[string]*signingExecutor),
		inactivityClaimExecutors: make(map[string]*inactivityClaimExecutor),
		coordinationExecutors:    make(map[string]*coordinationExecutor),
		proposalGenerator:        &mockCoordinationProposalGenerator{},
	}
	var seats []group.MemberIndex
	for i, holder := range sc.seats {
		if holder != op {
			continue
		}
		idx := group.MemberIndex(i + 1)
		seats = append(seats, idx)
		err := registry.registerSigner(&signer{
			wallet:                  wallet{publicKey: w.share.PublicKey(), signingGroupOperators: sc.addresses(w.pool)},
			signingGroupMemberIndex: idx,
			privateKeyShare:         w.share,
		})
		if err != nil {
			t.Fatalf("registerSigner: %v", err)
		}
	}
	return n, seats
}

// c12WireEnvelope is one message as it travels: bytes and the sender's key.
type c12WireEnvelope struct {
	sender int // pool index
	typ    string
	bytes  []byte
}

// deliverBursts takes the envelopes from the wire in drawn bursts: all
// envelopes of a burst are unmarshaled and queued, then the queue is handed
// to the consumer; the next burst starts when the consumer has taken every
// message handed over so far (or has returned).
func (w *c12WireWorld) deliverBursts(t *rapid.T, ch *c12WireChannel, envelopes []c12WireEnvelope, returned *atomic.Bool) (bursts []int) {
	size := 0
	for i, e := range envelopes {
		ch.receiveWire(w.pubs[e.sender], e.typ, e.bytes)
		size++
		last := i == len(envelopes)-1
		if last || rapid.IntRange(0, 2).Draw(t, "burstEnds") == 0 {
			bursts = append(bursts, size)
			size = 0
			ch.handOver()
			want := ch.queuedTotal()
			if !verifkit.Eventually(c12WaitLimit, func() bool {
				return ch.consumed.Load() >= want || (returned != nil && returned.Load())
			}) {
				c12Inconclusive(t, "the consumer did not take the handed-over messages in time")
			}
		}
	}
	return bursts
}

// ---------------------------------------------------------------------------

func TestVerif_C12_NodeCoordinationChannel(t *testing.T) {
	st := verifkit.New("C12", "TestVerif_C12_NodeCoordinationChannel")
	defer st.Flush()
	world := c12NewWireWorld(t)
	pool := world.pool
	walletHash := bitcoin.PublicKeyHash(world.share.PublicKey())
	otherHash := walletHash
	otherHash[7] ^= 0x40
	const block = uint64(90900)

	rapid.Check(t, func(t *rapid.T) {
		sc := c12GenScenario(t)
		sc.ia, sc.dq = map[group.MemberIndex]bool{}, map[group.MemberIndex]bool{}
		c12TwoOperators(t, sc)
		followerOp := sc.seats[int(sc.receiver)-1]
		var leaderOps []int
		for _, op := range sc.inGroup {
			if op != followerOp {
				leaderOps = append(leaderOps, op)
			}
		}
		leaderOp := rapid.SampledFrom(leaderOps).Draw(t, "leader")
		ownSeats := map[group.MemberIndex]bool{}
		allowed := map[group.MemberIndex]bool{}
		leaderID := group.MemberIndex(0)
		sc.favoured = nil
		for i := 1; i <= sc.n; i++ {
			idx := group.MemberIndex(i)
			allowed[idx] = true
			if sc.seats[i-1] == followerOp {
				ownSeats[idx] = true
			}
			if sc.seats[i-1] == leaderOp {
				if leaderID == 0 {
					leaderID = idx
				}
				sc.favoured = append(sc.favoured, idx)
			}
		}
		actionsAllowed := []WalletActionType{ActionHeartbeat, ActionNoop}
		if rapid.IntRange(0, 3).Draw(t, "heartbeatNotAllowed") == 0 {
			actionsAllowed = []WalletActionType{ActionNoop}
		}

		n, _ := world.node(t, sc, followerOp)
		ce, ok, err := n.getCoordinationExecutor(world.share.PublicKey())
		if err != nil || !ok {
			t.Fatalf("getCoordinationExecutor: ok=%v err=%v", ok, err)
		}
		channel := ce.broadcastChannel.(*c12WireChannel)

		ordinal := 0
		r := &c12Receiver{
			name: "node/coordinationChannel/follower", kindNames: []string{"coordinationMessage", "foreign"}, ownKinds: []int{0},
			allowed: allowed, ownSeats: ownSeats,
			note: fmt.Sprintf(" leader=%s(seat %d) allowed=%v", pool[leaderOp].name, leaderID, actionsAllowed),
			build: func(t *rapid.T, m c12Msg, _ []byte) (interface{}, string, bool, string) {
				ordinal++
				if m.kind == 1 {
					p := &c12Foreign{senderID: m.idx}
					return p, p.Type(), true, ""
				}
				p := &coordinationMessage{senderID: m.idx, coordinationBlock: block, walletPublicKeyHash: walletHash}
				if m.session != c12Session {
					switch rapid.IntRange(0, 2).Draw(t, "otherWindow") {
					case 0:
						p.coordinationBlock = block + 900
					case 1:
						p.coordinationBlock = block - 1
					default:
						p.walletPublicKeyHash = otherHash
					}
				}
				if rapid.IntRange(0, 3).Draw(t, "noop") == 0 {
					p.proposal = &NoopProposal{}
					return p, p.Type(), true, "proposes Noop"
				}
				// every heartbeat proposal is unique
				p.proposal = &HeartbeatProposal{Message: [16]byte{0xff, 0xff, 0xff, 0xff, 0xff, 0xff, 0xff, 0xff,
					byte(ordinal), byte(m.idx), byte(m.op), 12}}
				return p, p.Type(), true, fmt.Sprintf("proposes Heartbeat#%d", ordinal)
			},
		}
		proposalText := func(p CoordinationProposal) string {
			switch v := p.(type) {
			case nil:
				return "none"
			case *HeartbeatProposal:
				return fmt.Sprintf("Heartbeat#%d(%x)", v.Message[8], v.Message[8:12])
			default:
				return fmt.Sprintf("%v", p.ActionType())
			}
		}
		nMsgs := rapid.IntRange(1, 8).Draw(t, "messages")
		var plan []*c12Planned
		var envelopes []c12WireEnvelope
		wantProposal := "none"
		var wantFaults []string
		for i := 0; i < nMsgs; i++ {
			p := c12Plan(t, sc, pool, r)
			plan = append(plan, p)
			env := c12WireEnvelope{sender: p.msg.op, typ: p.typ}
			if cm, is := p.payload.(*coordinationMessage); is {
				// what the sender puts on the wire
				env.bytes, err = (&coordinationMessage{senderID: cm.senderID, coordinationBlock: cm.coordinationBlock,
					walletPublicKeyHash: cm.walletPublicKeyHash, proposal: cm.proposal}).Marshal()
				if err != nil {
					t.Fatalf("marshal: %v", err)
				}
			}
			envelopes = append(envelopes, env)
			if !p.want || wantProposal != "none" {
				continue
			}
			cm := p.payload.(*coordinationMessage)
			actionOK := false
			for _, a := range actionsAllowed {
				if a == cm.proposal.ActionType() {
					actionOK = true
				}
			}
			switch {
			case p.msg.idx != leaderID:
				wantFaults = append(wantFaults, fmt.Sprintf("%s:%v", pool[p.msg.op].name, FaultLeaderImpersonation))
			case !actionOK:
				wantFaults = append(wantFaults, fmt.Sprintf("%s:%v", pool[leaderOp].name, FaultLeaderMistake))
			default:
				wantProposal = proposalText(cm.proposal)
			}
		}
		if wantProposal == "none" {
			wantFaults = append(wantFaults, fmt.Sprintf("%s:%v", pool[leaderOp].name, FaultLeaderIdleness))
		}

		ctx, cancel := context.WithCancel(context.Background())
		defer cancel()
		type outcome struct {
			proposal CoordinationProposal
			faults   []*coordinationFault
			err      error
		}
		result := make(chan outcome, 1)
		var returned atomic.Bool
		go func() {
			p, f, err := ce.executeFollowerRoutine(ctx, pool[leaderOp].addr, block, actionsAllowed)
			result <- outcome{p, f, err}
			returned.Store(true)
		}()
		if !verifkit.Eventually(c12WaitLimit, func() bool { return channel.registered() == 1 }) {
			cancel()
			<-result
			c12Inconclusive(t, "the follower did not register its receiver in time")
		}
		bursts := world.deliverBursts(t, channel, envelopes, &returned)
		// every message handed over has been taken by the routine (or it has
		// returned): the window ends
		cancel()
		var out outcome
		select {
		case out = <-result:
		case <-time.After(c12WaitLimit):
			c12Inconclusive(t, "the follower did not return after its context was cancelled")
		}

		where := fmt.Sprintf("group %s (node runs the seats of *'s operator)%s, envelopes taken from the wire in bursts of %v: after %s",
			sc.render(pool), r.note, bursts, c12Texts(plan))
		if got := proposalText(out.proposal); got != wantProposal {
			t.Fatalf("%s the follower returned proposal %s, the admission rule applied to what each key sent gives %s",
				where, got, wantProposal)
		}
		if (out.err == nil) != (wantProposal != "none") {
			t.Fatalf("%s error=%v but expected proposal %s", where, out.err, wantProposal)
		}
		var gotFaults []string
		for _, f := range out.faults {
			name := string(f.culprit)
			for _, o := range pool {
				if o.addr == f.culprit {
					name = o.name
				}
			}
			gotFaults = append(gotFaults, fmt.Sprintf("%s:%v", name, f.faultType))
		}
		if fmt.Sprint(gotFaults) != fmt.Sprint(wantFaults) {
			t.Fatalf("%s the follower recorded faults %v, the admission rule gives %v", where, gotFaults, wantFaults)
		}
		tags := map[string]bool{}
		if wantProposal != "none" {
			tags["follower:proposal-accepted"] = true
		} else {
			tags["follower:leader-idle"] = true
		}
		multi := false
		for _, b := range bursts {
			if b > 1 {
				multi = true
			}
		}
		if multi {
			tags["wire:burst-of-several-messages"] = true
		}
		r.note += fmt.Sprintf(" bursts=%v", bursts)
		c12Record(st, sc, pool, r, plan, tags)
	})
}

// TestVerif_C12_NodeSigningChannel: the wallet's signing channel as wired by
// getSigningExecutor carries signing-done checks and readiness announcements
// (next to the signing protocol messages); the two consumers are created the
// way the signing executor creates them, on the executor's channel and
// validator.
func TestVerif_C12_NodeSigningChannel(t *testing.T) {
	st := verifkit.New("C12", "TestVerif_C12_NodeSigningChannel")
	defer st.Flush()
	world := c12NewWireWorld(t)
	pool := world.pool
	const attempt = uint64(3)
	const timeoutBlock = uint64(5000)
	signedMessage := big.NewInt(121212)
	protocolID := fmt.Sprintf("%v-%v", ProtocolName, "signing")
	announcementType := (&c12AnnouncementType{}).Type()

	rapid.Check(t, func(t *rapid.T) {
		sc := c12GenScenario(t)
		nodeOp := sc.seats[int(sc.receiver)-1]
		n, _ := world.node(t, sc, nodeOp)
		se, ok, err := n.getSigningExecutor(world.share.PublicKey())
		if err != nil || !ok {
			t.Fatalf("getSigningExecutor: ok=%v err=%v", ok, err)
		}
		channel := se.broadcastChannel.(*c12WireChannel)
		doneMode := rapid.Bool().Draw(t, "doneCheck")

		if doneMode {
			attemptMembers := []group.MemberIndex{}
			allowed := map[group.MemberIndex]bool{}
			receiverIncluded := rapid.Bool().Draw(t, "receiverInAttempt")
			for i := 1; i <= sc.n; i++ {
				idx := group.MemberIndex(i)
				if sc.ia[idx] || sc.dq[idx] || (idx == sc.receiver && !receiverIncluded) {
					continue
				}
				allowed[idx] = true
				attemptMembers = append(attemptMembers, idx)
			}
			sdc := newSigningDoneCheck(se.groupParameters.GroupSize, se.broadcastChannel, se.membershipValidator)
			ordinal := 0
			r := &c12Receiver{
				name: "node/signingChannel/doneListener", kindNames: []string{"signingDone", "announcement", "foreign"},
				ownKinds: []int{0}, allowed: allowed, selfAllowed: true,
				note: fmt.Sprintf(" attemptMembers=%v", attemptMembers),
				build: func(t *rapid.T, m c12Msg, _ []byte) (interface{}, string, bool, string) {
					ordinal++
					switch m.kind {
					case 1:
						return &announcerpb.AnnouncementMessage{SenderID: uint32(m.idx), ProtocolID: protocolID, SessionID: m.session},
							announcementType, true, ""
					case 2:
						p := &c12Foreign{senderID: m.idx}
						return p, p.Type(), true, ""
					}
					p := &signingDoneMessage{senderID: m.idx, message: new(big.Int).Set(signedMessage), attemptNumber: attempt,
						signature: &tecdsa.Signature{R: big.NewInt(int64(ordinal) + 1), S: big.NewInt(int64(m.idx) + 1000)},
						endBlock:  uint64(rapid.IntRange(4000, 5000).Draw(t, "endBlock"))}
					if m.session != c12Session {
						switch rapid.IntRange(0, 3).Draw(t, "otherAttempt") {
						case 0:
							p.message = big.NewInt(121213)
						case 1:
							p.attemptNumber = attempt + 1
						case 2:
							p.attemptNumber = attempt - 1
						default:
							p.endBlock = timeoutBlock + 1
						}
					}
					return p, p.Type(), true, fmt.Sprintf("#%d", ordinal)
				},
			}
			nMsgs := rapid.IntRange(1, 10).Draw(t, "messages")
			var plan []*c12Planned
			var envelopes []c12WireEnvelope
			want := map[group.MemberIndex]string{}
			for i := 0; i < nMsgs; i++ {
				p := c12Plan(t, sc, pool, r)
				if _, dup := want[p.msg.idx]; dup && p.want {
					p.want = false
					p.extraOK, p.extraTag = false, "second-confirmation"
					p.text += "(second)"
				}
				plan = append(plan, p)
				env := c12WireEnvelope{sender: p.msg.op, typ: p.typ}
				switch v := p.payload.(type) {
				case *signingDoneMessage:
					env.bytes, err = v.Marshal()
					if p.want {
						want[p.msg.idx] = fmt.Sprintf("R=%v S=%v end=%d", v.signature.R, v.signature.S, v.endBlock)
					}
				case *announcerpb.AnnouncementMessage:
					env.bytes, err = proto.Marshal(v)
				}
				if err != nil {
					t.Fatalf("marshal: %v", err)
				}
				envelopes = append(envelopes, env)
			}
			// a last confirmation that cannot count (another attempt, sent by
			// the node's own key for its own seat): once the listener takes
			// it every earlier message has been processed completely
			sentinel, err := (&signingDoneMessage{senderID: sc.receiver, message: signedMessage, attemptNumber: attempt + 7,
				signature: &tecdsa.Signature{R: big.NewInt(1), S: big.NewInt(1)}, endBlock: 1}).Marshal()
			if err != nil {
				t.Fatalf("marshal: %v", err)
			}

			ctx, cancel := context.WithCancel(context.Background())
			defer cancel()
			sdc.listen(ctx, signedMessage, attempt, timeoutBlock, attemptMembers)
			defer sdc.cancelReceiveCtx()
			bursts := world.deliverBursts(t, channel, envelopes, nil)
			world.deliverBursts(t, channel, []c12WireEnvelope{{sender: nodeOp, typ: (&signingDoneMessage{}).Type(), bytes: sentinel}}, nil)

			sdc.doneSignersMutex.Lock()
			got := map[group.MemberIndex]string{}
			for idx, m := range sdc.doneSigners {
				got[idx] = fmt.Sprintf("R=%v S=%v end=%d", m.signature.R, m.signature.S, m.endBlock)
				if m.senderID != idx {
					got[idx] += fmt.Sprintf(" (kept under %d but claims %d)", idx, m.senderID)
				}
			}
			sdc.doneSignersMutex.Unlock()
			for idx := 0; idx <= 255; idx++ {
				m := group.MemberIndex(idx)
				if got[m] != want[m] {
					t.Fatalf("group %s (receiver *, i/d left out of the attempt)%s, bursts %v: after %s member %d is confirmed with [%s], the admission rule applied to what each key sent gives [%s]",
						sc.render(pool), r.note, bursts, c12Texts(plan), m, got[m], want[m])
				}
			}
			tags := map[string]bool{}
			for _, b := range bursts {
				if b > 1 {
					tags["wire:burst-of-several-messages"] = true
				}
			}
			r.note += fmt.Sprintf(" bursts=%v", bursts)
			c12Record(st, sc, pool, r, plan, tags)
			return
		}

		// readiness announcements on the same channel
		sc.ia, sc.dq = map[group.MemberIndex]bool{}, map[group.MemberIndex]bool{}
		allowed := map[group.MemberIndex]bool{}
		for i := 1; i <= sc.n; i++ {
			allowed[group.MemberIndex(i)] = true
		}
		ann := announcer.New(protocolID, se.broadcastChannel, se.membershipValidator)
		r := &c12Receiver{
			name: "node/signingChannel/announcer", kindNames: []string{"announcement", "announcementOfOtherProtocol", "signingDone", "foreign"},
			ownKinds: []int{0}, allowed: allowed,
			build: func(t *rapid.T, m c12Msg, _ []byte) (interface{}, string, bool, string) {
				switch m.kind {
				case 0:
					return &announcerpb.AnnouncementMessage{SenderID: uint32(m.idx), ProtocolID: protocolID, SessionID: m.session},
						announcementType, true, ""
				case 1:
					other := rapid.SampledFrom([]string{"", protocolID + "2", ProtocolName + "-dkg"}).Draw(t, "protocolID")
					return &announcerpb.AnnouncementMessage{SenderID: uint32(m.idx), ProtocolID: other, SessionID: m.session},
						announcementType, true, ""
				case 2:
					p := &signingDoneMessage{senderID: m.idx, message: big.NewInt(5), attemptNumber: 1,
						signature: &tecdsa.Signature{R: big.NewInt(1), S: big.NewInt(1)}, endBlock: 1}
					return p, p.Type(), true, ""
				default:
					p := &c12Foreign{senderID: m.idx}
					return p, p.Type(), true, ""
				}
			},
		}
		nMsgs := rapid.IntRange(1, 10).Draw(t, "messages")
		var plan []*c12Planned
		var envelopes []c12WireEnvelope
		want := map[group.MemberIndex]bool{sc.receiver: true}
		for i := 0; i < nMsgs; i++ {
			p := c12Plan(t, sc, pool, r)
			plan = append(plan, p)
			if p.want {
				want[p.msg.idx] = true
			}
			env := c12WireEnvelope{sender: p.msg.op, typ: p.typ}
			switch v := p.payload.(type) {
			case *signingDoneMessage:
				env.bytes, err = v.Marshal()
			case *announcerpb.AnnouncementMessage:
				env.bytes, err = proto.Marshal(v)
			}
			if err != nil {
				t.Fatalf("marshal: %v", err)
			}
			envelopes = append(envelopes, env)
		}
		sentinel, err := proto.Marshal(&announcerpb.AnnouncementMessage{SenderID: uint32(sc.receiver), ProtocolID: "c12-sentinel", SessionID: "-"})
		if err != nil {
			t.Fatalf("marshal: %v", err)
		}

		ctx, cancel := context.WithCancel(context.Background())
		defer cancel()
		type outcome struct {
			ready []group.MemberIndex
			err   error
		}
		result := make(chan outcome, 1)
		go func() {
			ready, err := ann.Announce(ctx, sc.receiver, c12Session)
			result <- outcome{ready, err}
		}()
		if !verifkit.Eventually(c12WaitLimit, func() bool { return channel.registered() == 1 }) {
			cancel()
			<-result
			c12Inconclusive(t, "Announce did not register its receiver in time")
		}
		bursts := world.deliverBursts(t, channel, envelopes, nil)
		world.deliverBursts(t, channel, []c12WireEnvelope{{sender: nodeOp, typ: announcementType, bytes: sentinel}}, nil)
		cancel()
		var out outcome
		select {
		case out = <-result:
		case <-time.After(c12WaitLimit):
			c12Inconclusive(t, "Announce did not return after its context was cancelled")
		}
		if out.err != nil {
			t.Fatalf("Announce failed: %v", out.err)
		}
		got := map[group.MemberIndex]bool{}
		for _, idx := range out.ready {
			got[idx] = true
		}
		for idx := 0; idx <= 255; idx++ {
			m := group.MemberIndex(idx)
			if got[m] != want[m] {
				t.Fatalf("group %s (receiver *), bursts %v: after %s the ready list is %v; member %d: listed=%v, the admission rule applied to what each key sent gives %v",
					sc.render(pool), bursts, c12Texts(plan), out.ready, m, got[m], want[m])
			}
		}
		tags := map[string]bool{}
		for _, b := range bursts {
			if b > 1 {
				tags["wire:burst-of-several-messages"] = true
			}
		}
		r.note += fmt.Sprintf(" bursts=%v", bursts)
		c12Record(st, sc, pool, r, plan, tags)
	})
}

// the announcer's message type is not exported; its wire type string is
type c12AnnouncementType struct{}

func (*c12AnnouncementType) Type() string { return "protocol_announcer/announcement_message" }
