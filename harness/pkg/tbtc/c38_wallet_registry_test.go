//go:build go1.23

package tbtc

import (
	"bytes"
	"crypto/ecdsa"
	"crypto/sha256"
	"errors"
	"fmt"
	"math/big"
	"os"
	"runtime"
	"sort"
	"strings"
	"sync"
	"sync/atomic"
	"testing"

	"github.com/keep-network/keep-common/pkg/persistence"
	"github.com/keep-network/keep-core/internal/verifkit"
	"github.com/keep-network/keep-core/pkg/bitcoin"
	"github.com/keep-network/keep-core/pkg/chain"
	"github.com/keep-network/keep-core/pkg/internal/tecdsatest"
	"github.com/keep-network/keep-core/pkg/protocol/group"
	"github.com/keep-network/keep-core/pkg/tecdsa"
	"pgregory.net/rapid"
)

// C38 (tBTC wallet registry): after any history of signer registrations,
// wallet archivals, storage failures, crashes and restarts a restarted
// registry knows exactly what the storage holds.
//
// Storage is the real keep-common disk persistence in a scratch directory;
// the wrapper below decides per mutating call whether it succeeds, fails
// without touching the disk, or is the last thing the process does (before or
// after the disk was touched).

type c38Crash struct{}

type c38Disk struct {
	persistence.ProtectedHandle
	mu      sync.Mutex
	next    string // outcome of the next Save/Archive: ok fail crash-before crash-after
	applied []string
	calls   int
	yields  int // Gosched calls before and after the real disk operation (concurrent steps)
}

func (d *c38Disk) yield() {
	d.mu.Lock()
	y := d.yields
	d.mu.Unlock()
	for i := 0; i < y; i++ {
		runtime.Gosched()
	}
}

func (d *c38Disk) take() string {
	d.mu.Lock()
	defer d.mu.Unlock()
	d.calls++
	o := d.next
	d.next = "ok"
	return o
}

func (d *c38Disk) record(what string) {
	d.mu.Lock()
	d.applied = append(d.applied, what)
	d.mu.Unlock()
}

func (d *c38Disk) Save(data []byte, directory string, name string) error {
	switch d.take() {
	case "fail":
		return errors.New("injected: input/output error")
	case "crash-before":
		panic(c38Crash{})
	case "crash-after":
		if err := d.ProtectedHandle.Save(data, directory, name); err != nil {
			panic(fmt.Sprintf("VERIF-INCONCLUSIVE: real disk save failed: %v", err))
		}
		d.record("save " + directory + name)
		panic(c38Crash{})
	}
	d.yield()
	if err := d.ProtectedHandle.Save(data, directory, name); err != nil {
		return err
	}
	d.record("save " + directory + name)
	d.yield()
	return nil
}

func (d *c38Disk) Archive(directory string) error {
	switch d.take() {
	case "fail":
		return errors.New("injected: input/output error")
	case "crash-before":
		panic(c38Crash{})
	case "crash-after":
		if err := d.ProtectedHandle.Archive(directory); err != nil {
			panic(fmt.Sprintf("VERIF-INCONCLUSIVE: real disk archive failed: %v", err))
		}
		d.record("archive " + directory)
		panic(c38Crash{})
	}
	d.yield()
	if err := d.ProtectedHandle.Archive(directory); err != nil {
		return err
	}
	d.record("archive " + directory)
	d.yield()
	return nil
}

func (d *c38Disk) callCount() int {
	d.mu.Lock()
	defer d.mu.Unlock()
	return d.calls
}

var c38SharesOnce sync.Once
var c38Shares []*tecdsa.PrivateKeyShare
var c38SharesErr error

func c38KeyShares() ([]*tecdsa.PrivateKeyShare, error) {
	c38SharesOnce.Do(func() {
		data, err := tecdsatest.LoadPrivateKeyShareTestFixtures(5)
		if err != nil {
			c38SharesErr = err
			return
		}
		for i := range data {
			c38Shares = append(c38Shares, tecdsa.NewPrivateKeyShare(data[i]))
		}
	})
	return c38Shares, c38SharesErr
}

// c38IDYields: how often the injected wallet ID function (a chain handle call
// in production) yields the processor; drawn per concurrent step.
var c38IDYields atomic.Int32

func c38WalletID(pk *ecdsa.PublicKey) ([32]byte, error) {
	for i := int32(0); i < c38IDYields.Load(); i++ {
		runtime.Gosched()
	}
	var buf [64]byte
	pk.X.FillBytes(buf[:32])
	pk.Y.FillBytes(buf[32:])
	return sha256.Sum256(buf[:]), nil
}

type c38Wallet struct {
	pk        *ecdsa.PublicKey
	operators []chain.Address
}

type c38Machine struct {
	t       *rapid.T
	dir     string
	disk    *c38Disk
	reg     *walletRegistry
	wallets []c38Wallet
	shares  []*tecdsa.PrivateKeyShare
	tr      []string

	// what the disk holds, following the storage calls that were applied:
	// wallet -> member index -> marshalled signer (last write wins)
	storage map[int]map[group.MemberIndex][]byte
	// what must survive, following the API: registerSigner returned nil for
	// (wallet, member) and no archival of the wallet was applied or reported
	// successful since (a later applied write of the same member replaces the
	// key material to expect)
	registered map[int]map[group.MemberIndex][]byte

	// statistics
	archives, crashes, failures, restarts, reRegisteredAfterArchive, overwrites int
	concurrentArchives                                                          int
	concurrentSteps, concurrentNewWallet                                        int
	archivedOnce                                                                map[int]bool
	archiveSinceRestart, crashSinceRestart, ntRestart                           bool
}

func (m *c38Machine) logf(format string, a ...any) { m.tr = append(m.tr, fmt.Sprintf(format, a...)) }

func (m *c38Machine) fail(format string, a ...any) {
	m.t.Logf("violation: "+format, a...)
	m.t.Logf("history: %s", strings.Join(m.tr, " "))
	m.t.Fatalf(format, a...)
}

// call runs one registry operation; crashed reports that the storage wrapper
// killed the "process" inside it.
func (m *c38Machine) call(f func() error) (err error, crashed bool) {
	defer func() {
		if r := recover(); r != nil {
			if _, ok := r.(c38Crash); ok {
				crashed = true
				return
			}
			panic(r)
		}
	}()
	return f(), false
}

func (m *c38Machine) open() {
	base, err := persistence.NewProtectedDiskHandle(m.dir)
	if err != nil {
		m.t.Fatalf("VERIF-INCONCLUSIVE: cannot open the scratch storage: %v", err)
	}
	m.disk = &c38Disk{ProtectedHandle: base, next: "ok"}
	reg, err := newWalletRegistry(m.disk, c38WalletID)
	if err != nil {
		m.fail("a registry could not be created over the storage: %v", err)
	}
	m.reg = reg
}

// stored: does the disk hold at least one signer of the wallet? At every
// quiescent point the running registry must know exactly those wallets.
func (m *c38Machine) stored(w int) bool { return len(m.storage[w]) > 0 }

// appliedSince returns the storage operations applied since the given mark.
func (m *c38Machine) appliedSince(mark int) []string {
	m.disk.mu.Lock()
	defer m.disk.mu.Unlock()
	return append([]string{}, m.disk.applied[mark:]...)
}

func (m *c38Machine) appliedMark() int {
	m.disk.mu.Lock()
	defer m.disk.mu.Unlock()
	return len(m.disk.applied)
}

// dirOf is the storage directory of a wallet (harness' own derivation: hex of
// X||Y, 32 bytes each).
func (m *c38Machine) dirOf(w int) string {
	var buf [64]byte
	m.wallets[w].pk.X.FillBytes(buf[:32])
	m.wallets[w].pk.Y.FillBytes(buf[32:])
	return fmt.Sprintf("%x", buf[:])
}

func c38SamePK(a, b *ecdsa.PublicKey) bool {
	return a != nil && b != nil && a.X != nil && b.X != nil && a.X.Cmp(b.X) == 0 && a.Y.Cmp(b.Y) == 0
}

func (m *c38Machine) sameWallet(got wallet, w int) bool {
	if !c38SamePK(got.publicKey, m.wallets[w].pk) || len(got.signingGroupOperators) != len(m.wallets[w].operators) {
		return false
	}
	for i, op := range got.signingGroupOperators {
		if op != m.wallets[w].operators[i] {
			return false
		}
	}
	return true
}

// lookups checks that the three lookups of the running instance agree with
// each other and with what the instance must know.
func (m *c38Machine) lookups(when string) {
	for w := range m.wallets {
		pk := m.wallets[w].pk
		signers := m.reg.getSigners(pk)
		byHash, okHash := m.reg.getWalletByPublicKeyHash(bitcoin.PublicKeyHash(pk))
		id, _ := c38WalletID(pk)
		byID, okID := m.reg.getWalletByID(id)
		if (len(signers) > 0) != okHash || okHash != okID {
			m.fail("%s: lookups disagree for wallet %d: %d signers by public key, found by public key hash: %v, found by wallet ID: %v", when, w, len(signers), okHash, okID)
		}
		if okHash && (!m.sameWallet(byHash, w) || !m.sameWallet(byID, w)) {
			m.fail("%s: lookups by public key hash / wallet ID return a different wallet for wallet %d", when, w)
		}
		for _, s := range signers {
			if !m.sameWallet(s.wallet, w) {
				m.fail("%s: getSigners of wallet %d returns a signer of another wallet", when, w)
			}
		}
		if (len(signers) > 0) != m.stored(w) {
			m.fail("%s: registry knows wallet %d: %v, storage holds it: %v", when, w, len(signers) > 0, m.stored(w))
		}
		// seat level: the running registry holds exactly the member indexes the
		// disk holds (a repeated registration may leave an older copy of the same
		// member in memory; the newest key material must be there)
		have := map[group.MemberIndex]bool{}
		for _, s := range signers {
			have[s.signingGroupMemberIndex] = true
			if _, ok := m.storage[w][s.signingGroupMemberIndex]; !ok {
				m.fail("%s: running registry holds member %d of wallet %d which storage does not hold", when, s.signingGroupMemberIndex, w)
			}
		}
		var idxs []int
		for idx := range m.storage[w] {
			idxs = append(idxs, int(idx))
		}
		sort.Ints(idxs)
		for _, i := range idxs {
			idx := group.MemberIndex(i)
			rec := m.storage[w][idx]
			if !have[idx] {
				m.fail("%s: storage holds member %d of wallet %d but the running registry does not know that signer (it knows %d signers; a restarted registry would know %d)", when, idx, w, len(signers), len(m.storage[w]))
			}
			found := false
			for _, s := range signers {
				if s.signingGroupMemberIndex == idx {
					if got, err := s.Marshal(); err == nil && bytes.Equal(got, rec) {
						found = true
					}
				}
			}
			if !found {
				m.fail("%s: running registry holds member %d of wallet %d with other key material than storage", when, idx, w)
			}
		}
	}
	var known int
	for w := range m.wallets {
		if m.stored(w) {
			known++
		}
	}
	keys := m.reg.getWalletsPublicKeys()
	if len(keys) != known {
		m.fail("%s: getWalletsPublicKeys returns %d keys, %d wallets are known", when, len(keys), known)
	}
	for _, k := range keys {
		found := false
		for w := range m.wallets {
			if c38SamePK(k, m.wallets[w].pk) && m.stored(w) {
				found = true
			}
		}
		if !found {
			m.fail("%s: getWalletsPublicKeys returns a key of a wallet that is not known", when)
		}
	}
}

// afterRestart compares a freshly loaded registry with the storage model.
func (m *c38Machine) afterRestart() {
	for w := range m.wallets {
		want := m.storage[w]
		signers := m.reg.getSigners(m.wallets[w].pk)
		if len(signers) != len(want) {
			m.fail("after restart: wallet %d has %d signers in the registry, storage holds %d", w, len(signers), len(want))
		}
		seen := map[group.MemberIndex]bool{}
		for _, s := range signers {
			if seen[s.signingGroupMemberIndex] {
				m.fail("after restart: wallet %d member %d loaded twice", w, s.signingGroupMemberIndex)
			}
			seen[s.signingGroupMemberIndex] = true
			rec, ok := want[s.signingGroupMemberIndex]
			if !ok {
				m.fail("after restart: wallet %d member %d is in the registry but not in storage", w, s.signingGroupMemberIndex)
			}
			got, err := s.Marshal()
			if err != nil {
				m.fail("after restart: loaded signer cannot be marshalled: %v", err)
			}
			if !bytes.Equal(got, rec) {
				m.fail("after restart: wallet %d member %d came back with different key material", w, s.signingGroupMemberIndex)
			}
		}
	}
	// the other direction: everything registered successfully (API returned
	// nil) and not archived must have come back, whatever the storage calls were
	for w := range m.wallets {
		signers := m.reg.getSigners(m.wallets[w].pk)
		for idx, rec := range m.registered[w] {
			found := false
			for _, s := range signers {
				if s.signingGroupMemberIndex != idx {
					continue
				}
				got, err := s.Marshal()
				if err == nil && bytes.Equal(got, rec) {
					found = true
				}
			}
			if !found {
				m.fail("after restart: registerSigner had returned success for wallet %d member %d and the wallet was not archived, but the restarted registry does not hold that signer with its key material (%d signers loaded)", w, idx, len(signers))
			}
		}
	}
	m.lookups("after restart")
}

// compareWithRestarted loads a second registry from the same disk, checks it
// against the models like after a restart, and keeps the running one.
func (m *c38Machine) compareWithRestarted() {
	running, disk := m.reg, m.disk
	m.open()
	m.afterRestart()
	for w := range m.wallets {
		a, b := map[group.MemberIndex]bool{}, map[group.MemberIndex]bool{}
		for _, s := range running.getSigners(m.wallets[w].pk) {
			a[s.signingGroupMemberIndex] = true
		}
		for _, s := range m.reg.getSigners(m.wallets[w].pk) {
			b[s.signingGroupMemberIndex] = true
		}
		if len(a) != len(b) {
			m.fail("running registry knows %d members of wallet %d, a registry restarted on the same storage knows %d", len(a), w, len(b))
		}
		for idx := range b {
			if !a[idx] {
				m.fail("a restarted registry knows member %d of wallet %d, the running one does not", idx, w)
			}
		}
	}
	m.reg, m.disk = running, disk
}

// registerConcurrently registers several seats of one wallet from parallel
// goroutines released together (the DKG executor registers one signer per
// controlled seat this way). Storage works; the wallet ID function yields.
func (m *c38Machine) registerConcurrently(w int, seats []group.MemberIndex, shareOf []int, archivals int, yields int) {
	type job struct {
		s   *signer // nil: an archival of the wallet
		rec []byte
		err error
		p   any
	}
	var jobs []*job
	for i, idx := range seats {
		s := newSigner(m.wallets[w].pk, m.wallets[w].operators, idx, m.shares[shareOf[i]])
		rec, err := s.Marshal()
		if err != nil {
			m.t.Fatalf("VERIF-INCONCLUSIVE: cannot marshal a generated signer: %v", err)
		}
		jobs = append(jobs, &job{s: s, rec: rec})
	}
	for i := 0; i < archivals; i++ {
		jobs = append(jobs, &job{})
	}
	m.disk.mu.Lock()
	m.disk.next = "ok"
	m.disk.yields = yields
	m.disk.mu.Unlock()
	wasStored := m.stored(w)
	mark := m.appliedMark()
	c38IDYields.Store(int32(yields))
	hash := bitcoin.PublicKeyHash(m.wallets[w].pk)
	var ready atomic.Int32
	var gate atomic.Bool
	var wg sync.WaitGroup
	for _, j := range jobs {
		wg.Add(1)
		go func(j *job) {
			defer wg.Done()
			defer func() { j.p = recover() }()
			ready.Add(1)
			for !gate.Load() {
				runtime.Gosched()
			}
			if j.s == nil {
				j.err = m.reg.archiveWallet(hash)
			} else {
				j.err = m.reg.registerSigner(j.s)
			}
		}(j)
	}
	for ready.Load() != int32(len(jobs)) {
		runtime.Gosched()
	}
	gate.Store(true)
	wg.Wait()
	c38IDYields.Store(0)
	m.disk.mu.Lock()
	m.disk.yields = 0
	m.disk.mu.Unlock()
	m.logf("concurrently(w%d,register m%v,archive x%d,yields=%d)", w, seats, archivals, yields)
	m.concurrentSteps++
	if !wasStored {
		m.concurrentNewWallet++
	}
	if archivals > 0 {
		m.concurrentArchives++
	}
	for _, j := range jobs {
		if j.p != nil {
			m.fail("a registry call panicked in a concurrent step: %v", j.p)
		}
	}
	// The storage calls of one registry are serialised by its lock, so the
	// order in which they were applied is a linearisation of the step: replay
	// it on the models (any order of the concurrent calls is acceptable).
	bySeat := map[string]*job{}
	for i, j := range jobs[:len(seats)] {
		bySeat[fmt.Sprintf("save %s/membership_%v", m.dirOf(w), seats[i])] = j
	}
	saved := map[*job]bool{}
	for _, a := range m.appliedSince(mark) {
		if j, ok := bySeat[a]; ok {
			idx := j.s.signingGroupMemberIndex
			if _, again := m.storage[w][idx]; again {
				m.overwrites++
			}
			m.storage[w][idx] = j.rec
			saved[j] = true
			if _, known := m.registered[w][idx]; known || j.err == nil {
				m.registered[w][idx] = j.rec
			}
		} else if a == "archive "+m.dirOf(w) {
			m.storage[w] = map[group.MemberIndex][]byte{}
			m.registered[w] = map[group.MemberIndex][]byte{}
			m.archives++
			m.archivedOnce[w] = true
			m.archiveSinceRestart = true
		}
	}
	for _, j := range jobs[:len(seats)] {
		if j.err == nil && !saved[j] {
			m.registered[w][j.s.signingGroupMemberIndex] = j.rec // success reported without a write
		}
	}
	// running registry == restarted registry == model
	m.lookups("after " + m.tr[len(m.tr)-1])
	m.compareWithRestarted()
}

func (m *c38Machine) restart(why string) {
	if m.archiveSinceRestart && m.crashSinceRestart {
		m.ntRestart = true
	}
	m.archiveSinceRestart, m.crashSinceRestart = false, false
	m.restarts++
	m.logf("restart(%s)", why)
	m.open()
	m.afterRestart()
}

func TestVerif_C38_WalletRegistry(t *testing.T) {
	st := verifkit.New("C38", "TestVerif_C38_WalletRegistry")
	defer st.Flush()
	shares, err := c38KeyShares()
	if err != nil {
		t.Fatalf("VERIF-INCONCLUSIVE: cannot load key share fixtures: %v", err)
	}
	rapid.Check(t, func(t *rapid.T) {
		dir, err := os.MkdirTemp(".", "c38-")
		if err != nil {
			t.Fatalf("VERIF-INCONCLUSIVE: %v", err)
		}
		defer os.RemoveAll(dir)
		m := &c38Machine{t: t, dir: dir, shares: shares, storage: map[int]map[group.MemberIndex][]byte{}, registered: map[int]map[group.MemberIndex][]byte{}, archivedOnce: map[int]bool{}}
		// three wallets with generated keys
		used := map[uint64]bool{}
		for w := 0; w < 3; w++ {
			k := rapid.Uint64Range(1, 1<<40).Draw(t, "walletKey")
			for used[k] {
				k++
			}
			used[k] = true
			x, y := tecdsa.Curve.ScalarBaseMult(new(big.Int).SetUint64(k).Bytes())
			ops := make([]chain.Address, 5)
			for i := range ops {
				ops[i] = chain.Address(fmt.Sprintf("0x%02d%02d", w, rapid.IntRange(0, 3).Draw(t, "operator")))
			}
			m.wallets = append(m.wallets, c38Wallet{pk: &ecdsa.PublicKey{Curve: tecdsa.Curve, X: x, Y: y}, operators: ops})
			m.storage[w] = map[group.MemberIndex][]byte{}
			m.registered[w] = map[group.MemberIndex][]byte{}
		}
		m.open()
		m.afterRestart()

		outcomes := []string{"ok", "ok", "ok", "ok", "ok", "ok", "ok", "fail", "fail", "crash-before", "crash-after", "crash-after"}
		steps := rapid.IntRange(3, 30).Draw(t, "steps")
		for i := 0; i < steps; i++ {
			op := rapid.SampledFrom([]string{"register", "register", "register", "register-concurrently", "archive", "archive", "restart"}).Draw(t, "op")
			w := rapid.IntRange(0, 2).Draw(t, "wallet")
			idx := group.MemberIndex(rapid.IntRange(1, 5).Draw(t, "member"))
			share := rapid.IntRange(0, len(shares)-1).Draw(t, "share")
			outcome := rapid.SampledFrom(outcomes).Draw(t, "outcome")
			// parameters of a concurrent step (drawn unconditionally)
			seatOrder := rapid.Permutation([]group.MemberIndex{1, 2, 3, 4, 5}).Draw(t, "seats")
			nSeats := rapid.IntRange(2, 5).Draw(t, "seatCount")
			seatShares := rapid.SliceOfN(rapid.IntRange(0, len(shares)-1), 5, 5).Draw(t, "seatShares")
			yields := rapid.IntRange(0, 3).Draw(t, "yields")
			archivals := rapid.SampledFrom([]int{0, 0, 1, 1, 2}).Draw(t, "concurrentArchivals")
			if rapid.IntRange(0, 5).Draw(t, "archivalsOnly") == 0 && archivals == 2 {
				nSeats = 0 // archive || archive
			}
			switch op {
			case "register-concurrently":
				m.registerConcurrently(w, seatOrder[:nSeats], seatShares[:nSeats], archivals, yields)
				continue
			case "register":
				s := newSigner(m.wallets[w].pk, m.wallets[w].operators, idx, shares[share])
				rec, err := s.Marshal()
				if err != nil {
					t.Fatalf("VERIF-INCONCLUSIVE: cannot marshal a generated signer: %v", err)
				}
				m.disk.next = outcome
				mark := m.appliedMark()
				wasStored := m.stored(w)
				err, crashed := m.call(func() error { return m.reg.registerSigner(s) })
				m.disk.next = "ok"
				m.logf("register(w%d,m%d,s%d,%s)", w, idx, share, outcome)
				for _, a := range m.appliedSince(mark) {
					if strings.HasPrefix(a, "save ") {
						if m.archivedOnce[w] && !wasStored {
							m.reRegisteredAfterArchive++
						}
						if _, again := m.storage[w][idx]; again {
							m.overwrites++
						}
						m.storage[w][idx] = rec
						if _, ok := m.registered[w][idx]; ok {
							m.registered[w][idx] = rec
						}
					}
				}
				if err == nil && !crashed {
					m.registered[w][idx] = rec
				}
				if outcome == "fail" {
					m.failures++
				}
				if crashed {
					m.crashes++
					m.crashSinceRestart = true
					m.restart("crash")
					continue
				}
			case "archive":
				m.disk.next = outcome
				mark := m.appliedMark()
				wasStored := m.stored(w)
				err, crashed := m.call(func() error { return m.reg.archiveWallet(bitcoin.PublicKeyHash(m.wallets[w].pk)) })
				m.disk.next = "ok"
				m.logf("archive(w%d,%s)", w, outcome)
				for _, a := range m.appliedSince(mark) {
					for k := range m.wallets {
						if a == "archive "+m.dirOf(k) {
							m.storage[k] = map[group.MemberIndex][]byte{}
							m.registered[k] = map[group.MemberIndex][]byte{}
							m.archives++
							m.archivedOnce[k] = true
							m.archiveSinceRestart = true
						}
					}
				}
				if wasStored && outcome == "fail" {
					m.failures++
				}
				if err == nil && !crashed {
					m.registered[w] = map[group.MemberIndex][]byte{}
				}
				if crashed {
					m.crashes++
					m.crashSinceRestart = true
					m.restart("crash")
					continue
				}
			case "restart":
				m.restart("clean")
				continue
			}
			m.lookups("after " + m.tr[len(m.tr)-1])
		}
		m.restart("final")

		var stored []string
		for w := range m.wallets {
			stored = append(stored, fmt.Sprint(len(m.storage[w])))
		}
		sort.Strings(stored)
		st.Case(m.ntRestart, strings.Join(m.tr, " "),
			fmt.Sprintf("archives:%d", min(m.archives, 3)), fmt.Sprintf("crashes:%d", min(m.crashes, 3)),
			fmt.Sprintf("storage-failures:%d", min(m.failures, 2)), fmt.Sprintf("restarts:%d", min(m.restarts, 5)),
			fmt.Sprintf("re-registered-after-archive:%v", m.reRegisteredAfterArchive > 0),
			fmt.Sprintf("member-overwritten:%v", m.overwrites > 0),
			fmt.Sprintf("concurrent-registration-steps:%d", min(m.concurrentSteps, 4)),
			fmt.Sprintf("concurrent-registration-of-new-wallet:%d", min(m.concurrentNewWallet, 3)),
			fmt.Sprintf("concurrent-steps-with-archival:%d", min(m.concurrentArchives, 3)),
			"signers-at-end:"+strings.Join(stored, "/"))
	})
}
