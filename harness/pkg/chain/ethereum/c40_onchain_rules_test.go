//go:build go1.23

package ethereum

import (
	"bytes"
	"crypto/ecdsa"
	"encoding/hex"
	"fmt"
	"math/big"
	"sort"
	"sync"
	"testing"

	"github.com/ethereum/go-ethereum/accounts/keystore"
	"github.com/ethereum/go-ethereum/crypto"
	"pgregory.net/rapid"

	"github.com/keep-network/keep-core/internal/verifkit"
	"github.com/keep-network/keep-core/pkg/chain"
	"github.com/keep-network/keep-core/pkg/protocol/group"
	"github.com/keep-network/keep-core/pkg/protocol/inactivity"
	"github.com/keep-network/keep-core/pkg/tbtc"
)

// ===========================================================================
// Go transcription of the contract side, written from the Solidity sources in
// solidity/ecdsa/contracts (EcdsaDkgValidator.sol, libraries/EcdsaInactivity.sol,
// libraries/Wallets.sol). It shares no code with pkg/chain/ethereum: the ABI
// encoder below is hand written; only keccak256 and secp256k1 recovery come
// from go-ethereum/crypto.

const (
	c40GroupSize         = 100
	c40GroupThreshold    = 51
	c40ActiveThreshold   = 90
	c40PublicKeyByteSize = 64
	c40SignatureByteSize = 65
)

// --- abi.encode for the argument shapes the contracts hash

type c40AbiArg struct {
	word    *big.Int   // static uint256 / bool
	dynData []byte     // dynamic: bytes
	dynList []*big.Int // dynamic: T[] with every element one word
	kind    byte       // 'w' word, 'b' bytes, 'l' list
}

func c40Word(v *big.Int) c40AbiArg { return c40AbiArg{word: v, kind: 'w'} }
func c40Bool(v bool) c40AbiArg {
	if v {
		return c40Word(big.NewInt(1))
	}
	return c40Word(big.NewInt(0))
}
func c40Bytes(b []byte) c40AbiArg      { return c40AbiArg{dynData: b, kind: 'b'} }
func c40List(l []*big.Int) c40AbiArg   { return c40AbiArg{dynList: l, kind: 'l'} }
func c40Pad32(v *big.Int) []byte       { out := make([]byte, 32); v.FillBytes(out); return out }
func c40U64(v uint64) *big.Int         { return new(big.Int).SetUint64(v) }
func c40Keccak(parts ...[]byte) []byte { return crypto.Keccak256(parts...) }

func c40AbiEncode(args ...c40AbiArg) []byte {
	head := make([]byte, 0, 32*len(args))
	var tail []byte
	headSize := 32 * len(args)
	for _, a := range args {
		switch a.kind {
		case 'w':
			head = append(head, c40Pad32(a.word)...)
		case 'b':
			head = append(head, c40Pad32(big.NewInt(int64(headSize+len(tail))))...)
			tail = append(tail, c40Pad32(big.NewInt(int64(len(a.dynData))))...)
			tail = append(tail, a.dynData...)
			if r := len(a.dynData) % 32; r != 0 {
				tail = append(tail, make([]byte, 32-r)...)
			}
		case 'l':
			head = append(head, c40Pad32(big.NewInt(int64(headSize+len(tail))))...)
			tail = append(tail, c40Pad32(big.NewInt(int64(len(a.dynList))))...)
			for _, e := range a.dynList {
				tail = append(tail, c40Pad32(e)...)
			}
		}
	}
	return append(head, tail...)
}

// ECDSA.toEthSignedMessageHash(bytes32)
func c40EthSignedMessageHash(h []byte) []byte {
	return c40Keccak([]byte("\x19Ethereum Signed Message:\n32"), h)
}

var c40HalfOrder, _ = new(big.Int).SetString("7FFFFFFFFFFFFFFFFFFFFFFFFFFFFFFF5D576E7357A4501DDFE92F46681B20A0", 16)

// OpenZeppelin ECDSA.recover(hash, signature): 65 bytes r‖s‖v, s in the lower
// half order, v 27 or 28, recovered address non-zero.
func c40Recover(hash, sig []byte) (addr [20]byte, err error) {
	if len(sig) != 65 {
		return addr, fmt.Errorf("ECDSA: invalid signature length")
	}
	s := new(big.Int).SetBytes(sig[32:64])
	if s.Cmp(c40HalfOrder) > 0 {
		return addr, fmt.Errorf("ECDSA: invalid signature 's' value")
	}
	v := sig[64]
	if v != 27 && v != 28 {
		return addr, fmt.Errorf("ECDSA: invalid signature 'v' value")
	}
	rsv := append(append([]byte{}, sig[:64]...), v-27)
	pub, err := crypto.Ecrecover(hash, rsv)
	if err != nil {
		return addr, fmt.Errorf("ECDSA: invalid signature")
	}
	copy(addr[:], c40Keccak(pub[1:])[12:])
	if addr == ([20]byte{}) {
		return addr, fmt.Errorf("ECDSA: invalid signature")
	}
	return addr, nil
}

// EcdsaDkg.Result as the contract sees it
type c40Result struct {
	submitterMemberIndex     *big.Int
	groupPubKey              []byte
	misbehavedMembersIndices []uint8
	signatures               []byte
	signingMembersIndices    []*big.Int
	members                  []uint32
	membersHash              [32]byte
}

// EcdsaDkgValidator.validateFields
func c40ValidateFields(r c40Result) (bool, string) {
	if len(r.groupPubKey) != c40PublicKeyByteSize {
		return false, "Malformed group public key"
	}
	mis := r.misbehavedMembersIndices
	if c40GroupSize-len(mis) < c40ActiveThreshold {
		return false, "Too many members misbehaving during DKG"
	}
	if len(mis) > 1 {
		if mis[0] < 1 || int(mis[len(mis)-1]) > c40GroupSize {
			return false, "Corrupted misbehaved members indices"
		}
		for i := 1; i < len(mis); i++ {
			if mis[i-1] >= mis[i] {
				return false, "Corrupted misbehaved members indices"
			}
		}
	}
	signaturesCount := len(r.signatures) / c40SignatureByteSize
	if len(r.signatures) == 0 {
		return false, "No signatures provided"
	}
	if len(r.signatures)%c40SignatureByteSize != 0 {
		return false, "Malformed signatures array"
	}
	sm := r.signingMembersIndices
	if signaturesCount != len(sm) {
		return false, "Unexpected signatures count"
	}
	if signaturesCount < c40GroupThreshold {
		return false, "Too few signatures"
	}
	if signaturesCount > c40GroupSize {
		return false, "Too many signatures"
	}
	if sm[0].Cmp(big.NewInt(1)) < 0 || sm[len(sm)-1].Cmp(big.NewInt(c40GroupSize)) > 0 {
		return false, "Corrupted signing member indices"
	}
	for i := 1; i < len(sm); i++ {
		if sm[i-1].Cmp(sm[i]) >= 0 {
			return false, "Corrupted signing member indices"
		}
	}
	return true, ""
}

// the message hash of EcdsaDkgValidator.validateSignatures
func c40DkgResultHash(chainID *big.Int, groupPubKey []byte, misbehaved []uint8, startBlock *big.Int) []byte {
	mis := make([]*big.Int, len(misbehaved))
	for i, m := range misbehaved {
		mis[i] = big.NewInt(int64(m))
	}
	return c40Keccak(c40AbiEncode(c40Word(chainID), c40Bytes(groupPubKey), c40List(mis), c40Word(startBlock)))
}

// EcdsaDkgValidator.validateSignatures; idOperator = sortitionPool.getIDOperators
func c40ValidateSignatures(r c40Result, chainID, startBlock *big.Int, idOperator func(uint32) [20]byte) (bool, string) {
	hash := c40EthSignedMessageHash(c40DkgResultHash(chainID, r.groupPubKey, r.misbehavedMembersIndices, startBlock))
	signers := make([][20]byte, len(r.signingMembersIndices))
	for i, idx := range r.signingMembersIndices {
		pos := new(big.Int).Sub(idx, big.NewInt(1))
		if pos.Sign() < 0 || pos.Cmp(big.NewInt(int64(len(r.members)))) >= 0 {
			return false, "panic: members index out of bounds"
		}
		signers[i] = idOperator(r.members[pos.Int64()])
	}
	count := len(r.signatures) / c40SignatureByteSize
	for i := 0; i < count; i++ {
		if i >= len(signers) {
			return false, "panic: signer index out of bounds"
		}
		cur := r.signatures[c40SignatureByteSize*i : c40SignatureByteSize*(i+1)]
		rec, err := c40Recover(hash, cur)
		if err != nil {
			return false, "revert: " + err.Error()
		}
		if rec != signers[i] {
			return false, fmt.Sprintf("signature %d recovers to %x, member %v is operated by %x", i, rec, r.signingMembersIndices[i], signers[i])
		}
	}
	return true, ""
}

func c40MembersHash(ids []uint32) [32]byte {
	l := make([]*big.Int, len(ids))
	for i, id := range ids {
		l[i] = c40U64(uint64(id))
	}
	var out [32]byte
	copy(out[:], c40Keccak(c40AbiEncode(c40List(l))))
	return out
}

// EcdsaDkgValidator.validateMembersHash, loop transcribed literally
func c40ValidateMembersHash(r c40Result) (bool, string) {
	mis := r.misbehavedMembersIndices
	if len(mis) > 0 {
		if len(r.members) < len(mis) {
			return false, "panic: underflow"
		}
		groupMembers := make([]uint32, len(r.members)-len(mis))
		k, j := 0, 0
		for i := 0; i < len(r.members); i++ {
			if mis[k] == 0 {
				return false, "panic: underflow"
			}
			if i != int(mis[k])-1 {
				if j >= len(groupMembers) {
					return false, "panic: index out of bounds"
				}
				groupMembers[j] = r.members[i]
				j++
			} else if k < len(mis)-1 {
				k++
			}
		}
		return c40MembersHash(groupMembers) == r.membersHash, "members hash differs"
	}
	return c40MembersHash(r.members) == r.membersHash, "members hash differs"
}

// EcdsaDkgValidator.validate without validateGroupMembers (needs the pool)
func c40Validate(r c40Result, chainID, startBlock *big.Int, idOperator func(uint32) [20]byte) (bool, string) {
	if ok, why := c40ValidateFields(r); !ok {
		return false, why
	}
	if ok, why := c40ValidateSignatures(r, chainID, startBlock, idOperator); !ok {
		return false, "Invalid signatures: " + why
	}
	if ok, why := c40ValidateMembersHash(r); !ok {
		return false, "Invalid members hash: " + why
	}
	return true, ""
}

// EcdsaInactivity.validateMembersIndices
func c40ValidateMembersIndices(indices []*big.Int, groupSize int) (bool, string) {
	if !(len(indices) > 0 && len(indices) <= groupSize) {
		return false, "Corrupted members indices"
	}
	if !(indices[0].Sign() > 0 && indices[len(indices)-1].Cmp(big.NewInt(int64(groupSize))) <= 0) {
		return false, "Corrupted members indices"
	}
	for i := 0; i < len(indices)-1; i++ {
		if indices[i].Cmp(indices[i+1]) >= 0 {
			return false, "Corrupted members indices"
		}
	}
	return true, ""
}

type c40Claim struct {
	walletID               [32]byte
	inactiveMembersIndices []*big.Int
	heartbeatFailed        bool
	signatures             []byte
	signingMembersIndices  []*big.Int
}

func c40InactivityClaimHash(chainID, nonce *big.Int, walletPubKey []byte, inactive []*big.Int, heartbeatFailed bool) []byte {
	return c40Keccak(c40AbiEncode(c40Word(chainID), c40Word(nonce), c40Bytes(walletPubKey), c40List(inactive), c40Bool(heartbeatFailed)))
}

// EcdsaInactivity.verifyClaim
func c40VerifyClaim(c c40Claim, chainID *big.Int, walletPubKey []byte, nonce *big.Int, groupMembers []uint32, idOperator func(uint32) [20]byte, sender [20]byte) (bool, string) {
	if ok, why := c40ValidateMembersIndices(c.inactiveMembersIndices, len(groupMembers)); !ok {
		return false, "inactive: " + why
	}
	signaturesCount := len(c.signatures) / c40SignatureByteSize
	if len(c.signatures) == 0 {
		return false, "No signatures provided"
	}
	if len(c.signatures)%c40SignatureByteSize != 0 {
		return false, "Malformed signatures array"
	}
	if signaturesCount != len(c.signingMembersIndices) {
		return false, "Unexpected signatures count"
	}
	if signaturesCount < c40GroupThreshold {
		return false, "Too few signatures"
	}
	if signaturesCount > len(groupMembers) {
		return false, "Too many signatures"
	}
	if ok, why := c40ValidateMembersIndices(c.signingMembersIndices, len(groupMembers)); !ok {
		return false, "signing: " + why
	}
	hash := c40EthSignedMessageHash(c40InactivityClaimHash(chainID, nonce, walletPubKey, c.inactiveMembersIndices, c.heartbeatFailed))
	senderSigned := false
	for i := 0; i < signaturesCount; i++ {
		memberIndex := c.signingMembersIndices[i].Int64()
		rec, err := c40Recover(hash, c.signatures[c40SignatureByteSize*i:c40SignatureByteSize*(i+1)])
		if err != nil {
			return false, "revert: " + err.Error()
		}
		if idOperator(groupMembers[memberIndex-1]) != rec {
			return false, fmt.Sprintf("Invalid signature (%d)", i)
		}
		if rec == sender {
			senderSigned = true
		}
	}
	if !senderSigned {
		return false, "Sender must be claim signer"
	}
	return true, ""
}

// ===========================================================================
// operators and keys

type c40Operator struct {
	key     *ecdsa.PrivateKey
	address [20]byte
	chainAd chain.Address
}

var (
	c40Once      sync.Once
	c40Operators []*c40Operator // pool of operator keys
	c40OddKeys   []*ecdsa.PublicKey
)

func c40Setup() {
	c40Once.Do(func() {
		for i := 0; i < 48; i++ {
			k, err := crypto.ToECDSA(c40Keccak([]byte(fmt.Sprintf("c40 operator key %d", i))))
			if err != nil {
				panic(err)
			}
			op := &c40Operator{key: k}
			copy(op.address[:], crypto.PubkeyToAddress(k.PublicKey).Bytes())
			op.chainAd = chain.Address(crypto.PubkeyToAddress(k.PublicKey).Hex())
			c40Operators = append(c40Operators, op)
		}
		// group keys whose X or Y coordinate has leading zero bytes (their
		// big.Int form is shorter than 32 bytes)
		needX, needY := 3, 3
		for i := 0; (needX > 0 || needY > 0) && i < 200000; i++ {
			k, err := crypto.ToECDSA(c40Keccak([]byte(fmt.Sprintf("c40 group key %d", i))))
			if err != nil {
				continue
			}
			shortX, shortY := len(k.PublicKey.X.Bytes()) < 32, len(k.PublicKey.Y.Bytes()) < 32
			if (shortX && needX > 0) || (shortY && needY > 0) {
				c40OddKeys = append(c40OddKeys, &k.PublicKey)
				if shortX {
					needX--
				}
				if shortY {
					needY--
				}
			}
		}
	})
}

func c40GenPublicKey(t *rapid.T) (*ecdsa.PublicKey, bool) {
	if len(c40OddKeys) > 0 && rapid.IntRange(0, 3).Draw(t, "shortCoordinateKey") == 0 {
		return c40OddKeys[rapid.IntRange(0, len(c40OddKeys)-1).Draw(t, "oddKey")], true
	}
	seed := rapid.SliceOfN(rapid.Byte(), 8, 8).Draw(t, "groupKeySeed")
	k, err := crypto.ToECDSA(c40Keccak([]byte("c40 drawn group key"), seed))
	if err != nil {
		k = c40Operators[0].key
	}
	return &k.PublicKey, len(k.PublicKey.X.Bytes()) < 32 || len(k.PublicKey.Y.Bytes()) < 32
}

func c40GenChainID(t *rapid.T) *big.Int {
	switch rapid.IntRange(0, 4).Draw(t, "chainIDClass") {
	case 0:
		return big.NewInt(rapid.SampledFrom([]int64{1, 11155111, 31337, 1101, 5}).Draw(t, "knownChainID"))
	case 1:
		return new(big.Int).SetUint64(rapid.Uint64().Draw(t, "chainID64"))
	case 2:
		return new(big.Int).SetBytes(rapid.SliceOfN(rapid.Byte(), 1, 32).Draw(t, "chainID256"))
	default:
		return big.NewInt(int64(rapid.IntRange(1, 100000).Draw(t, "chainID")))
	}
}

// 100 seats held by 1..40 operators (operators hold several seats)
type c40Group struct {
	ids       chain.OperatorIDs
	addresses chain.Addresses
	opOfID    map[uint32]*c40Operator
}

func c40GenGroup(t *rapid.T) c40Group {
	nOps := rapid.IntRange(1, 40).Draw(t, "operators")
	g := c40Group{opOfID: map[uint32]*c40Operator{}}
	var opIDs []uint32
	for len(opIDs) < nOps {
		var id uint32
		switch rapid.IntRange(0, 3).Draw(t, "idClass") {
		case 0:
			id = uint32(rapid.IntRange(1, 300).Draw(t, "smallID"))
		case 1:
			id = rapid.Uint32().Draw(t, "anyID")
		default:
			id = uint32(rapid.IntRange(1, 5000).Draw(t, "id"))
		}
		if _, dup := g.opOfID[id]; dup {
			continue
		}
		g.opOfID[id] = c40Operators[len(opIDs)]
		opIDs = append(opIDs, id)
	}
	for i := 0; i < c40GroupSize; i++ {
		id := opIDs[rapid.IntRange(0, nOps-1).Draw(t, "seatOperator")]
		g.ids = append(g.ids, id)
		g.addresses = append(g.addresses, g.opOfID[id].chainAd)
	}
	return g
}

func (g c40Group) idOperator(id uint32) [20]byte {
	if op, ok := g.opOfID[id]; ok {
		return op.address
	}
	return [20]byte{}
}

// a drawn subset of 1..100 of the given size, biased to contain the ends
func c40GenIndexSet(t *rapid.T, label string, from []group.MemberIndex, size int) []group.MemberIndex {
	perm := rapid.Permutation(from).Draw(t, label)
	return append([]group.MemberIndex{}, perm[:size]...)
}

func c40AllIndexes() []group.MemberIndex {
	out := make([]group.MemberIndex, c40GroupSize)
	for i := range out {
		out[i] = group.MemberIndex(i + 1)
	}
	return out
}

func c40Sorted(in []group.MemberIndex) []group.MemberIndex {
	out := append([]group.MemberIndex{}, in...)
	sort.Slice(out, func(i, j int) bool { return out[i] < out[j] })
	return out
}

func c40Complement(of []group.MemberIndex) []group.MemberIndex {
	in := map[group.MemberIndex]bool{}
	for _, m := range of {
		in[m] = true
	}
	var out []group.MemberIndex
	for _, m := range c40AllIndexes() {
		if !in[m] {
			out = append(out, m)
		}
	}
	return out
}

func c40Chain(chainID *big.Int) *TbtcChain {
	return &TbtcChain{baseChain: &baseChain{chainID: chainID}}
}

func c40Unprefixed(pub *ecdsa.PublicKey) []byte {
	out := make([]byte, 64)
	pub.X.FillBytes(out[:32])
	pub.Y.FillBytes(out[32:])
	return out
}

func c40ToBig(in []group.MemberIndex) []*big.Int {
	out := make([]*big.Int, len(in))
	for i, m := range in {
		out[i] = big.NewInt(int64(m))
	}
	return out
}

// ===========================================================================

// TestVerif_C40_AssembledResultPassesValidator: for a generated DKG outcome the
// members sign the client's own result hash with the client's signer, the
// client assembles the chain result, and the transcribed validator must
// accept what would be submitted.
func TestVerif_C40_AssembledResultPassesValidator(t *testing.T) {
	c40Setup()
	st := verifkit.New("C40", "TestVerif_C40_AssembledResultPassesValidator")
	defer st.Flush()
	rapid.Check(t, func(t *rapid.T) {
		g := c40GenGroup(t)
		chainID := c40GenChainID(t)
		startBlock := uint64(rapid.IntRange(0, 1<<40).Draw(t, "startBlock"))
		if rapid.IntRange(0, 9).Draw(t, "hugeStartBlock") == 0 {
			startBlock = uint64(rapid.Int64Range(1<<40, 1<<62).Draw(t, "startBlockHuge"))
		}
		pub, shortCoord := c40GenPublicKey(t)

		nMis := rapid.SampledFrom([]int{0, 0, 1, 1, 2, 3, 5, 9, 10}).Draw(t, "misbehavedCount")
		misbehaved := c40GenIndexSet(t, "misbehaved", c40AllIndexes(), nMis)
		if nMis > 0 && rapid.Bool().Draw(t, "misbehavedAtEnds") {
			misbehaved[0] = group.MemberIndex(rapid.SampledFrom([]int{1, 100}).Draw(t, "endIndex"))
			misbehaved = c40Dedup(misbehaved)
			nMis = len(misbehaved)
		}
		operating := c40Complement(misbehaved)
		var nSup int
		switch rapid.IntRange(0, 4).Draw(t, "supportersClass") {
		case 0:
			nSup = c40GroupThreshold
		case 1:
			nSup = len(operating)
		case 2:
			nSup = rapid.IntRange(c40GroupThreshold, len(operating)).Draw(t, "supporters")
		default:
			nSup = rapid.IntRange(min(c40ActiveThreshold, len(operating)), len(operating)).Draw(t, "supportersQuorum")
		}
		supporters := c40GenIndexSet(t, "supporterSet", operating, nSup)
		submitter := supporters[rapid.IntRange(0, len(supporters)-1).Draw(t, "submitter")]

		tc := c40Chain(chainID)

		// the hash every member signs (input order of the indexes is free)
		misShuffled := append([]group.MemberIndex{}, misbehaved...)
		clientHash, err := tc.CalculateDKGResultSignatureHash(pub, misShuffled, startBlock)
		if err != nil {
			t.Fatalf("CalculateDKGResultSignatureHash failed: %v", err)
		}
		wantHash := c40DkgResultHash(chainID, c40Unprefixed(pub), c40Sorted(misbehaved), c40U64(startBlock))
		if !bytes.Equal(clientHash[:], wantHash) {
			t.Fatalf("result hash differs from keccak256(abi.encode(chainid, groupPubKey, misbehavedMembersIndices, startBlock)): client %x, contract %x (chain %v, key %x, misbehaved %v, start %d)",
				clientHash, wantHash, chainID, c40Unprefixed(pub), c40Sorted(misbehaved), startBlock)
		}

		signatures := map[group.MemberIndex][]byte{}
		for _, m := range supporters {
			op := g.opOfID[g.ids[m-1]]
			sig, err := newSigner(&keystore.Key{PrivateKey: op.key}).Sign(clientHash[:])
			if err != nil {
				t.Fatalf("signing failed: %v", err)
			}
			signatures[m] = sig
		}

		operatingIn := append([]group.MemberIndex{}, operating...)
		if rapid.Bool().Draw(t, "shuffleOperating") {
			operatingIn = rapid.Permutation(operatingIn).Draw(t, "operatingOrder")
		}
		result, err := tc.AssembleDKGResult(submitter, pub, operatingIn, append([]group.MemberIndex{}, misbehaved...), signatures,
			&tbtc.GroupSelectionResult{OperatorsIDs: g.ids, OperatorsAddresses: g.addresses})
		if err != nil {
			t.Fatalf("AssembleDKGResult failed: %v", err)
		}
		abiResult := convertDkgResultToAbiType(result)
		r := c40Result{
			submitterMemberIndex:     abiResult.SubmitterMemberIndex,
			groupPubKey:              abiResult.GroupPubKey,
			misbehavedMembersIndices: abiResult.MisbehavedMembersIndices,
			signatures:               abiResult.Signatures,
			signingMembersIndices:    abiResult.SigningMembersIndices,
			members:                  abiResult.Members,
			membersHash:              abiResult.MembersHash,
		}
		ctx := fmt.Sprintf("chain %v start %d misbehaved %v supporters %d submitter %d key %x", chainID, startBlock, c40Sorted(misbehaved), nSup, submitter, c40Unprefixed(pub))
		if ok, why := c40Validate(r, chainID, c40U64(startBlock), g.idOperator); !ok {
			t.Fatalf("the contract would reject the assembled result: %s\n%s\nresult: misbehaved %v signing %v members %v", why, ctx, r.misbehavedMembersIndices, r.signingMembersIndices, r.members)
		}
		// what the registry stores / compares besides the validator
		if r.submitterMemberIndex.Cmp(big.NewInt(int64(submitter))) != 0 {
			t.Fatalf("submitter index %v, want %d", r.submitterMemberIndex, submitter)
		}
		if len(r.members) != c40GroupSize {
			t.Fatalf("result carries %d members", len(r.members))
		}
		for i := range r.members {
			if r.members[i] != g.ids[i] {
				t.Fatalf("result member %d is %d, selected was %d", i+1, r.members[i], g.ids[i])
			}
		}
		if !bytes.Equal(r.groupPubKey, c40Unprefixed(pub)) {
			t.Fatalf("group public key bytes %x, want X‖Y %x", r.groupPubKey, c40Unprefixed(pub))
		}
		var activeIDs []uint32
		for _, m := range operating {
			activeIDs = append(activeIDs, g.ids[m-1])
		}
		if r.membersHash != c40MembersHash(activeIDs) {
			t.Fatalf("members hash is not keccak256(abi.encode(ids of the operating members))")
		}
		if len(r.signingMembersIndices) != nSup {
			t.Fatalf("%d signing members in the result, %d supporters", len(r.signingMembersIndices), nSup)
		}

		// the transcription is not vacuous: corrupted results are rejected
		tamper := rapid.IntRange(0, 6).Draw(t, "tamper")
		bad := r
		bad.signatures = append([]byte{}, r.signatures...)
		bad.signingMembersIndices = append([]*big.Int{}, r.signingMembersIndices...)
		bad.misbehavedMembersIndices = append([]uint8{}, r.misbehavedMembersIndices...)
		badChain, badStart := chainID, c40U64(startBlock)
		tamperName := ""
		switch tamper {
		case 0:
			tamperName = "signature-byte"
			bad.signatures[rapid.IntRange(0, len(bad.signatures)-2).Draw(t, "flipAt")] ^= 0x01
			if bytes.Equal(bad.signatures, r.signatures) {
				tamperName = ""
			}
		case 1:
			tamperName = "swapped-signers"
			bad.signingMembersIndices[0], bad.signingMembersIndices[1] = bad.signingMembersIndices[1], bad.signingMembersIndices[0]
		case 2:
			tamperName = "hash-over-all-members"
			if nMis == 0 {
				tamperName = ""
			}
			bad.membersHash = c40MembersHash(r.members)
		case 3:
			tamperName = "other-chain"
			badChain = new(big.Int).Add(chainID, big.NewInt(1))
		case 4:
			tamperName = "other-start-block"
			badStart = c40U64(startBlock + 1)
		case 5:
			tamperName = "short-key"
			bad.groupPubKey = r.groupPubKey[1:]
		default:
			tamperName = "misbehaved-unsorted"
			if nMis < 2 {
				tamperName = ""
			} else {
				bad.misbehavedMembersIndices[0], bad.misbehavedMembersIndices[1] = bad.misbehavedMembersIndices[1], bad.misbehavedMembersIndices[0]
			}
		}
		if tamperName == "hash-over-all-members" && bad.membersHash == r.membersHash {
			tamperName = ""
		}
		if tamperName != "" {
			if ok, _ := c40Validate(bad, badChain, badStart, g.idOperator); ok {
				t.Fatalf("harness self-check: the transcribed validator accepts a corrupted result (%s); %s", tamperName, ctx)
			}
		}

		nt := nMis >= 1 && nSup != len(operating)
		st.Case(nt, ctx+fmt.Sprintf(" operators=%d", len(g.opOfID)),
			fmt.Sprintf("misbehaved:%d", min(nMis, 4)), fmt.Sprintf("supporters:%s", c40SupLabel(nSup, len(operating))),
			fmt.Sprintf("short-coordinate-key:%v", shortCoord), "control:"+tamperName)
	})
}

func c40SupLabel(n, operating int) string {
	switch {
	case n == operating:
		return "all-operating"
	case n == c40GroupThreshold:
		return "exactly-51"
	case n < c40ActiveThreshold:
		return "52..89"
	}
	return ">=90"
}

func c40Dedup(in []group.MemberIndex) []group.MemberIndex {
	seen := map[group.MemberIndex]bool{}
	var out []group.MemberIndex
	for _, m := range in {
		if !seen[m] {
			seen[m] = true
			out = append(out, m)
		}
	}
	return out
}

// TestVerif_C40_InactivityClaimAndWalletID: claim hash, claim assembly and
// wallet ID against EcdsaInactivity.verifyClaim and Wallets.
func TestVerif_C40_InactivityClaimAndWalletID(t *testing.T) {
	c40Setup()
	st := verifkit.New("C40", "TestVerif_C40_InactivityClaimAndWalletID")
	defer st.Flush()
	rapid.Check(t, func(t *rapid.T) {
		g := c40GenGroup(t)
		chainID := c40GenChainID(t)
		pub, shortCoord := c40GenPublicKey(t)
		var nonce *big.Int
		switch rapid.IntRange(0, 3).Draw(t, "nonceClass") {
		case 0:
			nonce = big.NewInt(0)
		case 1:
			nonce = new(big.Int).SetBytes(rapid.SliceOfN(rapid.Byte(), 1, 32).Draw(t, "nonce256"))
		default:
			nonce = big.NewInt(int64(rapid.IntRange(0, 5000).Draw(t, "nonce")))
		}
		heartbeatFailed := rapid.Bool().Draw(t, "heartbeatFailed")
		nInactive := rapid.SampledFrom([]int{1, 1, 2, 3, 10, 30, 49}).Draw(t, "inactiveCount")
		inactive := c40GenIndexSet(t, "inactive", c40AllIndexes(), nInactive)
		// the caller's list may be unsorted and contain repeats
		inactiveIn := append([]group.MemberIndex{}, inactive...)
		if rapid.Bool().Draw(t, "repeatInactive") {
			inactiveIn = append(inactiveIn, inactive[0])
		}
		active := c40Complement(inactive)
		nSup := rapid.SampledFrom([]int{c40GroupThreshold, c40GroupThreshold, len(active), -1}).Draw(t, "supportersClass")
		if nSup < 0 {
			nSup = rapid.IntRange(c40GroupThreshold, len(active)).Draw(t, "supporters")
		}
		supporters := c40GenIndexSet(t, "supporterSet", active, nSup)
		sender := supporters[rapid.IntRange(0, len(supporters)-1).Draw(t, "sender")]

		tc := c40Chain(chainID)

		// wallet ID
		walletID, err := tc.CalculateWalletID(pub)
		if err != nil {
			t.Fatalf("CalculateWalletID failed: %v", err)
		}
		if want := c40Keccak(c40Unprefixed(pub)); !bytes.Equal(walletID[:], want) {
			t.Fatalf("wallet ID %x, Wallets library gives keccak256(X‖Y) = %x for key %x", walletID, want, c40Unprefixed(pub))
		}

		claim := inactivity.NewClaimPreimage(nonce, pub, inactiveIn, heartbeatFailed)
		clientHash, err := tc.CalculateInactivityClaimHash(claim)
		if err != nil {
			t.Fatalf("CalculateInactivityClaimHash failed: %v", err)
		}
		wantHash := c40InactivityClaimHash(chainID, nonce, c40Unprefixed(pub), c40ToBig(c40Sorted(inactive)), heartbeatFailed)
		if !bytes.Equal(clientHash[:], wantHash) {
			t.Fatalf("claim hash differs from keccak256(abi.encode(chainid, nonce, walletPubKey, inactiveMembersIndices, heartbeatFailed)): client %x contract %x (chain %v nonce %v inactive %v hb %v)",
				clientHash, wantHash, chainID, nonce, c40Sorted(inactive), heartbeatFailed)
		}

		signatures := map[group.MemberIndex][]byte{}
		for _, m := range supporters {
			op := g.opOfID[g.ids[m-1]]
			sig, err := newSigner(&keystore.Key{PrivateKey: op.key}).Sign(clientHash[:])
			if err != nil {
				t.Fatalf("signing failed: %v", err)
			}
			signatures[m] = sig
		}
		chainClaim, err := tc.AssembleInactivityClaim(walletID, claim.InactiveMembersIndexes, signatures, heartbeatFailed)
		if err != nil {
			t.Fatalf("AssembleInactivityClaim failed: %v", err)
		}
		abiClaim := convertInactivityClaimToAbiType(chainClaim)
		c := c40Claim{
			walletID:               abiClaim.WalletID,
			inactiveMembersIndices: abiClaim.InactiveMembersIndices,
			heartbeatFailed:        abiClaim.HeartbeatFailed,
			signatures:             abiClaim.Signatures,
			signingMembersIndices:  abiClaim.SigningMembersIndices,
		}
		senderAddr := g.opOfID[g.ids[sender-1]].address
		ctx := fmt.Sprintf("chain %v nonce %v inactive %v heartbeatFailed %v supporters %d key %x", chainID, nonce, c40Sorted(inactive), heartbeatFailed, nSup, c40Unprefixed(pub))
		if ok, why := c40VerifyClaim(c, chainID, c40Unprefixed(pub), nonce, g.ids, g.idOperator, senderAddr); !ok {
			t.Fatalf("the contract would reject the assembled claim: %s\n%s", why, ctx)
		}
		if c.walletID != walletID || c.heartbeatFailed != heartbeatFailed {
			t.Fatalf("claim carries wallet %x / heartbeat %v", c.walletID, c.heartbeatFailed)
		}
		if fmt.Sprint(c.inactiveMembersIndices) != fmt.Sprint(c40ToBig(c40Sorted(inactive))) {
			t.Fatalf("claim accuses %v, the members found inactive are %v", c.inactiveMembersIndices, c40Sorted(inactive))
		}

		// self-check of the transcription
		bad := c
		tamperName := rapid.SampledFrom([]string{"other-nonce", "heartbeat-flag", "outsider-sender", "signature-byte"}).Draw(t, "tamper")
		badNonce := nonce
		badSender := senderAddr
		switch tamperName {
		case "other-nonce":
			badNonce = new(big.Int).Add(nonce, big.NewInt(1))
		case "heartbeat-flag":
			bad.heartbeatFailed = !c.heartbeatFailed
		case "outsider-sender":
			badSender = c40Operators[47].address
			if len(g.opOfID) == 48 {
				tamperName = ""
			}
		case "signature-byte":
			bad.signatures = append([]byte{}, c.signatures...)
			bad.signatures[rapid.IntRange(0, len(bad.signatures)-2).Draw(t, "flipAt")] ^= 0x80
		}
		if tamperName != "" {
			if ok, _ := c40VerifyClaim(bad, chainID, c40Unprefixed(pub), badNonce, g.ids, g.idOperator, badSender); ok {
				t.Fatalf("harness self-check: transcribed verifyClaim accepts a corrupted claim (%s); %s", tamperName, ctx)
			}
		}

		nt := nInactive > 1 && nSup != len(active)
		st.Case(nt, ctx, fmt.Sprintf("inactive:%d", min(nInactive, 10)), fmt.Sprintf("supporters:%s", c40SupLabel(nSup, len(active))),
			fmt.Sprintf("short-coordinate-key:%v", shortCoord), fmt.Sprintf("heartbeatFailed:%v", heartbeatFailed), "control:"+tamperName)
	})
}

// TestVerif_C40_KnownVectors: the transcription reproduces the hashes that the
// repository's own tests took from the deployed contracts.
func TestVerif_C40_KnownVectors(t *testing.T) {
	st := verifkit.New("C40", "TestVerif_C40_KnownVectors")
	defer st.Flush()
	unhex := func(s string) []byte {
		b, err := hex.DecodeString(s)
		if err != nil {
			t.Fatal(err)
		}
		return b
	}
	key := unhex("989d253b17a6a0f41838b84ff0d20e8898f9d7b1a98f2564da4cc29dcf8581d9d218b65e7d91c752f7b22eaceb771a9af3a6f3d3f010a5d471a1aeef7d7713af")
	if got := hex.EncodeToString(c40DkgResultHash(big.NewInt(1), key, []uint8{2, 55}, big.NewInt(2000))); got != "25f917154586c2be0b6364f5c4758580e535bc01ed4881211000c9267aef3a3b" {
		t.Fatalf("transcribed DKG result hash does not reproduce the contract vector: %s", got)
	}
	st.Case(true, "dkg result hash vector", "vector:dkg-result-hash")
	wkey := unhex("9a0544440cc47779235ccb76d669590c2cd20c7e431f97e17a1093faf03291c473e661a208a8a565ca1e384059bd2ff7ff6886df081ff1229250099d388c83df")
	if got := hex.EncodeToString(c40InactivityClaimHash(big.NewInt(31337), big.NewInt(3), wkey, []*big.Int{big.NewInt(1), big.NewInt(2), big.NewInt(30)}, true)); got != "f3210008cba186e90386a1bd0c63b6f29a67666f632350be22ce63ab39fc506e" {
		t.Fatalf("transcribed inactivity claim hash does not reproduce the contract vector: %s", got)
	}
	st.Case(true, "inactivity claim hash vector", "vector:claim-hash")
	if got := hex.EncodeToString(c40Keccak(wkey)); got != "a6602e554b8cf7c23538fd040e4ff3520ec680e5e5ce9a075259e613a3e5aa79" {
		t.Fatalf("transcribed wallet ID does not reproduce the contract vector: %s", got)
	}
	st.Case(true, "wallet id vector", "vector:wallet-id")
}
