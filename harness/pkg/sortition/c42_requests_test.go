//go:build go1.23

package sortition

import (
	"context"
	"fmt"
	"math/big"
	"sort"
	"strings"
	"sync"
	"testing"
	"time"

	"github.com/keep-network/keep-core/internal/testutils"
	"github.com/keep-network/keep-core/internal/verifkit"
	"github.com/keep-network/keep-core/pkg/chain"
	"pgregory.net/rapid"
)

// ---------------------------------------------------------------------------
// scripted chain: every query answer of one status check is part of the
// generated step; transaction requests are recorded.

type c42Answer struct {
	val bool
	err bool
}

func (a c42Answer) String() string {
	if a.err {
		return "E"
	}
	if a.val {
		return "1"
	}
	return "0"
}

type c42Step struct {
	inPool, upToDate, locked, eligible, canRestore, chaosnet, beta c42Answer
	joinFails, updateFails, restoreFails                           bool
}

func (s c42Step) String() string {
	f := func(b bool) string {
		if b {
			return "x"
		}
		return "-"
	}
	return fmt.Sprintf("in=%v up=%v lock=%v elig=%v canR=%v chaos=%v beta=%v txfail=%s%s%s",
		s.inPool, s.upToDate, s.locked, s.eligible, s.canRestore, s.chaosnet, s.beta,
		f(s.joinFails), f(s.updateFails), f(s.restoreFails))
}

var c42ErrQuery = fmt.Errorf("c42: scripted query failure")
var c42ErrTx = fmt.Errorf("c42: scripted transaction failure")

type c42Chain struct {
	mu sync.Mutex

	// registration answer of OperatorToStakingProvider
	registered    bool
	registeredErr bool

	// script: step i is used by the i-th status check. A check starts with the
	// IsOperatorInPool query. cur == -1 before the first check.
	script []c42Step
	cur    int
	// transaction requests per step, in request order
	requests [][]string
	// requests or queries seen outside of any scripted step
	stray []string
	// closed when a check beyond the script starts
	exhausted     chan struct{}
	exhaustedOnce sync.Once
}

func c42NewChain(script []c42Step) *c42Chain {
	return &c42Chain{
		registered: true,
		script:     script,
		cur:        -1,
		requests:   make([][]string, len(script)),
		exhausted:  make(chan struct{}),
	}
}

func (c *c42Chain) answer(name string, pick func(s *c42Step) c42Answer) (bool, error) {
	c.mu.Lock()
	defer c.mu.Unlock()
	if c.cur < 0 || c.cur >= len(c.script) {
		c.stray = append(c.stray, "query:"+name)
		return false, c42ErrQuery
	}
	a := pick(&c.script[c.cur])
	if a.err {
		// a failing query still returns a value; it is the one that would
		// permit the most if the caller used it in spite of the error
		switch name {
		case "IsOperatorInPool":
			return a.val, c42ErrQuery
		case "CanRestoreRewardEligibility", "IsBetaOperator":
			return true, c42ErrQuery
		}
		return false, c42ErrQuery
	}
	return a.val, nil
}

func (c *c42Chain) request(name string, fails func(s *c42Step) bool) error {
	c.mu.Lock()
	defer c.mu.Unlock()
	if c.cur < 0 || c.cur >= len(c.script) {
		c.stray = append(c.stray, "tx:"+name)
		return c42ErrTx
	}
	c.requests[c.cur] = append(c.requests[c.cur], name)
	if fails(&c.script[c.cur]) {
		return c42ErrTx
	}
	return nil
}

func (c *c42Chain) OperatorToStakingProvider() (chain.Address, bool, error) {
	c.mu.Lock()
	defer c.mu.Unlock()
	if c.registeredErr {
		return "", true, c42ErrQuery
	}
	if !c.registered {
		return "", false, nil
	}
	return "0x80C63B577DC79B2432357BECC5b431dfb8E181DD", true, nil
}

func (c *c42Chain) EligibleStake(chain.Address) (*big.Int, error) { return big.NewInt(0), nil }

func (c *c42Chain) IsOperatorInPool() (bool, error) {
	// the first query of a status check: move to the next scripted step
	c.mu.Lock()
	c.cur++
	over := c.cur >= len(c.script)
	c.mu.Unlock()
	if over {
		c.exhaustedOnce.Do(func() { close(c.exhausted) })
		return false, c42ErrQuery
	}
	return c.answer("IsOperatorInPool", func(s *c42Step) c42Answer { return s.inPool })
}

func (c *c42Chain) IsOperatorUpToDate() (bool, error) {
	return c.answer("IsOperatorUpToDate", func(s *c42Step) c42Answer { return s.upToDate })
}
func (c *c42Chain) IsPoolLocked() (bool, error) {
	return c.answer("IsPoolLocked", func(s *c42Step) c42Answer { return s.locked })
}
func (c *c42Chain) IsEligibleForRewards() (bool, error) {
	return c.answer("IsEligibleForRewards", func(s *c42Step) c42Answer { return s.eligible })
}
func (c *c42Chain) CanRestoreRewardEligibility() (bool, error) {
	return c.answer("CanRestoreRewardEligibility", func(s *c42Step) c42Answer { return s.canRestore })
}
func (c *c42Chain) IsChaosnetActive() (bool, error) {
	return c.answer("IsChaosnetActive", func(s *c42Step) c42Answer { return s.chaosnet })
}
func (c *c42Chain) IsBetaOperator() (bool, error) {
	return c.answer("IsBetaOperator", func(s *c42Step) c42Answer { return s.beta })
}
func (c *c42Chain) JoinSortitionPool() error {
	return c.request("join", func(s *c42Step) bool { return s.joinFails })
}
func (c *c42Chain) UpdateOperatorStatus() error {
	return c.request("update", func(s *c42Step) bool { return s.updateFails })
}
func (c *c42Chain) RestoreRewardEligibility() error {
	return c.request("restore", func(s *c42Step) bool { return s.restoreFails })
}
func (c *c42Chain) GetOperatorID(chain.Address) (chain.OperatorID, error) { return 1, nil }

// ---------------------------------------------------------------------------
// policies: the real ones of policy.go over the scripted chain, combined with
// constant policies of the harness (stand-ins for tbtc's pre-params policy).

type c42ConstPolicy struct{ v bool }

func (p *c42ConstPolicy) ShouldJoin() bool { return p.v }

// policy description: kind plus the constants conjoined
type c42PolicyDesc struct {
	kind   string // "unconditional" | "beta" | "conj"
	beta   bool   // conj contains the beta policy
	consts []bool // conj contains these constant policies
	// position of the beta policy among the conjuncts
	betaPos int
}

func (d c42PolicyDesc) String() string {
	if d.kind != "conj" {
		return d.kind
	}
	parts := []string{}
	for i, c := range d.consts {
		if d.beta && i == d.betaPos {
			parts = append(parts, "beta")
		}
		parts = append(parts, fmt.Sprint(c))
	}
	if d.beta && d.betaPos >= len(d.consts) {
		parts = append(parts, "beta")
	}
	return "conj(" + strings.Join(parts, "&") + ")"
}

func c42GenPolicy(t *rapid.T) c42PolicyDesc {
	switch rapid.IntRange(0, 5).Draw(t, "policyKind") {
	case 0:
		return c42PolicyDesc{kind: "unconditional"}
	case 1, 2:
		return c42PolicyDesc{kind: "beta", beta: true}
	default:
		n := rapid.IntRange(0, 2).Draw(t, "constPolicies")
		d := c42PolicyDesc{kind: "conj", beta: rapid.Bool().Draw(t, "conjHasBeta")}
		for i := 0; i < n; i++ {
			// mostly true so that the beta policy decides
			d.consts = append(d.consts, rapid.IntRange(0, 3).Draw(t, "constPolicy") != 0)
		}
		d.betaPos = rapid.IntRange(0, n).Draw(t, "betaPos")
		return d
	}
}

func c42BuildPolicy(d c42PolicyDesc, ch Chain) JoinPolicy {
	logger := &testutils.MockLogger{}
	switch d.kind {
	case "unconditional":
		return UnconditionalJoinPolicy
	case "beta":
		return NewBetaOperatorPolicy(ch, logger)
	}
	var ps []JoinPolicy
	for i, c := range d.consts {
		if d.beta && i == d.betaPos {
			ps = append(ps, NewBetaOperatorPolicy(ch, logger))
		}
		ps = append(ps, &c42ConstPolicy{c})
	}
	if d.beta && d.betaPos >= len(d.consts) {
		ps = append(ps, NewBetaOperatorPolicy(ch, logger))
	}
	return NewConjunctionPolicy(ps...)
}

// ---------------------------------------------------------------------------
// reference model, written from the property text as three boolean formulas.

func c42Knows(a c42Answer, want bool) bool { return !a.err && a.val == want }

func c42ModelPolicy(d c42PolicyDesc, s c42Step) bool {
	betaAllows := c42Knows(s.chaosnet, false) || (c42Knows(s.chaosnet, true) && c42Knows(s.beta, true))
	switch d.kind {
	case "unconditional":
		return true
	case "beta":
		return betaAllows
	}
	for _, c := range d.consts {
		if !c {
			return false
		}
	}
	return !d.beta || betaAllows
}

// expected transaction requests of one status check. The pool membership and
// the up-to-date flag are needed by every decision, so a failure of either
// query permits nothing.
func c42Model(d c42PolicyDesc, s c42Step) (join, update, restore bool) {
	statusKnown := !s.inPool.err && !s.upToDate.err
	outOfDate := statusKnown && !s.upToDate.val
	unlocked := c42Knows(s.locked, false)
	join = statusKnown && !s.inPool.val && outOfDate && unlocked && c42ModelPolicy(d, s)
	update = statusKnown && s.inPool.val && outOfDate && unlocked
	restore = statusKnown && s.inPool.val && c42Knows(s.eligible, false) && c42Knows(s.canRestore, true)
	return
}

func c42Expected(d c42PolicyDesc, s c42Step) []string {
	join, update, restore := c42Model(d, s)
	var out []string
	if join {
		out = append(out, "join")
	}
	if restore {
		out = append(out, "restore")
	}
	if update {
		out = append(out, "update")
	}
	sort.Strings(out)
	return out
}

// why a request was withheld in this step (labels for the evidence)
func c42Blockers(d c42PolicyDesc, s c42Step) []string {
	var out []string
	if s.inPool.err || s.upToDate.err {
		return []string{"blocked:status-query-error"}
	}
	if !s.upToDate.val {
		switch {
		case s.locked.err:
			out = append(out, "blocked:lock-query-error")
		case s.locked.val:
			out = append(out, "blocked:locked")
		case !s.inPool.val && !c42ModelPolicy(d, s):
			if d.beta && (s.chaosnet.err || (!s.chaosnet.err && s.chaosnet.val && s.beta.err)) {
				out = append(out, "blocked:policy-query-error")
			} else {
				out = append(out, "blocked:policy")
			}
		}
	}
	if s.inPool.val {
		switch {
		case s.eligible.err:
			out = append(out, "blocked:eligibility-query-error")
		case !s.eligible.val && s.canRestore.err:
			out = append(out, "blocked:can-restore-query-error")
		case !s.eligible.val && !s.canRestore.val:
			out = append(out, "blocked:cannot-restore-yet")
		}
	}
	return out
}

// ---------------------------------------------------------------------------
// history generator: pool/operator state persists between checks, flags flip
// between checks, successful transactions have their on-chain effect, every
// query may fail.

type c42World struct {
	inPool, upToDate, locked, eligible, canRestore, chaosnet, beta bool
}

func c42GenWorld(t *rapid.T) c42World {
	bits := rapid.IntRange(0, 127).Draw(t, "world")
	return c42World{bits&1 != 0, bits&2 != 0, bits&4 != 0, bits&8 != 0, bits&16 != 0, bits&32 != 0, bits&64 != 0}
}

func c42GenStep(t *rapid.T, w *c42World, first bool) c42Step {
	if !first {
		flips := rapid.IntRange(0, 127).Draw(t, "flips") & rapid.IntRange(0, 127).Draw(t, "flipMask")
		w.inPool = w.inPool != (flips&1 != 0)
		w.upToDate = w.upToDate != (flips&2 != 0)
		w.locked = w.locked != (flips&4 != 0)
		w.eligible = w.eligible != (flips&8 != 0)
		w.canRestore = w.canRestore != (flips&16 != 0)
		w.chaosnet = w.chaosnet != (flips&32 != 0)
		w.beta = w.beta != (flips&64 != 0)
	}
	// each query fails with probability ~1/10; at most a few per step
	errBits := 0
	if rapid.IntRange(0, 2).Draw(t, "anyQueryError") == 0 {
		errBits = rapid.IntRange(0, 127).Draw(t, "queryErrors") & rapid.IntRange(0, 127).Draw(t, "queryErrorMask")
	}
	txFail := 0
	if rapid.IntRange(0, 3).Draw(t, "anyTxFailure") == 0 {
		txFail = rapid.IntRange(0, 7).Draw(t, "txFailures")
	}
	a := func(v bool, bit int) c42Answer { return c42Answer{val: v, err: errBits&bit != 0} }
	return c42Step{
		inPool: a(w.inPool, 1), upToDate: a(w.upToDate, 2), locked: a(w.locked, 4), eligible: a(w.eligible, 8),
		canRestore: a(w.canRestore, 16), chaosnet: a(w.chaosnet, 32), beta: a(w.beta, 64),
		joinFails: txFail&1 != 0, updateFails: txFail&2 != 0, restoreFails: txFail&4 != 0,
	}
}

// effect of the requests of a step on the world (what the contracts would do)
func c42Apply(w *c42World, s c42Step, requests []string) {
	for _, r := range requests {
		switch {
		case r == "join" && !s.joinFails:
			w.inPool, w.upToDate = true, true
		case r == "update" && !s.updateFails:
			w.upToDate = true
		case r == "restore" && !s.restoreFails:
			w.eligible = true
		}
	}
}

func c42CheckStep(t *rapid.T, i int, d c42PolicyDesc, s c42Step, got []string) {
	g := append([]string{}, got...)
	sort.Strings(g)
	want := c42Expected(d, s)
	if fmt.Sprint(g) != fmt.Sprint(want) {
		t.Fatalf("check %d: policy %v, chain answers %v: transaction requests %v, permitted/required %v", i, d, s, got, want)
	}
}

// TestVerif_C42_StatusCheckHistory drives checkOperatorStatus over generated
// histories of chain answers and compares the transaction requests of every
// check with the model (both directions: nothing that is not permitted, and
// everything that is permitted and due).
func TestVerif_C42_StatusCheckHistory(t *testing.T) {
	st := verifkit.New("C42", "TestVerif_C42_StatusCheckHistory")
	defer st.Flush()
	rapid.Check(t, func(t *rapid.T) {
		d := c42GenPolicy(t)
		w := c42GenWorld(t)
		n := rapid.IntRange(1, 8).Draw(t, "checks")
		ch := c42NewChain(nil)
		policy := c42BuildPolicy(d, ch)
		var desc []string
		requested, blocked := map[string]bool{}, map[string]bool{}
		var labels []string
		for i := 0; i < n; i++ {
			s := c42GenStep(t, &w, i == 0)
			ch.mu.Lock()
			ch.script = append(ch.script, s)
			ch.requests = append(ch.requests, nil)
			ch.mu.Unlock()
			_ = checkOperatorStatus(&testutils.MockLogger{}, ch, policy)
			if ch.cur != i {
				t.Fatalf("check %d: the status check queried IsOperatorInPool %d times", i, ch.cur-i+1)
			}
			got := ch.requests[i]
			c42CheckStep(t, i, d, s, got)
			c42Apply(&w, s, got)
			desc = append(desc, fmt.Sprintf("[%v]->%v", s, got))
			for _, r := range got {
				requested[r] = true
				labels = append(labels, "request:"+r)
			}
			if len(got) == 0 {
				labels = append(labels, "request:none")
			}
			for _, b := range c42Blockers(d, s) {
				blocked[b] = true
				labels = append(labels, b)
			}
		}
		if len(ch.stray) != 0 {
			t.Fatalf("calls outside a scripted check: %v", ch.stray)
		}
		labels = append(labels, "policy:"+d.kind)
		// non-trivial: the history contains a request and a withheld request
		nt := len(requested) > 0 && len(blocked) > 0
		st.Case(nt, fmt.Sprintf("policy=%v %s", d, strings.Join(desc, " ")), c42Dedup(labels)...)
	})
}

func c42Dedup(in []string) []string {
	seen := map[string]bool{}
	var out []string
	for _, l := range in {
		if !seen[l] {
			seen[l] = true
			out = append(out, l)
		}
	}
	return out
}

// TestVerif_C42_AllAnswerCombinations enumerates every combination of the
// seven answers (false / true / error each: 3^7) for every policy shape.
func TestVerif_C42_AllAnswerCombinations(t *testing.T) {
	st := verifkit.New("C42", "TestVerif_C42_AllAnswerCombinations")
	defer st.Flush()
	policies := []c42PolicyDesc{
		{kind: "unconditional"},
		{kind: "beta", beta: true},
		{kind: "conj"},
		{kind: "conj", beta: true},
		{kind: "conj", beta: true, consts: []bool{true}, betaPos: 1},
		{kind: "conj", beta: true, consts: []bool{true, false}, betaPos: 0},
		{kind: "conj", consts: []bool{false}},
		{kind: "conj", consts: []bool{true, true}},
	}
	ans := func(k int) c42Answer { return c42Answer{val: k == 1, err: k == 2} }
	for _, d := range policies {
		for code := 0; code < 2187; code++ {
			c := code
			next := func() c42Answer { a := ans(c % 3); c /= 3; return a }
			s := c42Step{inPool: next(), upToDate: next(), locked: next(), eligible: next(), canRestore: next(), chaosnet: next(), beta: next()}
			// transaction failures rotate with the code
			s.joinFails, s.updateFails, s.restoreFails = code%2 == 1, code%5 == 1, code%7 == 1
			ch := c42NewChain([]c42Step{s})
			_ = checkOperatorStatus(&testutils.MockLogger{}, ch, c42BuildPolicy(d, ch))
			got := append([]string{}, ch.requests[0]...)
			sort.Strings(got)
			want := c42Expected(d, s)
			if fmt.Sprint(got) != fmt.Sprint(want) || len(ch.stray) != 0 || ch.cur != 0 {
				t.Fatalf("policy %v, chain answers %v: transaction requests %v (stray %v), permitted/required %v", d, s, ch.requests[0], ch.stray, want)
			}
			lab := "request:none"
			if len(got) > 0 {
				lab = "request:" + strings.Join(got, "+")
			}
			st.Case(len(got) > 0 || len(c42Blockers(d, s)) > 0, fmt.Sprintf("policy=%v %v -> %v", d, s, got), lab, "policy:"+d.kind)
		}
	}
}

// TestVerif_C42_MonitorPool runs the real monitoring loop (initial check plus
// ticker) over a scripted history; the i-th check of the loop sees step i.
func TestVerif_C42_MonitorPool(t *testing.T) {
	st := verifkit.New("C42", "TestVerif_C42_MonitorPool")
	defer st.Flush()
	rapid.Check(t, func(t *rapid.T) {
		d := c42GenPolicy(t)
		w := c42GenWorld(t)
		n := rapid.IntRange(1, 5).Draw(t, "checks")
		reg := rapid.IntRange(0, 7).Draw(t, "registration") // 0 unknown operator, 1 query error, else registered
		// the world evolves as if every permitted transaction is requested
		var script []c42Step
		for i := 0; i < n; i++ {
			s := c42GenStep(t, &w, i == 0)
			script = append(script, s)
			c42Apply(&w, s, c42Expected(d, s))
		}
		ch := c42NewChain(script)
		ch.registered, ch.registeredErr = reg != 0, reg == 1
		ctx, cancel := context.WithCancel(context.Background())
		defer cancel()
		err := MonitorPool(ctx, &testutils.MockLogger{}, ch, time.Millisecond, c42BuildPolicy(d, ch))
		if reg <= 1 {
			if err == nil {
				t.Fatalf("registration=%d: MonitorPool started monitoring an operator it could not resolve", reg)
			}
			cancel()
			ch.mu.Lock()
			defer ch.mu.Unlock()
			if ch.cur != -1 || len(ch.stray) != 0 {
				t.Fatalf("registration=%d: chain used although the operator is not registered: checks=%d stray=%v", reg, ch.cur+1, ch.stray)
			}
			st.Case(false, fmt.Sprintf("registration=%d", reg), fmt.Sprintf("registered:%d", reg))
			return
		}
		if err != nil {
			t.Fatalf("MonitorPool failed for a registered operator: %v", err)
		}
		select {
		case <-ch.exhausted:
		case <-time.After(60 * time.Second):
			cancel()
			fmt.Println("VERIF-INCONCLUSIVE: monitoring loop did not perform the scripted checks within 60s")
			t.Fatalf("VERIF-INCONCLUSIVE: monitoring loop too slow")
		}
		cancel()
		ch.mu.Lock()
		defer ch.mu.Unlock()
		var desc []string
		anyReq, anyBlock := false, false
		for i, s := range script {
			c42CheckStep(t, i, d, s, ch.requests[i])
			desc = append(desc, fmt.Sprintf("[%v]->%v", s, ch.requests[i]))
			anyReq = anyReq || len(ch.requests[i]) > 0
			anyBlock = anyBlock || len(c42Blockers(d, s)) > 0
		}
		for _, s := range ch.stray {
			if strings.HasPrefix(s, "tx:") {
				t.Fatalf("transaction request outside a scripted check: %v", ch.stray)
			}
		}
		st.Case(anyReq && anyBlock, fmt.Sprintf("policy=%v %s", d, strings.Join(desc, " ")), "registered:yes", fmt.Sprintf("checks:%d", n), "policy:"+d.kind)
	})
}
