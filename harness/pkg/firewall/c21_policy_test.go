//go:build go1.23

package firewall

import (
	"errors"
	"fmt"
	"math/big"
	"strings"
	"testing"
	"time"

	"github.com/btcsuite/btcd/btcec/v2"
	"github.com/keep-network/keep-common/pkg/cache"
	"github.com/keep-network/keep-core/internal/verifkit"
	"github.com/keep-network/keep-core/pkg/operator"
	"pgregory.net/rapid"
)

// answers an application gives about a peer
const (
	c21No = iota
	c21Yes
	c21Err
	// a failed check whose boolean is true (the Application contract does not
	// define the boolean of a failed check; e.g. "last known status" reported
	// together with the error). It is a FAILED check, not a recognition.
	c21ErrTrue
)

var c21AnswerNames = [...]string{"no", "yes", "err", "err+true"}

func c21Failed(answer int) bool { return answer == c21Err || answer == c21ErrTrue }

// c21App is a scripted firewall.Application: its answer for every peer is set
// by the harness before each validation; every consultation is logged.
type c21App struct {
	name    string
	answers map[string]int // peer key (hex) -> answer
	log     []string       // peer keys consulted since the last reset
	failure error
	// position of this application's first consultation in the current
	// validation (shared counter), -1 when not consulted
	seq   *int
	first int
}

func (a *c21App) IsRecognized(pk *operator.PublicKey) (bool, error) {
	key := pk.String()
	if len(a.log) == 0 && a.seq != nil {
		a.first = *a.seq
		*a.seq++
	}
	a.log = append(a.log, key)
	switch a.answers[key] {
	case c21Yes:
		return true, nil
	case c21Err:
		return false, a.failure
	case c21ErrTrue:
		return true, a.failure
	}
	return false, nil
}

// c21Peer builds the operator key k*G (deterministic, no crypto randomness).
// Every call returns a fresh pointer: the policy must identify peers by value.
func c21Peer(k int64) *operator.PublicKey {
	x, y := btcec.S256().ScalarBaseMult(big.NewInt(k).Bytes())
	return &operator.PublicKey{Curve: operator.Secp256k1, X: x, Y: y}
}

// recent answer the model remembers for a peer
const (
	c21None = iota
	c21Pos
	c21Neg
)

// TestVerif_C21_Policy drives one policy instance through a generated history
// of validations while the applications' answers change, and checks every
// verdict against the stated admission rule:
//
//	admitted  <=> allowlisted, or an application consulted now says yes,
//	              or (no consultation) a still-valid recent positive answer;
//	rejected  <=> not allowlisted and (consulted now: an error occurred or no
//	              application says yes) or (no consultation) a still-valid
//	              recent negative answer;
//	a verdict given without consulting the applications needs a recent answer
//	that came from a completed check (never from a failed one) and whose
//	caching period has not elapsed.
func TestVerif_C21_Policy(t *testing.T) {
	st := verifkit.New("C21", "TestVerif_C21_Policy")
	defer st.Flush()
	scalars := []int64{1, 2, 3, 5, 7, 11}
	rapid.Check(t, func(t *rapid.T) {
		// cache regimes: fresh = production period (never elapses during the
		// case), stale = negative period (elapsed at the next validation).
		regime := rapid.SampledFrom([]string{"fresh/fresh", "fresh/fresh", "stale/stale", "fresh/stale", "stale/fresh"}).Draw(t, "regime pos/neg")
		posFresh := strings.HasPrefix(regime, "fresh/")
		negFresh := strings.HasSuffix(regime, "/fresh")

		nPeers := rapid.SampledFrom([]int{2, 2, 3, 3, 4, 6}).Draw(t, "peers")
		peers := scalars[:nPeers]
		peerKey := map[int64]string{}
		for _, k := range peers {
			peerKey[k] = c21Peer(k).String()
		}
		// allowlist: usually a small subset, sometimes empty
		var allowed []*operator.PublicKey
		allowedSet := map[int64]bool{}
		for _, k := range peers {
			if rapid.IntRange(0, 4).Draw(t, fmt.Sprintf("allow%d", k)) == 0 {
				allowed = append(allowed, c21Peer(k))
				allowedSet[k] = true
			}
		}
		nApps := rapid.IntRange(1, 3).Draw(t, "apps")
		if rapid.IntRange(0, 24).Draw(t, "noApps") == 13 {
			nApps = 0
		}
		apps := make([]*c21App, nApps)
		ifaces := make([]Application, nApps)
		for i := range apps {
			apps[i] = &c21App{
				name:    fmt.Sprintf("app%d", i),
				answers: map[string]int{},
				failure: fmt.Errorf("app%d: chain unreachable", i),
			}
			ifaces[i] = apps[i]
		}

		var allowList *AllowList
		if len(allowed) == 0 && rapid.Bool().Draw(t, "useEmptyAllowList") {
			allowList = EmptyAllowList
		} else {
			allowList = NewAllowList(allowed)
		}
		var policy interface {
			Validate(*operator.PublicKey) error
		}
		if posFresh && negFresh {
			policy = AnyApplicationPolicy(ifaces, allowList) // production constructor and periods
		} else {
			period := func(fresh bool, production time.Duration) time.Duration {
				if fresh {
					return production
				}
				return -time.Hour
			}
			policy = &anyApplicationPolicy{
				applications:        ifaces,
				allowList:           allowList,
				positiveResultCache: cache.NewTimeCache(period(posFresh, PositiveIsRecognizedCachePeriod)),
				negativeResultCache: cache.NewTimeCache(period(negFresh, NegativeIsRecognizedCachePeriod)),
			}
		}

		recent := map[int64]int{}        // model: last answer of a completed check
		erroredBefore := map[int64]int{} // peer -> answer vector hash at the failed check (for NT)
		var history []string
		ntErrThenChanged, sawReuse, sawAllow := false, false, false
		labels := map[string]bool{}

		steps := rapid.IntRange(1, 24).Draw(t, "steps")
		var lastPeer int64
		for s := 0; s < steps; s++ {
			// histories revisit the peer of the previous step often: what matters
			// is what happens to a peer after an earlier verdict about it
			k := lastPeer
			if s == 0 || rapid.IntRange(0, 9).Draw(t, "switchPeer") < 6 {
				k = rapid.SampledFrom(peers).Draw(t, "peer")
			}
			lastPeer = k
			key := peerKey[k]
			// change the applications' answers about this peer
			vec := make([]int, nApps)
			for i, a := range apps {
				switch rapid.IntRange(0, 6).Draw(t, "answer") {
				case 0, 5:
					a.answers[key] = c21No
				case 2, 6:
					a.answers[key] = c21Yes
				case 1:
					a.answers[key] = c21Err
				case 4:
					a.answers[key] = rapid.SampledFrom([]int{c21Err, c21ErrTrue}).Draw(t, "failedCheckBoolean")
				default: // keep the previous answer
				}
				vec[i] = a.answers[key]
				a.log = nil
			}
			// also disturb the answers about *other* peers: a verdict must never
			// depend on them
			if nApps > 0 && rapid.Bool().Draw(t, "disturbOthers") {
				other := rapid.SampledFrom(peers).Draw(t, "otherPeer")
				if other != k {
					apps[rapid.IntRange(0, nApps-1).Draw(t, "otherApp")].answers[peerKey[other]] = rapid.IntRange(0, 3).Draw(t, "otherAnswer")
				}
			}

			c21Seq := 0
			for _, a := range apps {
				a.seq, a.first = &c21Seq, -1
			}
			err := policy.Validate(c21Peer(k))

			// what was consulted
			var consulted []int
			consultedErr, consultedYes := false, false
			firstErr, firstYes := -1, -1
			for i, a := range apps {
				if len(a.log) == 0 {
					continue
				}
				if c21Failed(vec[i]) && (firstErr < 0 || a.first < firstErr) {
					firstErr = a.first
				}
				if vec[i] == c21Yes && (firstYes < 0 || a.first < firstYes) {
					firstYes = a.first
				}
			}
			for i, a := range apps {
				for _, who := range a.log {
					if who != key {
						t.Fatalf("step %d: validating peer %d consulted %s about another peer", s, k, a.name)
					}
				}
				if len(a.log) > 0 {
					consulted = append(consulted, i)
					switch vec[i] {
					case c21Err, c21ErrTrue:
						consultedErr = true
					case c21Yes:
						consultedYes = true
					}
				}
			}
			anyYes := false
			for _, v := range vec {
				if v == c21Yes {
					anyYes = true
				}
			}
			var vs []string
			for _, v := range vec {
				vs = append(vs, c21AnswerNames[v])
			}
			verdict := "admit"
			if err != nil {
				verdict = "reject"
				if !errors.Is(err, errNotRecognized) {
					verdict = "error"
				}
			}
			history = append(history, fmt.Sprintf("p%d%s[%s]->%s/%d", k, map[bool]string{true: "*", false: ""}[allowedSet[k]], strings.Join(vs, ","), verdict, len(consulted)))
			where := fmt.Sprintf("step %d (regime %s, history %s)", s, regime, strings.Join(history, " "))

			switch {
			case allowedSet[k]:
				sawAllow = true
				labels["verdict:allowlisted"] = true
				if err != nil {
					t.Fatalf("%s: allowlisted peer rejected: %v", where, err)
				}
				// whatever the policy does for an allowlisted peer, a completed
				// check is a legitimate recent answer; peers on the allowlist are
				// never judged by it, so the model need not track it.

			case len(consulted) == 0 && nApps > 0:
				// verdict without asking: only a recent answer of a completed
				// check, still inside its caching period, may be reused
				r := recent[k]
				valid := (r == c21Pos && posFresh) || (r == c21Neg && negFresh)
				if !valid {
					t.Fatalf("%s: verdict %q given without consulting any application although no recent answer is valid (model remembers %d, 1=positive 2=negative; an answer of a failed check or one whose period elapsed must not be reused)", where, verdict, r)
				}
				if r == c21Pos && err != nil {
					t.Fatalf("%s: recent positive answer but peer rejected without a new check: %v", where, err)
				}
				if r == c21Neg && err == nil {
					t.Fatalf("%s: recent negative answer but peer admitted without a new check", where)
				}
				sawReuse = true
				labels[fmt.Sprintf("verdict:reused-%s", map[int]string{c21Pos: "positive", c21Neg: "negative"}[r])] = true

			default:
				// a check was made now (or there are no applications at all)
				if err == nil {
					if !consultedYes {
						t.Fatalf("%s: peer admitted although no consulted application recognized it (consulted %v, error among them: %v)", where, consulted, consultedErr)
					}
				} else {
					if anyYes && !consultedErr {
						t.Fatalf("%s: peer rejected (%v) although an application recognizes it and no recognition check failed", where, err)
					}
					// an application had already recognized the peer when a
					// later consultation failed: "admitted iff at least one
					// application recognizes it" - the failed check of another
					// application must not take the admission away
					if firstYes >= 0 && (firstErr < 0 || firstYes < firstErr) {
						t.Fatalf("%s: peer rejected (%v) although an application consulted before any failing one recognized it", where, err)
					}
				}
				switch {
				case err == nil:
					recent[k] = c21Pos
					labels["verdict:admitted-by-app"] = true
				case consultedErr:
					// failed check: never admits (asserted above: err != nil), and
					// must not be remembered - the model keeps what it had
					labels["verdict:failed-check"] = true
					if errors.Is(err, errNotRecognized) {
						// still "not admitted"; the statement does not fix the error value
						labels["verdict:failed-check-as-not-recognized"] = true
					}
				default:
					recent[k] = c21Neg
					labels["verdict:rejected-by-apps"] = true
				}
				if h, ok := erroredBefore[k]; ok {
					if h != c21VecHash(vec) {
						ntErrThenChanged = true
					}
					delete(erroredBefore, k)
				}
				if consultedErr {
					erroredBefore[k] = c21VecHash(vec)
				}
			}
			// a peer validated without a check after a failed check keeps its
			// "errored before" mark until the next real check
		}
		var ls []string
		for l := range labels {
			ls = append(ls, l)
		}
		ls = append(ls, "regime:"+regime, fmt.Sprintf("apps:%d", nApps),
			fmt.Sprintf("error-then-changed:%v", ntErrThenChanged), fmt.Sprintf("reuse:%v", sawReuse), fmt.Sprintf("allowlisted-seen:%v", sawAllow))
		st.Case(ntErrThenChanged, fmt.Sprintf("%s apps=%d allow=%v | %s", regime, nApps, c21Keys(allowedSet), strings.Join(history, " ")), ls...)
	})
}

func c21VecHash(vec []int) int {
	h := 1
	for _, v := range vec {
		h = h*4 + v
	}
	return h
}

func c21Keys(m map[int64]bool) []int64 {
	var out []int64
	for _, k := range []int64{1, 2, 3, 5, 7, 11} {
		if m[k] {
			out = append(out, k)
		}
	}
	return out
}
