//go:build go1.23

package bitcoin

import (
	"bytes"
	"crypto/sha256"
	"encoding/binary"
	"encoding/hex"
	"fmt"
	"strings"
	"testing"

	"github.com/keep-network/keep-core/internal/verifkit"
	"pgregory.net/rapid"
)

// ---------------------------------------------------------------------------
// Simulated Bitcoin chain. Everything here (serialization, txids, Merkle
// trees, header hashes) is written independently of the package under test;
// the chain only hands the package's own types over the Chain interface.

func c31DoubleSha(b []byte) Hash {
	a := sha256.Sum256(b)
	return sha256.Sum256(a[:])
}

func c31VarInt(n int) []byte {
	if n <= 252 {
		return []byte{byte(n)}
	}
	b := []byte{0xfd, 0, 0}
	binary.LittleEndian.PutUint16(b[1:], uint16(n))
	return b
}

// c31TxNoWitness is the txid preimage: version | inputs | outputs | locktime.
func c31TxNoWitness(tx *Transaction) []byte {
	var out []byte
	out = binary.LittleEndian.AppendUint32(out, uint32(tx.Version))
	out = append(out, c31VarInt(len(tx.Inputs))...)
	for _, in := range tx.Inputs {
		out = append(out, in.Outpoint.TransactionHash[:]...)
		out = binary.LittleEndian.AppendUint32(out, in.Outpoint.OutputIndex)
		out = append(out, c31VarInt(len(in.SignatureScript))...)
		out = append(out, in.SignatureScript...)
		out = binary.LittleEndian.AppendUint32(out, in.Sequence)
	}
	out = append(out, c31VarInt(len(tx.Outputs))...)
	for _, o := range tx.Outputs {
		out = binary.LittleEndian.AppendUint64(out, uint64(o.Value))
		out = append(out, c31VarInt(len(o.PublicKeyScript))...)
		out = append(out, o.PublicKeyScript...)
	}
	out = binary.LittleEndian.AppendUint32(out, tx.Locktime)
	return out
}

func c31Reverse(b []byte) []byte {
	out := make([]byte, len(b))
	for i := range b {
		out[len(b)-1-i] = b[i]
	}
	return out
}

type c31Block struct {
	height uint
	header *BlockHeader
	raw    [80]byte // the header as the Bitcoin network serializes it
	txs    []*Transaction
	txids  []Hash
	levels [][]Hash // Merkle tree, level 0 = txids, last level = root
}

// c31BuildTree builds the Bitcoin Merkle tree (an odd level pairs its last
// element with itself).
func c31BuildTree(txids []Hash) [][]Hash {
	levels := [][]Hash{append([]Hash{}, txids...)}
	for len(levels[len(levels)-1]) > 1 {
		cur := levels[len(levels)-1]
		var next []Hash
		for i := 0; i < len(cur); i += 2 {
			left := cur[i]
			right := left
			if i+1 < len(cur) {
				right = cur[i+1]
			}
			next = append(next, c31DoubleSha(append(append([]byte{}, left[:]...), right[:]...)))
		}
		levels = append(levels, next)
	}
	return levels
}

// branch of the leaf at pos, deepest pairing first, as internal-order hashes.
func (b *c31Block) branch(pos int) []Hash {
	var out []Hash
	for _, level := range b.levels[:len(b.levels)-1] {
		sib := pos ^ 1
		if sib >= len(level) {
			sib = pos // duplicated last element
		}
		out = append(out, level[sib])
		pos >>= 1
	}
	return out
}

type c31Growth struct {
	afterQuery int // 1-based index of the chain query after which blocks appear
	blocks     int
}

type c31Chain struct {
	Chain // the methods AssembleSpvProof has no business calling stay nil

	blocks  []*c31Block // all blocks that will ever exist, lowest first
	visible int         // number of blocks mined so far
	mempool []*Transaction
	memIDs  []Hash

	queries int
	plan    []c31Growth
	log     []string
	// fault injection: the nth query of one kind fails (and, when persistent,
	// every later query of that kind too), everything else is answered
	faultKind       string
	faultNth        int
	faultPersistent bool
	kindCount       map[string]int
	faulted         bool
	// what the chain looked like when the single queries were answered
	grewBetweenConfirmationsAndHeight bool
	sawConfirmations, sawHeight       bool
	growthSinceConfirmations          int
}

func (c *c31Chain) tip() *c31Block { return c.blocks[c.visible-1] }

func (c *c31Chain) answered(what string) {
	c.queries++
	c.log = append(c.log, what)
	for _, g := range c.plan {
		if g.afterQuery == c.queries {
			n := min(g.blocks, len(c.blocks)-c.visible)
			c.visible += n
			if n > 0 && c.sawConfirmations && !c.sawHeight {
				c.grewBetweenConfirmationsAndHeight = true
			}
			if c.sawConfirmations {
				c.growthSinceConfirmations += n
			}
		}
	}
}

// failNow says whether the query of the given kind that is being answered
// must fail (request timed out after retries, server without the data, ...).
func (c *c31Chain) failNow(kind string) bool {
	if c.kindCount == nil {
		c.kindCount = map[string]int{}
	}
	c.kindCount[kind]++
	if kind != c.faultKind {
		return false
	}
	n := c.kindCount[kind]
	if n == c.faultNth || (c.faultPersistent && n > c.faultNth) {
		c.faulted = true
		return true
	}
	return false
}

func (c *c31Chain) find(h Hash) (*c31Block, int) {
	for _, b := range c.blocks[:c.visible] {
		for i, id := range b.txids {
			if id == h {
				return b, i
			}
		}
	}
	return nil, -1
}

func (c *c31Chain) blockAt(height uint) *c31Block {
	base := c.blocks[0].height
	if height < base || height >= base+uint(c.visible) {
		return nil
	}
	return c.blocks[height-base]
}

func (c *c31Chain) GetTransaction(h Hash) (*Transaction, error) {
	defer c.answered("tx")
	if c.failNow("tx") {
		return nil, fmt.Errorf("request timed out (tx query %d)", c.kindCount["tx"])
	}
	if b, i := c.find(h); b != nil {
		return b.txs[i], nil
	}
	for i, id := range c.memIDs {
		if id == h {
			return c.mempool[i], nil
		}
	}
	return nil, fmt.Errorf("no such transaction")
}

func (c *c31Chain) GetTransactionConfirmations(h Hash) (uint, error) {
	defer c.answered("confirmations")
	if c.failNow("confirmations") {
		return 0, fmt.Errorf("request timed out (confirmations query %d)", c.kindCount["confirmations"])
	}
	c.sawConfirmations = true
	if b, _ := c.find(h); b != nil {
		return c.tip().height - b.height + 1, nil
	}
	for _, id := range c.memIDs {
		if id == h {
			return 0, nil
		}
	}
	return 0, fmt.Errorf("no such transaction")
}

func (c *c31Chain) GetLatestBlockHeight() (uint, error) {
	defer c.answered("height")
	if c.failNow("height") {
		return 0, fmt.Errorf("request timed out (height query %d)", c.kindCount["height"])
	}
	c.sawHeight = true
	return c.tip().height, nil
}

func (c *c31Chain) GetBlockHeader(height uint) (*BlockHeader, error) {
	defer c.answered("header")
	if c.failNow("header") {
		return nil, fmt.Errorf("request timed out (header query %d)", c.kindCount["header"])
	}
	b := c.blockAt(height)
	if b == nil {
		return nil, fmt.Errorf("no block at height %d", height)
	}
	cp := *b.header
	return &cp, nil
}

// As ElectrumX/Fulcrum/electrs do: the request fails unless the block at the
// given height contains the transaction.
func (c *c31Chain) GetTransactionMerkleProof(h Hash, height uint) (*TransactionMerkleProof, error) {
	defer c.answered("merkle")
	if c.failNow("merkle") {
		return nil, fmt.Errorf("request timed out (merkle query %d)", c.kindCount["merkle"])
	}
	b := c.blockAt(height)
	if b == nil {
		return nil, fmt.Errorf("no block at height %d", height)
	}
	pos := -1
	for i, id := range b.txids {
		if id == h {
			pos = i
		}
	}
	if pos < 0 {
		return nil, fmt.Errorf("tx not in block at height %d", height)
	}
	var nodes []string
	for _, n := range b.branch(pos) {
		nodes = append(nodes, hex.EncodeToString(c31Reverse(n[:]))) // servers answer in the RPC byte order
	}
	return &TransactionMerkleProof{BlockHeight: height, MerkleNodes: nodes, Position: uint(pos)}, nil
}

func (c *c31Chain) GetCoinbaseTxHash(height uint) (Hash, error) {
	defer c.answered("coinbase")
	if c.failNow("coinbase") {
		return Hash{}, fmt.Errorf("request timed out (coinbase query %d)", c.kindCount["coinbase"])
	}
	b := c.blockAt(height)
	if b == nil {
		return Hash{}, fmt.Errorf("no block at height %d", height)
	}
	return b.txids[0], nil
}

// ---------------------------------------------------------------------------
// Generators.

// c31Stream is a deterministic byte stream derived from one rapid-drawn seed:
// transaction contents do not matter to the property (only the structure of
// the chain does), so they are expanded from the seed instead of being drawn
// byte by byte.
type c31Stream struct {
	seed    []byte
	counter uint64
	buf     []byte
}

func (s *c31Stream) bytes(n int) []byte {
	for len(s.buf) < n {
		var ctr [8]byte
		binary.LittleEndian.PutUint64(ctr[:], s.counter)
		s.counter++
		h := sha256.Sum256(append(append([]byte{}, s.seed...), ctr[:]...))
		s.buf = append(s.buf, h[:]...)
	}
	out := append([]byte{}, s.buf[:n]...)
	s.buf = s.buf[n:]
	return out
}

func (s *c31Stream) intn(n int) int { return int(binary.LittleEndian.Uint32(s.bytes(4)) % uint32(n)) }

func (s *c31Stream) script() []byte {
	return s.bytes([]int{22, 25, 23, 34, 0, 1, 40}[s.intn(7)])
}

func c31GenTx(s *c31Stream, serial uint32, coinbase bool, height uint) *Transaction {
	tx := &Transaction{Version: int32(1 + s.intn(2))}
	witness := s.intn(3) == 2
	if coinbase {
		hb := make([]byte, 4)
		binary.LittleEndian.PutUint32(hb, uint32(height))
		in := &TransactionInput{
			Outpoint:        &TransactionOutpoint{OutputIndex: 0xffffffff},
			SignatureScript: append([]byte{3}, append(hb[:3], s.script()...)...),
			Sequence:        0xffffffff,
		}
		if witness {
			in.Witness = [][]byte{make([]byte, 32)} // witness reserved value
		}
		tx.Inputs = []*TransactionInput{in}
	} else {
		nIn := 1 + s.intn(3)
		for i := 0; i < nIn; i++ {
			var prev Hash
			copy(prev[:], s.bytes(32))
			in := &TransactionInput{
				Outpoint: &TransactionOutpoint{TransactionHash: prev, OutputIndex: uint32(s.intn(6))},
				Sequence: []uint32{0xffffffff, 0xfffffffd, 0}[s.intn(3)],
			}
			if witness {
				in.Witness = [][]byte{s.script(), s.script()}
			} else {
				in.SignatureScript = s.script()
			}
			tx.Inputs = append(tx.Inputs, in)
		}
	}
	nOut := 1 + s.intn(3)
	for i := 0; i < nOut; i++ {
		tx.Outputs = append(tx.Outputs, &TransactionOutput{
			Value:           int64(binary.LittleEndian.Uint64(s.bytes(8)) % 2100000000000000),
			PublicKeyScript: Script(s.script()),
		})
	}
	// the serial number makes every generated transaction unique
	tx.Locktime = serial
	return tx
}

func c31GenChain(t *rapid.T) *c31Chain {
	// tree shapes: single transaction, odd counts (duplicate-last rule) on
	// several levels, powers of two and their neighbours
	txCount := rapid.OneOf(
		rapid.SampledFrom([]int{1, 2, 3, 5, 6, 7, 9, 11, 13, 16, 17}),
		rapid.IntRange(1, 17),
	)
	initial := rapid.IntRange(3, 40).Draw(t, "blocks")
	spare := 10 // blocks that may be mined during the assembly
	base := uint(rapid.OneOf(
		rapid.SampledFrom([]int{0, 1, 2015, 2016, 800000}),
		rapid.IntRange(0, 900000),
	).Draw(t, "baseHeight"))
	c := &c31Chain{visible: initial}
	stream := &c31Stream{seed: rapid.SliceOfN(rapid.Byte(), 8, 8).Draw(t, "contentSeed")}
	var prev Hash
	copy(prev[:], stream.bytes(32))
	serial := uint32(1)
	for i := 0; i < initial+spare; i++ {
		b := &c31Block{height: base + uint(i)}
		n := txCount.Draw(t, "txCount")
		for k := 0; k < n; k++ {
			tx := c31GenTx(stream, serial, k == 0, b.height)
			serial++
			b.txs = append(b.txs, tx)
			b.txids = append(b.txids, c31DoubleSha(c31TxNoWitness(tx)))
		}
		b.levels = c31BuildTree(b.txids)
		b.header = &BlockHeader{
			Version:                 0x20000000,
			PreviousBlockHeaderHash: prev,
			MerkleRootHash:          b.levels[len(b.levels)-1][0],
			Time:                    1600000000 + uint32(i)*600,
			Bits:                    0x1d00ffff,
			Nonce:                   binary.LittleEndian.Uint32(stream.bytes(4)),
		}
		binary.LittleEndian.PutUint32(b.raw[0:], uint32(b.header.Version))
		copy(b.raw[4:36], prev[:])
		copy(b.raw[36:68], b.header.MerkleRootHash[:])
		binary.LittleEndian.PutUint32(b.raw[68:], b.header.Time)
		binary.LittleEndian.PutUint32(b.raw[72:], b.header.Bits)
		binary.LittleEndian.PutUint32(b.raw[76:], b.header.Nonce)
		prev = c31DoubleSha(b.raw[:])
		c.blocks = append(c.blocks, b)
	}
	// one unconfirmed transaction
	mem := c31GenTx(stream, serial, false, 0)
	c.mempool = []*Transaction{mem}
	c.memIDs = []Hash{c31DoubleSha(c31TxNoWitness(mem))}
	return c
}

// ---------------------------------------------------------------------------
// Independent verifier, written from the rules the Bridge applies to a
// submitted proof (BitcoinTx.validateProof; proof of work is not simulated).

func c31Fold(leaf Hash, index uint, proof []byte) (Hash, error) {
	if len(proof)%32 != 0 {
		return Hash{}, fmt.Errorf("proof length %d is not a multiple of 32", len(proof))
	}
	cur := leaf
	for off := 0; off < len(proof); off += 32 {
		node := proof[off : off+32]
		if index&1 == 1 {
			cur = c31DoubleSha(append(append([]byte{}, node...), cur[:]...))
		} else {
			cur = c31DoubleSha(append(append([]byte{}, cur[:]...), node...))
		}
		index >>= 1
	}
	if index != 0 {
		return Hash{}, fmt.Errorf("position does not fit a tree of depth %d", len(proof)/32)
	}
	return cur, nil
}

func c31Verify(requested Hash, required uint, tx *Transaction, proof *SpvProof, block *c31Block, truePos int, chain *c31Chain) error {
	if tx == nil || proof == nil {
		return fmt.Errorf("nil transaction or proof without an error")
	}
	txid := c31DoubleSha(c31TxNoWitness(tx))
	if txid != requested {
		return fmt.Errorf("returned transaction has id %x, requested %x", txid, requested)
	}
	// headers: required x 80 bytes, linked, starting at the transaction's block
	if uint(len(proof.BitcoinHeaders)) != required*80 {
		return fmt.Errorf("headers are %d bytes, required confirmations %d need %d bytes", len(proof.BitcoinHeaders), required, required*80)
	}
	if !bytes.Equal(proof.BitcoinHeaders[:80], block.raw[:]) {
		return fmt.Errorf("first header is not the header of the transaction's block (height %d)", block.height)
	}
	for i := 1; i < int(required); i++ {
		prevHash := c31DoubleSha(proof.BitcoinHeaders[(i-1)*80 : i*80])
		if !bytes.Equal(proof.BitcoinHeaders[i*80+4:i*80+36], prevHash[:]) {
			return fmt.Errorf("header %d does not link to header %d", i, i-1)
		}
		// and it is a header of the simulated chain, not an invented one
		real := chain.blocks[int(block.height-chain.blocks[0].height)+i]
		if !bytes.Equal(proof.BitcoinHeaders[i*80:(i+1)*80], real.raw[:]) {
			return fmt.Errorf("header %d is not the chain's header at height %d", i, real.height)
		}
	}
	var root Hash
	copy(root[:], proof.BitcoinHeaders[36:68])
	// transaction inclusion at the stated position
	if proof.TxIndexInBlock != uint(truePos) {
		return fmt.Errorf("stated position %d, the transaction is at %d", proof.TxIndexInBlock, truePos)
	}
	got, err := c31Fold(txid, proof.TxIndexInBlock, proof.MerkleProof)
	if err != nil {
		return fmt.Errorf("merkle proof: %v", err)
	}
	if got != root {
		return fmt.Errorf("merkle proof folds to %x, the first header commits to %x", got, root)
	}
	// coinbase
	coinbaseID := Hash(sha256.Sum256(proof.CoinbasePreimage[:]))
	if coinbaseID != block.txids[0] {
		return fmt.Errorf("sha256(coinbase preimage) = %x, the block's coinbase is %x", coinbaseID, block.txids[0])
	}
	if len(proof.CoinbaseProof) != len(proof.MerkleProof) {
		return fmt.Errorf("coinbase proof has %d bytes, transaction proof %d (not on the same tree level)", len(proof.CoinbaseProof), len(proof.MerkleProof))
	}
	got, err = c31Fold(coinbaseID, 0, proof.CoinbaseProof)
	if err != nil {
		return fmt.Errorf("coinbase proof: %v", err)
	}
	if got != root {
		return fmt.Errorf("coinbase proof folds to %x, the first header commits to %x", got, root)
	}
	return nil
}

// ---------------------------------------------------------------------------

func TestVerif_C31_AssembledProofVerifies(t *testing.T) {
	st := verifkit.New("C31", "TestVerif_C31_AssembledProofVerifies")
	defer st.Flush()
	verified, staticFailures := 0, 0
	defer func() {
		// The property allows the assembly to fail, so a run in which no proof
		// was ever returned says nothing about it: report that as inconclusive
		// (never as a violation) instead of passing vacuously.
		if !t.Failed() && verified == 0 {
			fmt.Printf("VERIF-INCONCLUSIVE: AssembleSpvProof never returned a proof (%d failures on chains that did not grow and had enough confirmations); the check is vacuous\n", staticFailures)
			t.Fail()
		}
	}()
	rapid.Check(t, func(t *rapid.T) {
		chain := c31GenChain(t)

		// target: a confirmed transaction (rarely the unconfirmed one)
		var target Hash
		var block *c31Block
		pos := -1
		unconfirmed := rapid.IntRange(0, 30).Draw(t, "unconfirmed") == 30
		if unconfirmed {
			target = chain.memIDs[0]
		} else {
			// biased to recent blocks (few confirmations) and to the edges of
			// the block (coinbase itself, last - possibly duplicated - leaf)
			depth := rapid.OneOf(rapid.IntRange(0, min(8, chain.visible-1)), rapid.IntRange(0, chain.visible-1)).Draw(t, "depth")
			block = chain.blocks[chain.visible-1-depth]
			n := len(block.txids)
			pos = rapid.OneOf(rapid.SampledFrom([]int{n - 1, 0, n / 2}), rapid.IntRange(0, n-1)).Draw(t, "position")
			target = block.txids[pos]
		}
		confirmations := uint(0)
		if block != nil {
			confirmations = chain.tip().height - block.height + 1
		}
		// required confirmations around what the transaction has
		requiredDrawn := rapid.OneOf(
			rapid.SampledFrom([]int{int(confirmations), 1, int(confirmations) - 1, 6, int(confirmations) + 1}),
			rapid.IntRange(1, max(1, int(confirmations))),
			rapid.IntRange(1, max(1, int(confirmations))),
		).Draw(t, "required")
		required := uint(max(1, requiredDrawn))

		// growth plan: blocks mined after the j-th answer of the chain
		nGrow := rapid.SampledFrom([]int{1, 0, 2, 3}).Draw(t, "growthEvents")
		for i := 0; i < nGrow; i++ {
			j := rapid.OneOf(
				rapid.SampledFrom([]int{1, 2}), // between the confirmations and the height query
				rapid.IntRange(3, 8+int(required)),
			).Draw(t, "afterQuery")
			chain.plan = append(chain.plan, c31Growth{afterQuery: j, blocks: rapid.IntRange(1, 3).Draw(t, "minedBlocks")})
		}

		// fault plan: in a third of the cases one query fails while all others
		// are answered (biased to one of the required header requests)
		if rapid.IntRange(0, 2).Draw(t, "withFault") == 2 {
			chain.faultKind = rapid.SampledFrom([]string{"header", "header", "header", "merkle", "tx", "coinbase", "confirmations", "height"}).Draw(t, "faultKind")
			switch chain.faultKind {
			case "header":
				chain.faultNth = rapid.OneOf(rapid.SampledFrom([]int{int(required), 1}), rapid.IntRange(1, int(required))).Draw(t, "faultNth")
			case "merkle", "tx":
				chain.faultNth = rapid.IntRange(1, 2).Draw(t, "faultNth")
			default:
				chain.faultNth = 1
			}
			chain.faultPersistent = rapid.Bool().Draw(t, "faultPersistent")
		}

		tx, proof, err := AssembleSpvProof(target, required, chain)

		outcome := "error"
		if err == nil {
			outcome = "proof"
			if unconfirmed {
				t.Fatalf("a proof was assembled for an unconfirmed transaction (required %d)", required)
			}
			if verr := c31Verify(target, required, tx, proof, block, pos, chain); verr != nil {
				t.Fatalf("assembled proof is rejected by the verifier: %v\n tx block height %d (position %d of %d), chain %d..%d at start, required %d, confirmations at start %d, growth plan %v, fault %s#%d (persistent %v, hit %v), queries %s",
					verr, block.height, pos, len(block.txids), chain.blocks[0].height, chain.blocks[0].height+uint(len(chain.blocks)-10-1), required, confirmations, chain.plan,
					chain.faultKind, chain.faultNth, chain.faultPersistent, chain.faulted, strings.Join(chain.log, ","))
			}
		}
		early := chain.grewBetweenConfirmationsAndHeight
		grew := chain.growthSinceConfirmations > 0
		if err == nil {
			verified++
		} else if !grew && !unconfirmed && confirmations >= required && !chain.faulted {
			staticFailures++
		}
		fault := "fault:none"
		if chain.faultKind != "" {
			fault = "fault:" + chain.faultKind + "-planned-not-reached"
			if chain.faulted {
				fault = "fault:" + chain.faultKind
				if err == nil {
					// a failed query may never be papered over
					fault += "/proof"
				}
			}
		}
		growth := "growth:none"
		switch {
		case early:
			growth = "growth:between-confirmations-and-height"
		case grew:
			growth = "growth:later"
		}
		enough := "confirmations:enough"
		if confirmations < required {
			enough = "confirmations:short"
		}
		shape := "tx:unconfirmed"
		if block != nil {
			n := len(block.txids)
			switch {
			case n == 1:
				shape = "tree:single"
			case pos == n-1 && n%2 == 1:
				shape = "tree:duplicated-last-leaf"
			case pos == 0:
				shape = "tree:coinbase"
			default:
				shape = "tree:inner"
			}
		}
		desc := fmt.Sprintf("base=%d blocks=%d target=%s req=%d conf=%d plan=%v -> %s", chain.blocks[0].height, len(chain.blocks)-10,
			func() string {
				if block == nil {
					return "mempool"
				}
				return fmt.Sprintf("h%d[%d/%d]", block.height, pos, len(block.txids))
			}(), required, confirmations, chain.plan, outcome)
		if chain.faultKind != "" {
			desc += fmt.Sprintf(" fault=%s#%d/%v", chain.faultKind, chain.faultNth, chain.faultPersistent)
		}
		st.Case(early, desc, growth, enough, shape, fault, "outcome:"+outcome, growth+"/"+enough+"/"+outcome)
	})
}

// ---------------------------------------------------------------------------
// Batches: several proofs are assembled in one process - one after another,
// as the maintainer does, or from concurrent goroutines - and every returned
// proof is kept. All proofs are verified only after ALL assemblies finished:
// a proof must not change or stop verifying because another one was built.

type c31Job struct {
	chain       *c31Chain
	sharedChain bool
	target      Hash
	block       *c31Block
	pos         int
	required    uint

	tx    *Transaction
	proof *SpvProof
	err   error
	// bytes of the result right after its assembly returned
	snapHeaders, snapMerkle, snapCoinbaseProof, snapTx []byte
	snapPreimage                                       [32]byte
	snapIndex                                          uint
}

func (j *c31Job) run() {
	j.tx, j.proof, j.err = AssembleSpvProof(j.target, j.required, j.chain)
	if j.err == nil && j.tx != nil && j.proof != nil {
		j.snapHeaders = append([]byte{}, j.proof.BitcoinHeaders...)
		j.snapMerkle = append([]byte{}, j.proof.MerkleProof...)
		j.snapCoinbaseProof = append([]byte{}, j.proof.CoinbaseProof...)
		j.snapPreimage = j.proof.CoinbasePreimage
		j.snapIndex = j.proof.TxIndexInBlock
		j.snapTx = c31TxNoWitness(j.tx)
	}
}

func c31GenJob(t *rapid.T, previous []*c31Job, allowShared bool) *c31Job {
	j := &c31Job{}
	if allowShared && len(previous) > 0 && rapid.IntRange(0, 2).Draw(t, "sameChain") == 0 {
		// another transaction of a chain already used by this batch
		j.chain = previous[rapid.IntRange(0, len(previous)-1).Draw(t, "chainOf")].chain
		j.sharedChain = true
	} else {
		j.chain = c31GenChain(t)
		// mostly quiet chains (the batch is about the proofs that ARE returned);
		// growth mostly after the height query, rarely a failing query
		if rapid.IntRange(0, 2).Draw(t, "grows") == 0 {
			after := rapid.OneOf(rapid.IntRange(3, 12), rapid.IntRange(1, 2)).Draw(t, "afterQuery")
			j.chain.plan = append(j.chain.plan, c31Growth{afterQuery: after, blocks: rapid.IntRange(1, 3).Draw(t, "minedBlocks")})
		}
		if rapid.IntRange(0, 7).Draw(t, "withFault") == 7 {
			j.chain.faultKind = rapid.SampledFrom([]string{"header", "merkle", "coinbase", "tx"}).Draw(t, "faultKind")
			j.chain.faultNth = rapid.IntRange(1, 2).Draw(t, "faultNth")
		}
	}
	c := j.chain
	depth := rapid.OneOf(rapid.IntRange(0, min(8, c.visible-1)), rapid.IntRange(0, c.visible-1)).Draw(t, "depth")
	j.block = c.blocks[c.visible-1-depth]
	n := len(j.block.txids)
	j.pos = rapid.OneOf(rapid.SampledFrom([]int{n - 1, 0, n / 2}), rapid.IntRange(0, n-1)).Draw(t, "position")
	j.target = j.block.txids[j.pos]
	confirmations := int(c.tip().height - j.block.height + 1)
	// different lengths of the headers chain within one batch, mostly satisfiable
	j.required = uint(rapid.OneOf(
		rapid.IntRange(1, confirmations),
		rapid.SampledFrom([]int{confirmations, 1, min(6, confirmations), confirmations + 1}),
	).Draw(t, "required"))
	return j
}

func TestVerif_C31_BatchedProofsStayValid(t *testing.T) {
	st := verifkit.New("C31", "TestVerif_C31_BatchedProofsStayValid")
	defer st.Flush()
	rapid.Check(t, func(t *rapid.T) {
		mode := rapid.SampledFrom([]string{"sequential", "concurrent", "sequential"}).Draw(t, "mode")
		nJobs := rapid.IntRange(2, 4).Draw(t, "assemblies")
		var jobs []*c31Job
		for i := 0; i < nJobs; i++ {
			// a chain double is driven by one assembly at a time: chains are
			// shared between the jobs of a batch only in the sequential mode
			jobs = append(jobs, c31GenJob(t, jobs, mode == "sequential"))
		}
		if mode == "sequential" {
			for _, j := range jobs {
				j.run()
			}
		} else {
			start := make(chan struct{})
			done := make(chan struct{}, len(jobs))
			for _, j := range jobs {
				go func(j *c31Job) {
					<-start
					j.run()
					done <- struct{}{}
				}(j)
			}
			close(start)
			for range jobs {
				<-done
			}
		}

		// only now look at the results
		proofs := 0
		var parts []string
		for i, j := range jobs {
			what := fmt.Sprintf("assembly %d of %d (%s; block height %d, position %d of %d, required %d)", i+1, len(jobs), mode, j.block.height, j.pos, len(j.block.txids), j.required)
			if j.err != nil {
				parts = append(parts, fmt.Sprintf("h%d[%d/%d]r%d:error", j.block.height, j.pos, len(j.block.txids), j.required))
				continue
			}
			proofs++
			parts = append(parts, fmt.Sprintf("h%d[%d/%d]r%d:proof", j.block.height, j.pos, len(j.block.txids), j.required))
			if j.tx == nil || j.proof == nil {
				t.Fatalf("%s: neither an error nor a transaction and a proof", what)
			}
			switch {
			case !bytes.Equal(j.proof.BitcoinHeaders, j.snapHeaders):
				t.Fatalf("%s: the headers of the returned proof changed after the assembly returned (another assembly ran in between)\n at return %x\n now       %x", what, j.snapHeaders, j.proof.BitcoinHeaders)
			case !bytes.Equal(j.proof.MerkleProof, j.snapMerkle):
				t.Fatalf("%s: the Merkle proof changed after the assembly returned", what)
			case !bytes.Equal(j.proof.CoinbaseProof, j.snapCoinbaseProof):
				t.Fatalf("%s: the coinbase proof changed after the assembly returned", what)
			case j.proof.CoinbasePreimage != j.snapPreimage || j.proof.TxIndexInBlock != j.snapIndex:
				t.Fatalf("%s: coinbase preimage / position changed after the assembly returned", what)
			case !bytes.Equal(c31TxNoWitness(j.tx), j.snapTx):
				t.Fatalf("%s: the returned transaction changed after the assembly returned", what)
			}
			if verr := c31Verify(j.target, j.required, j.tx, j.proof, j.block, j.pos, j.chain); verr != nil {
				t.Fatalf("%s: after all assemblies of the batch finished the proof is rejected by the verifier: %v", what, verr)
			}
		}
		shared := false
		for _, j := range jobs {
			shared = shared || j.sharedChain
		}
		st.Case(proofs >= 2, fmt.Sprintf("%s %s", mode, strings.Join(parts, " ")),
			"mode:"+mode, fmt.Sprintf("assemblies:%d", len(jobs)), fmt.Sprintf("proofs:%d", proofs), fmt.Sprintf("shared-chain:%v", shared))
	})
}
