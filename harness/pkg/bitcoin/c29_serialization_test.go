//go:build go1.23

package bitcoin

import (
	"bytes"
	"crypto/sha256"
	"encoding/binary"
	"encoding/hex"
	"fmt"
	"strings"
	"testing"

	"github.com/keep-network/keep-core/internal/verifkit"
	"pgregory.net/rapid"
)

// ---------------------------------------------------------------------------
// Reference model: the Bitcoin wire format written down independently of
// btcd/wire and of the package under test.

func c29CompactSize(n uint64) []byte {
	switch {
	case n <= 252:
		return []byte{byte(n)}
	case n <= 0xffff:
		b := []byte{0xfd, 0, 0}
		binary.LittleEndian.PutUint16(b[1:], uint16(n))
		return b
	case n <= 0xffffffff:
		b := []byte{0xfe, 0, 0, 0, 0}
		binary.LittleEndian.PutUint32(b[1:], uint32(n))
		return b
	default:
		b := []byte{0xff, 0, 0, 0, 0, 0, 0, 0, 0}
		binary.LittleEndian.PutUint64(b[1:], n)
		return b
	}
}

func c29LE32(v uint32) []byte {
	b := make([]byte, 4)
	binary.LittleEndian.PutUint32(b, v)
	return b
}

func c29LE64(v uint64) []byte {
	b := make([]byte, 8)
	binary.LittleEndian.PutUint64(b, v)
	return b
}

func c29ModelInputs(tx *Transaction) []byte {
	var out []byte
	out = append(out, c29CompactSize(uint64(len(tx.Inputs)))...)
	for _, in := range tx.Inputs {
		out = append(out, in.Outpoint.TransactionHash[:]...)
		out = append(out, c29LE32(in.Outpoint.OutputIndex)...)
		out = append(out, c29CompactSize(uint64(len(in.SignatureScript)))...)
		out = append(out, in.SignatureScript...)
		out = append(out, c29LE32(in.Sequence)...)
	}
	return out
}

func c29ModelOutputs(tx *Transaction) []byte {
	var out []byte
	out = append(out, c29CompactSize(uint64(len(tx.Outputs)))...)
	for _, o := range tx.Outputs {
		out = append(out, c29LE64(uint64(o.Value))...)
		out = append(out, c29CompactSize(uint64(len(o.PublicKeyScript)))...)
		out = append(out, o.PublicKeyScript...)
	}
	return out
}

func c29HasWitness(tx *Transaction) bool {
	for _, in := range tx.Inputs {
		if len(in.Witness) > 0 {
			return true
		}
	}
	return false
}

func c29ModelStandard(tx *Transaction) []byte {
	var out []byte
	out = append(out, c29LE32(uint32(tx.Version))...)
	out = append(out, c29ModelInputs(tx)...)
	out = append(out, c29ModelOutputs(tx)...)
	out = append(out, c29LE32(tx.Locktime)...)
	return out
}

func c29ModelWitness(tx *Transaction) []byte {
	if !c29HasWitness(tx) {
		return c29ModelStandard(tx)
	}
	var out []byte
	out = append(out, c29LE32(uint32(tx.Version))...)
	out = append(out, 0x00, 0x01)
	out = append(out, c29ModelInputs(tx)...)
	out = append(out, c29ModelOutputs(tx)...)
	for _, in := range tx.Inputs {
		out = append(out, c29CompactSize(uint64(len(in.Witness)))...)
		for _, item := range in.Witness {
			out = append(out, c29CompactSize(uint64(len(item)))...)
			out = append(out, item...)
		}
	}
	out = append(out, c29LE32(tx.Locktime)...)
	return out
}

func c29DoubleSha(b []byte) Hash {
	a := sha256.Sum256(b)
	return sha256.Sum256(a[:])
}

func c29Reverse(b []byte) []byte {
	out := make([]byte, len(b))
	for i := range b {
		out[len(b)-1-i] = b[i]
	}
	return out
}

// ---------------------------------------------------------------------------
// Transaction helpers: deep copy and semantic equality (nil == empty slice).

func c29CopyBytes(b []byte) []byte {
	if b == nil {
		return nil
	}
	return append([]byte{}, b...)
}

func c29CopyTx(tx *Transaction, keepWitness bool) *Transaction {
	out := &Transaction{Version: tx.Version, Locktime: tx.Locktime}
	for _, in := range tx.Inputs {
		ci := &TransactionInput{
			Outpoint:        &TransactionOutpoint{TransactionHash: in.Outpoint.TransactionHash, OutputIndex: in.Outpoint.OutputIndex},
			SignatureScript: c29CopyBytes(in.SignatureScript),
			Sequence:        in.Sequence,
		}
		if keepWitness && in.Witness != nil {
			ci.Witness = [][]byte{}
			for _, item := range in.Witness {
				ci.Witness = append(ci.Witness, c29CopyBytes(item))
			}
		}
		out.Inputs = append(out.Inputs, ci)
	}
	for _, o := range tx.Outputs {
		out.Outputs = append(out.Outputs, &TransactionOutput{Value: o.Value, PublicKeyScript: Script(c29CopyBytes(o.PublicKeyScript))})
	}
	return out
}

// c29Diff returns "" when the two transactions are the same transaction.
func c29Diff(a, b *Transaction) string {
	if a.Version != b.Version {
		return fmt.Sprintf("version %d != %d", a.Version, b.Version)
	}
	if a.Locktime != b.Locktime {
		return fmt.Sprintf("locktime %d != %d", a.Locktime, b.Locktime)
	}
	if len(a.Inputs) != len(b.Inputs) {
		return fmt.Sprintf("input count %d != %d", len(a.Inputs), len(b.Inputs))
	}
	if len(a.Outputs) != len(b.Outputs) {
		return fmt.Sprintf("output count %d != %d", len(a.Outputs), len(b.Outputs))
	}
	for i := range a.Inputs {
		x, y := a.Inputs[i], b.Inputs[i]
		if x == nil || y == nil || x.Outpoint == nil || y.Outpoint == nil {
			return fmt.Sprintf("input %d: nil input or outpoint", i)
		}
		if x.Outpoint.TransactionHash != y.Outpoint.TransactionHash || x.Outpoint.OutputIndex != y.Outpoint.OutputIndex {
			return fmt.Sprintf("input %d: outpoint %x:%d != %x:%d", i, x.Outpoint.TransactionHash, x.Outpoint.OutputIndex, y.Outpoint.TransactionHash, y.Outpoint.OutputIndex)
		}
		if !bytes.Equal(x.SignatureScript, y.SignatureScript) {
			return fmt.Sprintf("input %d: signature script %x != %x", i, x.SignatureScript, y.SignatureScript)
		}
		if x.Sequence != y.Sequence {
			return fmt.Sprintf("input %d: sequence %d != %d", i, x.Sequence, y.Sequence)
		}
		if len(x.Witness) != len(y.Witness) {
			return fmt.Sprintf("input %d: witness stack size %d != %d", i, len(x.Witness), len(y.Witness))
		}
		for k := range x.Witness {
			if !bytes.Equal(x.Witness[k], y.Witness[k]) {
				return fmt.Sprintf("input %d: witness item %d %x != %x", i, k, x.Witness[k], y.Witness[k])
			}
		}
	}
	for i := range a.Outputs {
		x, y := a.Outputs[i], b.Outputs[i]
		if x == nil || y == nil {
			return fmt.Sprintf("output %d: nil", i)
		}
		if x.Value != y.Value {
			return fmt.Sprintf("output %d: value %d != %d", i, x.Value, y.Value)
		}
		if !bytes.Equal(x.PublicKeyScript, y.PublicKeyScript) {
			return fmt.Sprintf("output %d: script %x != %x", i, x.PublicKeyScript, y.PublicKeyScript)
		}
	}
	return ""
}

func c29Render(tx *Transaction) string {
	var sb strings.Builder
	fmt.Fprintf(&sb, "v=%d lt=%d in[", tx.Version, tx.Locktime)
	for i, in := range tx.Inputs {
		if i >= 8 {
			fmt.Fprintf(&sb, " …+%d", len(tx.Inputs)-i)
			break
		}
		fmt.Fprintf(&sb, " %x:%d ss%d", in.Outpoint.TransactionHash[:3], in.Outpoint.OutputIndex, len(in.SignatureScript))
		if in.Witness != nil {
			sb.WriteString(" w(")
			for k, item := range in.Witness {
				if k > 0 {
					sb.WriteString(",")
				}
				fmt.Fprintf(&sb, "%d", len(item))
			}
			sb.WriteString(")")
		}
		fmt.Fprintf(&sb, " q%x;", in.Sequence)
	}
	sb.WriteString(" ] out[")
	for i, o := range tx.Outputs {
		if i >= 8 {
			fmt.Fprintf(&sb, " …+%d", len(tx.Outputs)-i)
			break
		}
		fmt.Fprintf(&sb, " %d/s%d", o.Value, len(o.PublicKeyScript))
	}
	sb.WriteString(" ]")
	return sb.String()
}

// ---------------------------------------------------------------------------
// Generators.

// lengths biased to the compact-size and push-opcode boundaries.
func c29GenLen(max int) *rapid.Generator[int] {
	edges := []int{0, 1, 2, 20, 22, 25, 32, 34, 75, 76, 106, 107, 252, 253, 254, 255, 256, 257, 520, 600}
	var ok []int
	for _, e := range edges {
		if e <= max {
			ok = append(ok, e)
		}
	}
	return rapid.OneOf(
		rapid.SampledFrom(ok),
		rapid.IntRange(0, min(max, 40)),
		rapid.IntRange(0, max),
	)
}

func c29GenBytes(t *rapid.T, n int, label string) []byte {
	if n == 0 {
		// nil and empty must both be handled
		if rapid.Bool().Draw(t, label+"Nil") {
			return nil
		}
		return []byte{}
	}
	mode := rapid.IntRange(0, 5).Draw(t, label+"Mode")
	switch mode {
	case 0: // constant fill (0x00 / 0xff / 0xfd are the interesting prefixes)
		fill := rapid.SampledFrom([]byte{0x00, 0xff, 0xfd, 0xfe, 0x01}).Draw(t, label+"Fill")
		return bytes.Repeat([]byte{fill}, n)
	default:
		return rapid.SliceOfN(rapid.Byte(), n, n).Draw(t, label)
	}
}

func c29GenHash(t *rapid.T, label string) Hash {
	var h Hash
	// rapid favours small integers: the common kinds come first
	switch rapid.IntRange(0, 9).Draw(t, label+"Kind") {
	case 9:
		// all zero (coinbase outpoint)
	case 8:
		for i := range h {
			h[i] = 0xff
		}
	case 7:
		// palindrome
		half := rapid.SliceOfN(rapid.Byte(), 16, 16).Draw(t, label+"Half")
		for i := 0; i < 16; i++ {
			h[i], h[31-i] = half[i], half[i]
		}
	case 6, 5:
		// block-hash like: trailing zeros in the internal order
		b := rapid.SliceOfN(rapid.Byte(), 32, 32).Draw(t, label)
		copy(h[:], b)
		z := rapid.IntRange(1, 12).Draw(t, label+"Zeros")
		for i := 0; i < z; i++ {
			h[31-i] = 0
		}
	default:
		b := rapid.SliceOfN(rapid.Byte(), 32, 32).Draw(t, label)
		copy(h[:], b)
	}
	return h
}

func c29GenCount(t *rapid.T, label string, minimum int, allowBig bool) int {
	// rapid favours small integers: the common classes come first
	k := rapid.IntRange(0, 99).Draw(t, label+"Class")
	switch {
	case k < 70:
		return rapid.IntRange(minimum, 7).Draw(t, label)
	case k < 85:
		return minimum
	case k < 93:
		return minimum + 1
	case allowBig && k >= 96:
		// across the one-byte / three-byte compact-size boundary
		return rapid.SampledFrom([]int{252, 253, 251, 254, 255, 256, 300}).Draw(t, label+"Big")
	default:
		return rapid.IntRange(minimum, 12).Draw(t, label)
	}
}

var c29Uint32Edges = []uint32{0, 1, 2, 0x7fffffff, 0x80000000, 0xfffffffe, 0xffffffff, 499999999, 500000000}

func c29GenUint32(t *rapid.T, label string) uint32 {
	if rapid.Bool().Draw(t, label+"Edge") {
		return rapid.SampledFrom(c29Uint32Edges).Draw(t, label)
	}
	return rapid.Uint32().Draw(t, label)
}

// witnessPlan: 0 none, 1 all, 2 some but not all (when >= 2 inputs).
func c29GenTx(t *rapid.T) (*Transaction, string) {
	tx := &Transaction{}
	tx.Version = rapid.OneOf(
		rapid.SampledFrom([]int32{1, 2, 0, -1, 0x7fffffff, -0x80000000}),
		rapid.Int32(),
	).Draw(t, "version")
	tx.Locktime = c29GenUint32(t, "locktime")

	nIn := c29GenCount(t, "inputs", 1, true)
	nOut := c29GenCount(t, "outputs", 0, nIn < 100)
	big := nIn > 100 || nOut > 100
	maxScript := 600
	if big {
		maxScript = 40
	}
	plan := rapid.SampledFrom([]string{"none", "all", "some", "some", "free"}).Draw(t, "witnessPlan")
	witnessAt := -1
	if plan == "some" && nIn >= 2 {
		// at least one input with and one without witness data
		witnessAt = rapid.IntRange(0, nIn-1).Draw(t, "witnessAt")
	}
	for i := 0; i < nIn; i++ {
		in := &TransactionInput{
			Outpoint: &TransactionOutpoint{
				TransactionHash: c29GenHash(t, "prevHash"),
				OutputIndex:     c29GenUint32(t, "prevIndex"),
			},
			Sequence: c29GenUint32(t, "sequence"),
		}
		var withWitness bool
		switch plan {
		case "none":
			withWitness = false
		case "all":
			withWitness = true
		case "some":
			if nIn >= 2 {
				switch {
				case i == witnessAt:
					withWitness = true
				case i == (witnessAt+1)%nIn:
					withWitness = false
				default:
					withWitness = rapid.Bool().Draw(t, "withWitness")
				}
			} else {
				withWitness = rapid.Bool().Draw(t, "withWitness")
			}
		default:
			withWitness = rapid.Bool().Draw(t, "withWitness")
		}
		if withWitness {
			items := rapid.IntRange(1, 5).Draw(t, "witnessItems")
			in.Witness = [][]byte{}
			for k := 0; k < items; k++ {
				n := c29GenLen(maxScript).Draw(t, "witnessItemLen")
				in.Witness = append(in.Witness, c29GenBytes(t, n, "witnessItem"))
			}
			// witness inputs normally have an empty signature script, but
			// nested (P2SH-wrapped) ones do not: generate both
			if rapid.IntRange(0, 3).Draw(t, "nested") == 0 {
				in.SignatureScript = c29GenBytes(t, c29GenLen(40).Draw(t, "sigScriptLen"), "sigScript")
			}
		} else {
			// no witness: nil or an empty stack
			if rapid.IntRange(0, 3).Draw(t, "emptyStack") == 0 {
				in.Witness = [][]byte{}
			}
			in.SignatureScript = c29GenBytes(t, c29GenLen(maxScript).Draw(t, "sigScriptLen"), "sigScript")
		}
		tx.Inputs = append(tx.Inputs, in)
	}
	for i := 0; i < nOut; i++ {
		value := rapid.OneOf(
			rapid.SampledFrom([]int64{0, 1, 546, 100000000, 2100000000000000, 0x7fffffffffffffff}),
			rapid.Int64Range(0, 2100000000000000),
		).Draw(t, "value")
		tx.Outputs = append(tx.Outputs, &TransactionOutput{
			Value:           value,
			PublicKeyScript: Script(c29GenBytes(t, c29GenLen(maxScript).Draw(t, "pkScriptLen"), "pkScript")),
		})
	}
	return tx, plan
}

func c29WitnessShape(tx *Transaction) (with, without int) {
	for _, in := range tx.Inputs {
		if len(in.Witness) > 0 {
			with++
		} else {
			without++
		}
	}
	return
}

// ---------------------------------------------------------------------------
// The checks shared by the rapid test and the fuzz target: everything the
// property says about one transaction with at least one input.

type c29Fataler interface {
	Fatalf(format string, args ...any)
}

func c29CheckTransaction(t c29Fataler, tx *Transaction) {
	orig := c29CopyTx(tx, true)
	stripped := c29CopyTx(tx, false)

	std := tx.Serialize(Standard)
	wit := tx.Serialize(Witness)
	def := tx.Serialize()

	modelStd := c29ModelStandard(orig)
	modelWit := c29ModelWitness(orig)
	if !bytes.Equal(std, modelStd) {
		t.Fatalf("Serialize(Standard) differs from the wire format\n got  %x\n want %x\n tx %s", std, modelStd, c29Render(orig))
	}
	if !bytes.Equal(wit, modelWit) {
		t.Fatalf("Serialize(Witness) differs from the wire format\n got  %x\n want %x\n tx %s", wit, modelWit, c29Render(orig))
	}
	if !bytes.Equal(def, wit) {
		t.Fatalf("Serialize() without a format is not the witness format\n got  %x\n want %x", def, wit)
	}

	// round trip, standard: witness data is dropped, everything else is kept
	var backStd Transaction
	if err := backStd.Deserialize(std); err != nil {
		t.Fatalf("Deserialize(Serialize(Standard)) failed: %v; tx %s", err, c29Render(orig))
	}
	if d := c29Diff(stripped, &backStd); d != "" {
		t.Fatalf("standard round trip changed the transaction: %s; tx %s", d, c29Render(orig))
	}
	// round trip, witness: the same transaction - into a receiver that already
	// holds another transaction (every field must be overwritten)
	backWit := Transaction{
		Version:  77,
		Locktime: 99,
		Inputs: []*TransactionInput{{Outpoint: &TransactionOutpoint{OutputIndex: 5}, Witness: [][]byte{{1}}, SignatureScript: []byte{2}},
			{Outpoint: &TransactionOutpoint{}}, {Outpoint: &TransactionOutpoint{}}},
		Outputs: []*TransactionOutput{{Value: 5, PublicKeyScript: Script{1}}},
	}
	if err := backWit.Deserialize(wit); err != nil {
		t.Fatalf("Deserialize(Serialize(Witness)) failed: %v; tx %s", err, c29Render(orig))
	}
	if d := c29Diff(orig, &backWit); d != "" {
		t.Fatalf("witness round trip changed the transaction: %s; tx %s", d, c29Render(orig))
	}
	// and serializing the deserialized transaction gives the same bytes
	if again := backWit.Serialize(Witness); !bytes.Equal(again, wit) {
		t.Fatalf("re-serialization after the witness round trip differs\n got  %x\n want %x", again, wit)
	}
	if again := backStd.Serialize(Standard); !bytes.Equal(again, std) {
		t.Fatalf("re-serialization after the standard round trip differs\n got  %x\n want %x", again, std)
	}

	// hash ignores witness data
	wantHash := c29DoubleSha(modelStd)
	if h := tx.Hash(); h != wantHash {
		t.Fatalf("Hash() = %x, double-SHA256 of the standard serialization = %x; tx %s", h, wantHash, c29Render(orig))
	}
	if h := stripped.Hash(); h != wantHash {
		t.Fatalf("Hash() of the witness-stripped transaction = %x differs from the hash with witness data %x; tx %s", h, wantHash, c29Render(orig))
	}
	if h := backWit.Hash(); h != wantHash {
		t.Fatalf("Hash() after the witness round trip = %x, before = %x", h, wantHash)
	}
	if h := tx.WitnessHash(); h != c29DoubleSha(modelWit) {
		t.Fatalf("WitnessHash() = %x, double-SHA256 of the witness serialization = %x", h, c29DoubleSha(modelWit))
	}

	// parts of the serialization
	version := tx.SerializeVersion()
	inputs := tx.SerializeInputs()
	outputs := tx.SerializeOutputs()
	locktime := tx.SerializeLocktime()
	if !bytes.Equal(version[:], modelStd[:4]) {
		t.Fatalf("SerializeVersion() = %x, serialization starts with %x", version, modelStd[:4])
	}
	if want := c29ModelInputs(orig); !bytes.Equal(inputs, want) {
		t.Fatalf("SerializeInputs() is not the input vector of the serialization\n got  %x\n want %x\n tx %s", inputs, want, c29Render(orig))
	}
	if want := c29ModelOutputs(orig); !bytes.Equal(outputs, want) {
		t.Fatalf("SerializeOutputs() is not the output vector of the serialization\n got  %x\n want %x\n tx %s", outputs, want, c29Render(orig))
	}
	if !bytes.Equal(locktime[:], modelStd[len(modelStd)-4:]) {
		t.Fatalf("SerializeLocktime() = %x, serialization ends with %x", locktime, modelStd[len(modelStd)-4:])
	}
	var cat []byte
	cat = append(cat, version[:]...)
	cat = append(cat, inputs...)
	cat = append(cat, outputs...)
	cat = append(cat, locktime[:]...)
	if !bytes.Equal(cat, std) {
		t.Fatalf("version|inputs|outputs|locktime differs from Serialize(Standard)\n got  %x\n want %x", cat, std)
	}
	// in the witness serialization the same parts sit around marker/flag and
	// the witness section
	if c29HasWitness(orig) {
		off := 4 + 2
		if !bytes.Equal(wit[:4], version[:]) || !bytes.Equal(wit[off:off+len(inputs)], inputs) ||
			!bytes.Equal(wit[off+len(inputs):off+len(inputs)+len(outputs)], outputs) ||
			!bytes.Equal(wit[len(wit)-4:], locktime[:]) {
			t.Fatalf("the part serializations are not the corresponding parts of the witness serialization; tx %s", c29Render(orig))
		}
	}

	// none of the calls may have changed the transaction
	if d := c29Diff(orig, tx); d != "" {
		t.Fatalf("serialization calls mutated the transaction: %s", d)
	}
}

func TestVerif_C29_TransactionRoundTrip(t *testing.T) {
	st := verifkit.New("C29", "TestVerif_C29_TransactionRoundTrip")
	defer st.Flush()
	rapid.Check(t, func(t *rapid.T) {
		tx, plan := c29GenTx(t)
		c29CheckTransaction(t, tx)
		with, without := c29WitnessShape(tx)
		nt := with > 0 && without > 0
		shape := "witness:none"
		switch {
		case nt:
			shape = "witness:some-not-all"
		case with > 0:
			shape = "witness:all"
		}
		emptyItem := false
		for _, in := range tx.Inputs {
			for _, item := range in.Witness {
				if len(item) == 0 {
					emptyItem = true
				}
			}
		}
		labels := []string{shape, "plan:" + plan}
		if len(tx.Inputs) >= 253 {
			labels = append(labels, "inputs:>=253")
		} else if len(tx.Inputs) > 100 {
			labels = append(labels, "inputs:251..252")
		}
		if len(tx.Outputs) >= 253 {
			labels = append(labels, "outputs:>=253")
		} else if len(tx.Outputs) > 100 {
			labels = append(labels, "outputs:251..252")
		}
		if len(tx.Outputs) == 0 {
			labels = append(labels, "outputs:0")
		}
		if emptyItem {
			labels = append(labels, "witness:empty-item")
		}
		st.Case(nt, c29Render(tx), labels...)
	})
}

// Mutated serializations: whatever Deserialize accepts with at least one
// input must round-trip from then on (and nothing may panic).
func c29CheckParsed(t c29Fataler, data []byte) (accepted bool, inputs int) {
	var tx Transaction
	if err := tx.Deserialize(data); err != nil {
		return false, 0
	}
	if len(tx.Inputs) == 0 {
		return true, 0
	}
	c29CheckTransaction(t, &tx)
	return true, len(tx.Inputs)
}

func TestVerif_C29_DeserializeMutated(t *testing.T) {
	st := verifkit.New("C29", "TestVerif_C29_DeserializeMutated")
	defer st.Flush()
	rapid.Check(t, func(t *rapid.T) {
		tx, _ := c29GenTx(t)
		if len(tx.Inputs) > 20 || len(tx.Outputs) > 20 {
			tx.Inputs = tx.Inputs[:min(len(tx.Inputs), 3)]
			tx.Outputs = tx.Outputs[:min(len(tx.Outputs), 3)]
		}
		data := c29ModelWitness(tx)
		nMut := rapid.IntRange(1, 4).Draw(t, "mutations")
		var kinds []string
		for i := 0; i < nMut; i++ {
			kind := rapid.SampledFrom([]string{"flip", "set", "truncate", "append", "insert", "delete", "head"}).Draw(t, "kind")
			kinds = append(kinds, kind)
			switch kind {
			case "flip":
				if len(data) > 0 {
					p := rapid.IntRange(0, len(data)-1).Draw(t, "pos")
					data[p] ^= 1 << rapid.IntRange(0, 7).Draw(t, "bit")
				}
			case "set":
				if len(data) > 0 {
					p := rapid.IntRange(0, len(data)-1).Draw(t, "pos")
					data[p] = rapid.SampledFrom([]byte{0x00, 0x01, 0xfc, 0xfd, 0xfe, 0xff}).Draw(t, "val")
				}
			case "truncate":
				data = data[:rapid.IntRange(0, len(data)).Draw(t, "len")]
			case "append":
				data = append(data, rapid.SliceOfN(rapid.Byte(), 1, 8).Draw(t, "tail")...)
			case "insert":
				p := rapid.IntRange(0, len(data)).Draw(t, "pos")
				ins := rapid.SliceOfN(rapid.Byte(), 1, 4).Draw(t, "ins")
				data = append(append(append([]byte{}, data[:p]...), ins...), data[p:]...)
			case "delete":
				if len(data) > 0 {
					p := rapid.IntRange(0, len(data)-1).Draw(t, "pos")
					data = append(append([]byte{}, data[:p]...), data[p+1:]...)
				}
			case "head":
				// the region where the input count and marker/flag live
				if len(data) > 6 {
					p := rapid.IntRange(4, 6).Draw(t, "pos")
					data[p] = rapid.SampledFrom([]byte{0x00, 0x01, 0x02, 0xfd}).Draw(t, "val")
				}
			}
		}
		accepted, inputs := c29CheckParsed(t, data)
		label := "rejected"
		if accepted && inputs == 0 {
			label = "accepted:no-inputs(outside-domain)"
		} else if accepted {
			label = "accepted"
		}
		st.Case(accepted && inputs > 0, fmt.Sprintf("%s %x", strings.Join(kinds, "+"), data[:min(len(data), 120)]), label)
	})
}

// ---------------------------------------------------------------------------
// Hashes in both byte orders.

func TestVerif_C29_HashByteOrder(t *testing.T) {
	st := verifkit.New("C29", "TestVerif_C29_HashByteOrder")
	defer st.Flush()
	rapid.Check(t, func(t *rapid.T) {
		want := c29GenHash(t, "hash")
		raw := append([]byte{}, want[:]...)
		rev := c29Reverse(raw)

		// constructors
		in := append([]byte{}, raw...)
		h, err := NewHash(in, InternalByteOrder)
		if err != nil || h != want {
			t.Fatalf("NewHash(internal) = %x, %v; want %x", h, err, want)
		}
		if !bytes.Equal(in, raw) {
			t.Fatalf("NewHash(internal) changed its argument")
		}
		in = append([]byte{}, rev...)
		h2, err := NewHash(in, ReversedByteOrder)
		if err != nil || h2 != want {
			t.Fatalf("NewHash(reversed bytes, reversed) = %x, %v; want %x", h2, err, want)
		}
		if !bytes.Equal(in, rev) {
			t.Fatalf("NewHash(reversed) changed its argument")
		}

		// rendering
		internalHex := h.Hex(InternalByteOrder)
		reversedHex := h.Hex(ReversedByteOrder)
		if h != want {
			t.Fatalf("Hex() mutated the hash: %x, was %x", h, want)
		}
		if internalHex != hex.EncodeToString(raw) {
			t.Fatalf("Hex(internal) = %s, want %s", internalHex, hex.EncodeToString(raw))
		}
		if reversedHex != hex.EncodeToString(rev) {
			t.Fatalf("Hex(reversed) = %s, want the byte-reverse %s", reversedHex, hex.EncodeToString(rev))
		}
		// rendering twice gives the same (no state)
		if h.Hex(ReversedByteOrder) != reversedHex || h.Hex(InternalByteOrder) != internalHex {
			t.Fatalf("Hex() is not repeatable")
		}
		if h.String() != internalHex {
			t.Fatalf("String() = %s, want the internal order %s", h.String(), internalHex)
		}

		// round trip through strings in both orders
		for _, o := range []ByteOrder{InternalByteOrder, ReversedByteOrder} {
			s := h.Hex(o)
			back, err := NewHashFromString(s, o)
			if err != nil || back != want {
				t.Fatalf("NewHashFromString(h.Hex(%d), %d) = %x, %v; want %x", o, o, back, err, want)
			}
			// string -> hash -> string
			if back.Hex(o) != s {
				t.Fatalf("Hex(%d) of the parsed hash = %s, parsed from %s", o, back.Hex(o), s)
			}
		}
		// the same string read in the other order is the reversed hash
		cross, err := NewHashFromString(internalHex, ReversedByteOrder)
		var wantCross Hash
		copy(wantCross[:], rev)
		if err != nil || cross != wantCross {
			t.Fatalf("NewHashFromString(internal hex, reversed) = %x, %v; want %x", cross, err, wantCross)
		}

		// malformed arguments are errors, never a truncated or padded hash
		cut := rapid.IntRange(0, 31).Draw(t, "cut")
		if _, err := NewHash(raw[:cut], InternalByteOrder); err == nil {
			t.Fatalf("NewHash accepted %d bytes", cut)
		}
		if _, err := NewHash(append(append([]byte{}, raw...), 0), ReversedByteOrder); err == nil {
			t.Fatalf("NewHash accepted 33 bytes")
		}
		scut := rapid.IntRange(0, 63).Draw(t, "scut")
		if _, err := NewHashFromString(internalHex[:scut], InternalByteOrder); err == nil {
			t.Fatalf("NewHashFromString accepted %d characters", scut)
		}
		if _, err := NewHashFromString(internalHex+"00", ReversedByteOrder); err == nil {
			t.Fatalf("NewHashFromString accepted 66 characters")
		}
		pos := rapid.IntRange(0, 63).Draw(t, "badPos")
		bad := []byte(internalHex)
		bad[pos] = rapid.SampledFrom([]byte{'g', 'x', ' ', 'G', '-'}).Draw(t, "badChar")
		if _, err := NewHashFromString(string(bad), InternalByteOrder); err == nil {
			t.Fatalf("NewHashFromString accepted the non-hex string %q", bad)
		}

		palindrome := bytes.Equal(raw, rev)
		st.Case(!palindrome, internalHex, fmt.Sprintf("palindrome:%v", palindrome))
	})
}

// ---------------------------------------------------------------------------
// Compact-size prefixes and length-prefixed scripts.

func c29GenCompactValue(t *rapid.T) uint64 {
	return rapid.OneOf(
		rapid.SampledFrom([]uint64{0, 1, 0xfb, 0xfc, 0xfd, 0xfe, 0xff, 0x100, 0xfffe, 0xffff, 0x10000, 0x10001,
			0xfffffffe, 0xffffffff, 0x100000000, 0x100000001, 0x7fffffffffffffff, 0x8000000000000000, 0xfffffffffffffffe, 0xffffffffffffffff}),
		rapid.Uint64Range(0, 0x120),
		rapid.Uint64Range(0xff00, 0x10100),
		rapid.Uint64Range(0xffffff00, 0x100000100),
		rapid.Uint64(),
	).Draw(t, "compactValue")
}

func TestVerif_C29_CompactSize(t *testing.T) {
	st := verifkit.New("C29", "TestVerif_C29_CompactSize")
	defer st.Flush()
	rapid.Check(t, func(t *rapid.T) {
		v := c29GenCompactValue(t)
		enc, err := writeCompactSizeUint(CompactSizeUint(v))
		if err != nil {
			t.Fatalf("writeCompactSizeUint(%d): %v", v, err)
		}
		want := c29CompactSize(v)
		if !bytes.Equal(enc, want) {
			t.Fatalf("writeCompactSizeUint(%d) = %x, want %x", v, enc, want)
		}
		// followed by arbitrary data the prefix still reads back with its size
		tail := rapid.SliceOfN(rapid.Byte(), 0, 6).Draw(t, "tail")
		got, size, err := readCompactSizeUint(append(append([]byte{}, enc...), tail...))
		if err != nil || uint64(got) != v || size != len(want) {
			t.Fatalf("readCompactSizeUint(%x|%x) = %d, %d, %v; want %d, %d", enc, tail, got, size, err, v, len(want))
		}
		// a cut prefix is an error
		if len(enc) > 1 {
			cut := rapid.IntRange(1, len(enc)-1).Draw(t, "cut")
			if _, _, err := readCompactSizeUint(enc[:cut]); err == nil {
				t.Fatalf("readCompactSizeUint accepted the cut prefix %x", enc[:cut])
			}
		}
		if _, _, err := readCompactSizeUint(nil); err == nil {
			t.Fatalf("readCompactSizeUint accepted empty data")
		}
		st.Case(len(enc) > 1, fmt.Sprintf("%d", v), fmt.Sprintf("prefix-bytes:%d", len(enc)))
	})
}

func c29GenScriptLen(t *rapid.T) int {
	k := rapid.IntRange(0, 99).Draw(t, "lenClass")
	switch {
	case k < 3:
		return rapid.SampledFrom([]int{0xffff, 0x10000, 0x10001}).Draw(t, "hugeLen")
	case k < 45:
		return rapid.SampledFrom([]int{0, 1, 2, 25, 75, 76, 251, 252, 253, 254, 255, 256, 257, 600}).Draw(t, "edgeLen")
	default:
		return rapid.IntRange(0, 700).Draw(t, "len")
	}
}

func TestVerif_C29_VarLenScript(t *testing.T) {
	st := verifkit.New("C29", "TestVerif_C29_VarLenScript")
	defer st.Flush()
	rapid.Check(t, func(t *rapid.T) {
		n := c29GenScriptLen(t)
		var script Script
		if n > 1000 {
			seed := rapid.Byte().Draw(t, "fillSeed")
			script = make(Script, n)
			for i := range script {
				script[i] = seed + byte(i*7)
			}
		} else {
			script = Script(c29GenBytes(t, n, "script"))
		}
		orig := c29CopyBytes(script)

		// script -> data
		data, err := script.ToVarLenData()
		if err != nil {
			t.Fatalf("ToVarLenData of a %d-byte script: %v", n, err)
		}
		want := append(c29CompactSize(uint64(n)), orig...)
		if !bytes.Equal(data, want) {
			t.Fatalf("ToVarLenData of a %d-byte script: prefix/data %x…, want %x…", n, data[:min(len(data), 12)], want[:min(len(want), 12)])
		}
		if !bytes.Equal(script, orig) {
			t.Fatalf("ToVarLenData changed the script")
		}
		// data -> script
		back, err := NewScriptFromVarLenData(append([]byte{}, data...))
		if err != nil {
			t.Fatalf("NewScriptFromVarLenData(ToVarLenData(script of %d bytes)): %v", n, err)
		}
		if !bytes.Equal(back, orig) {
			t.Fatalf("script of %d bytes changed in the round trip: %x… != %x…", n, back[:min(len(back), 12)], orig[:min(len(orig), 12)])
		}

		// data -> script -> data for damaged data: either rejected, or the
		// very same bytes come back (a length prefix has one encoding).
		kind := rapid.SampledFrom([]string{"trailing", "truncated", "prefix-byte", "non-canonical", "random"}).Draw(t, "damage")
		var dmg []byte
		switch kind {
		case "trailing":
			dmg = append(append([]byte{}, data...), rapid.SliceOfN(rapid.Byte(), 1, 3).Draw(t, "extra")...)
		case "truncated":
			dmg = append([]byte{}, data[:rapid.IntRange(0, len(data)-1).Draw(t, "keep")]...)
		case "prefix-byte":
			dmg = append([]byte{}, data...)
			dmg[0] = rapid.Byte().Draw(t, "first")
		case "non-canonical":
			// the same length in a wider encoding than needed
			wide := rapid.SampledFrom([]int{3, 5, 9}).Draw(t, "wide")
			p := make([]byte, wide)
			switch wide {
			case 3:
				p[0] = 0xfd
				binary.LittleEndian.PutUint16(p[1:], uint16(min(n, 0xffff)))
			case 5:
				p[0] = 0xfe
				binary.LittleEndian.PutUint32(p[1:], uint32(n))
			case 9:
				p[0] = 0xff
				binary.LittleEndian.PutUint64(p[1:], uint64(n))
			}
			dmg = append(p, orig...)
		default:
			dmg = rapid.SliceOfN(rapid.Byte(), 0, 12).Draw(t, "randomData")
		}
		outcome := "damaged:rejected"
		if s, err := NewScriptFromVarLenData(append([]byte{}, dmg...)); err == nil {
			outcome = "damaged:accepted"
			again, err := s.ToVarLenData()
			if err != nil || !bytes.Equal(again, dmg) {
				t.Fatalf("%s data %x… was accepted as a %d-byte script but converts back to %x… (%v)", kind, dmg[:min(len(dmg), 16)], len(s), again[:min(len(again), 16)], err)
			}
		} else if bytes.Equal(dmg, data) {
			t.Fatalf("valid data rejected: %v", err)
		}
		if (kind == "trailing" || kind == "truncated") && outcome != "damaged:rejected" {
			t.Fatalf("%s data was accepted: script length prefix %d, data %d bytes", kind, n, len(dmg))
		}
		st.Case(n >= 253, fmt.Sprintf("len=%d first=%x damage=%s", n, orig[:min(len(orig), 6)], kind),
			fmt.Sprintf("prefix-bytes:%d", len(data)-n), "damage:"+kind, outcome)
	})
}

// ---------------------------------------------------------------------------
// Block headers.

func c29ModelHeader(h *BlockHeader) [80]byte {
	var out [80]byte
	binary.LittleEndian.PutUint32(out[0:], uint32(h.Version))
	copy(out[4:36], h.PreviousBlockHeaderHash[:])
	copy(out[36:68], h.MerkleRootHash[:])
	binary.LittleEndian.PutUint32(out[68:], h.Time)
	binary.LittleEndian.PutUint32(out[72:], h.Bits)
	binary.LittleEndian.PutUint32(out[76:], h.Nonce)
	return out
}

func TestVerif_C29_BlockHeader(t *testing.T) {
	st := verifkit.New("C29", "TestVerif_C29_BlockHeader")
	defer st.Flush()
	rapid.Check(t, func(t *rapid.T) {
		h := BlockHeader{
			Version:                 rapid.OneOf(rapid.SampledFrom([]int32{1, 2, 0x20000000, 0x3fffe000, -1, -0x80000000, 0}), rapid.Int32()).Draw(t, "version"),
			PreviousBlockHeaderHash: c29GenHash(t, "prev"),
			MerkleRootHash:          c29GenHash(t, "root"),
			Time:                    c29GenUint32(t, "time"),
			Bits:                    rapid.OneOf(rapid.SampledFrom([]uint32{0x1d00ffff, 0x170b3ce9, 0x207fffff, 0, 0xffffffff}), rapid.Uint32()).Draw(t, "bits"),
			Nonce:                   c29GenUint32(t, "nonce"),
		}
		orig := h
		raw := h.Serialize()
		if want := c29ModelHeader(&orig); raw != want {
			t.Fatalf("header serialization\n got  %x\n want %x", raw, want)
		}
		if h != orig {
			t.Fatalf("Serialize changed the header")
		}
		// into a receiver that already holds another header
		back := BlockHeader{Version: 9, Time: 9, Bits: 9, Nonce: 9}
		back.PreviousBlockHeaderHash[0], back.MerkleRootHash[31] = 0xaa, 0xbb
		back.Deserialize(raw)
		if back != orig {
			t.Fatalf("header changed in the round trip: %+v != %+v", back, orig)
		}
		// bytes -> header -> bytes
		var rawIn [80]byte
		copy(rawIn[:], rapid.SliceOfN(rapid.Byte(), 80, 80).Draw(t, "raw"))
		var parsed BlockHeader
		parsed.Deserialize(rawIn)
		if out := parsed.Serialize(); out != rawIn {
			t.Fatalf("raw header changed in the round trip\n got  %x\n want %x", out, rawIn)
		}
		// the two hash fields keep the internal order: rendering them in the
		// reversed ("explorer") order and parsing that back gives the field
		for _, f := range []Hash{back.PreviousBlockHeaderHash, back.MerkleRootHash} {
			p, err := NewHashFromString(f.Hex(ReversedByteOrder), ReversedByteOrder)
			if err != nil || p != f {
				t.Fatalf("header hash %x does not survive the reversed-order string round trip: %x %v", f, p, err)
			}
		}
		nt := h.PreviousBlockHeaderHash != h.MerkleRootHash && h.Time != h.Bits && h.Bits != h.Nonce && h.Time != h.Nonce
		st.Case(nt, fmt.Sprintf("%x", raw), fmt.Sprintf("distinct-fields:%v", nt))
	})
}

// ---------------------------------------------------------------------------
// Native fuzzing of Deserialize (thorough tier).

func FuzzVerif_C29_Deserialize(f *testing.F) {
	one := &Transaction{Version: 1, Inputs: []*TransactionInput{{Outpoint: &TransactionOutpoint{}, SignatureScript: []byte{1, 2, 3}, Sequence: 0xffffffff}},
		Outputs: []*TransactionOutput{{Value: 1000, PublicKeyScript: Script{0x00, 0x14, 1, 2, 3, 4, 5, 6, 7, 8, 9, 10, 11, 12, 13, 14, 15, 16, 17, 18, 19, 20}}}}
	two := c29CopyTx(one, true)
	two.Inputs = append(two.Inputs, &TransactionInput{Outpoint: &TransactionOutpoint{OutputIndex: 7}, Witness: [][]byte{{}, {0x30, 0x44}, {2, 3}}, Sequence: 1})
	three := c29CopyTx(two, true)
	three.Inputs[0].Witness = [][]byte{{9}}
	three.Outputs = nil
	for _, tx := range []*Transaction{one, two, three} {
		f.Add(c29ModelWitness(tx))
		f.Add(c29ModelStandard(tx))
	}
	f.Add([]byte{1, 0, 0, 0, 0, 1, 0, 0, 0, 0, 0, 0})
	f.Add([]byte{})
	f.Fuzz(func(t *testing.T, data []byte) {
		if len(data) > 1<<16 {
			return
		}
		c29CheckParsed(t, data)
	})
}
