//go:build go1.23

package btcdiff

import (
	"context"
	"fmt"
	"math/big"
	"strings"
	"sync"
	"testing"
	"time"

	"github.com/keep-network/keep-core/internal/verifkit"
	"github.com/keep-network/keep-core/pkg/bitcoin"
	"github.com/keep-network/keep-core/pkg/chain"
	"github.com/keep-network/keep-core/pkg/chain/local_v1"
	"github.com/keep-network/keep-core/pkg/operator"
	"pgregory.net/rapid"
)

const c43EpochLen = 2016

// ---------------------------------------------------------------------------
// scripted world: a Bitcoin chain that grows when its height is asked for, a
// relay whose epoch advances on accepted submissions (visible after `lag`
// polls) or because another maintainer was faster, and a plan of failures.
// Every call of the maintainer is written to a log; the oracle reads the log.

type c43Ev struct {
	kind    string // enter return ready auth authRefund height epoch prooflen header submit
	val     uint64
	ok      bool
	method  string   // submit
	heights []uint64 // submit: heights of the submitted headers, in order
	outcome string   // submit: accepted | failed | rejected
	proven  bool     // return of proveNextEpoch
	errText string   // return
}

func (e c43Ev) String() string {
	okS := func() string {
		if e.ok {
			return ""
		}
		return "!"
	}
	switch e.kind {
	case "submit":
		r := "[]"
		if len(e.heights) > 0 {
			r = fmt.Sprintf("[%d..%d n=%d]", e.heights[0], e.heights[len(e.heights)-1], len(e.heights))
		}
		return fmt.Sprintf("submit:%s%s=%s", e.method, r, e.outcome)
	case "return":
		if e.errText == "" {
			return fmt.Sprintf("return(proven=%v)", e.proven)
		}
		return "return(err)"
	case "enter":
		return "enter"
	case "end":
		return "end"
	case "header":
		return "" // too many; summarised by the submit
	}
	return fmt.Sprintf("%s=%d%s", e.kind, e.val, okS())
}

type c43Flags struct {
	ready, auth, authRefund int // 0 false, 1 true, 2 error
}

type c43Plan struct {
	disableProxy bool
	startEpoch   uint64
	proofLength  uint64
	startHeight  uint64
	growth       []uint64 // increment applied before answering the i-th height query
	rounds       []c43Flags
	// failures by call index of the kind
	failHeight, failEpoch, failProofLen, failHeader, failSubmit map[int]bool
	bumpAtEpochPoll                                             map[int]bool // relay advanced by someone else before this poll
	bumpAtProofLen                                              map[int]bool // ... between the epoch poll and the submission
	lag                                                         int          // polls until an accepted submission becomes visible
}

func (p c43Plan) String() string {
	keys := func(m map[int]bool) string {
		var s []string
		for i := 0; i < 64; i++ {
			if m[i] {
				s = append(s, fmt.Sprint(i))
			}
		}
		return strings.Join(s, ",")
	}
	return fmt.Sprintf("proxyOff=%v e0=%d L=%d h0=%d(thr%+d) grow=%v rounds=%v fail{h:%s e:%s L:%s hdr:%s sub:%s} bump:%s lag=%d",
		p.disableProxy, p.startEpoch, p.proofLength, p.startHeight,
		int64(p.startHeight)-int64(c43Threshold(p.startEpoch, p.proofLength)), p.growth, p.rounds,
		keys(p.failHeight), keys(p.failEpoch), keys(p.failProofLen), keys(p.failHeader), keys(p.failSubmit), keys(p.bumpAtEpochPoll)+"/"+keys(p.bumpAtProofLen), p.lag)
}

// height at which the proof of the epoch after e becomes possible
func c43Threshold(e, l uint64) uint64 { return (e+1)*c43EpochLen + l - 1 }

var c43ErrScripted = fmt.Errorf("c43: scripted failure")
var c43ErrScriptEnd = fmt.Errorf("c43: end of the scripted history")

type c43World struct {
	mu   sync.Mutex
	plan c43Plan
	log  []c43Ev

	height                 uint64
	trueEpoch, visible     uint64
	lagLeft                int
	nHeight, nEpoch, nLen  int
	nHeader, nSubmit       int
	round                  int
	ended                  bool
	cancel                 context.CancelFunc
	pollsAfterReach        int    // consecutive epoch polls after the relay reported the awaited epoch
	awaited                uint64 // target of the last accepted submission (0 = none)
	stuck                  bool
	signer                 chain.Signing
	wrongAddressAuthChecks int
}

func (w *c43World) add(e c43Ev) { w.log = append(w.log, e) }

// --- bitcoin side

type c43Btc struct {
	bitcoin.Chain // the maintainer only needs the two methods below
	w             *c43World
}

func (b *c43Btc) GetLatestBlockHeight() (uint, error) {
	w := b.w
	w.mu.Lock()
	defer w.mu.Unlock()
	i := w.nHeight
	w.nHeight++
	w.pollsAfterReach = 0
	if i >= len(w.plan.growth) {
		w.ended = true
		w.add(c43Ev{kind: "end"})
		w.cancel()
		return 0, c43ErrScriptEnd
	}
	w.height += w.plan.growth[i]
	if w.plan.failHeight[i] {
		w.add(c43Ev{kind: "height", val: w.height, ok: false})
		return uint(w.height), c43ErrScripted
	}
	w.add(c43Ev{kind: "height", val: w.height, ok: true})
	return uint(w.height), nil
}

func c43Header(height uint64) *bitcoin.BlockHeader {
	// the header identifies its height
	return &bitcoin.BlockHeader{Version: 2, Time: uint32(height), Nonce: uint32(height >> 32), Bits: 0x1d00ffff - uint32(height/c43EpochLen)}
}

func c43HeaderHeight(h *bitcoin.BlockHeader) uint64 {
	if h == nil {
		return ^uint64(0)
	}
	return uint64(h.Time) | uint64(h.Nonce)<<32
}

func (b *c43Btc) GetBlockHeader(blockNumber uint) (*bitcoin.BlockHeader, error) {
	w := b.w
	w.mu.Lock()
	defer w.mu.Unlock()
	i := w.nHeader
	w.nHeader++
	w.pollsAfterReach = 0
	if uint64(blockNumber) > w.height {
		w.add(c43Ev{kind: "header", val: uint64(blockNumber), ok: false, outcome: "unmined"})
		return nil, fmt.Errorf("c43: block %d is not mined yet (tip %d)", blockNumber, w.height)
	}
	if w.plan.failHeader[i] {
		w.add(c43Ev{kind: "header", val: uint64(blockNumber), ok: false})
		return nil, c43ErrScripted
	}
	w.add(c43Ev{kind: "header", val: uint64(blockNumber), ok: true})
	return c43Header(uint64(blockNumber)), nil
}

// --- relay side

type c43Relay struct{ w *c43World }

func c43Tri(v int) (bool, error) {
	if v == 2 {
		return true, c43ErrScripted // the value must not be used
	}
	return v == 1, nil
}

func (r *c43Relay) flags() c43Flags {
	w := r.w
	if w.round < len(w.plan.rounds) {
		return w.plan.rounds[w.round]
	}
	return c43Flags{1, 1, 1}
}

func (r *c43Relay) Ready() (bool, error) {
	r.w.mu.Lock()
	defer r.w.mu.Unlock()
	v := r.flags().ready
	r.w.add(c43Ev{kind: "ready", val: uint64(v), ok: v != 2})
	return c43Tri(v)
}

func (r *c43Relay) authAnswer(kind string, v int, address chain.Address) (bool, error) {
	r.w.mu.Lock()
	defer r.w.mu.Unlock()
	r.w.add(c43Ev{kind: kind, val: uint64(v), ok: v != 2})
	if address != r.w.signer.Address() {
		r.w.wrongAddressAuthChecks++
		return false, nil
	}
	return c43Tri(v)
}

func (r *c43Relay) IsAuthorized(address chain.Address) (bool, error) {
	return r.authAnswer("auth", r.flags().auth, address)
}

func (r *c43Relay) IsAuthorizedForRefund(address chain.Address) (bool, error) {
	return r.authAnswer("authRefund", r.flags().authRefund, address)
}

func (r *c43Relay) Signing() chain.Signing { return r.w.signer }

func (r *c43Relay) submit(method string, headers []*bitcoin.BlockHeader) error {
	w := r.w
	w.mu.Lock()
	defer w.mu.Unlock()
	i := w.nSubmit
	w.nSubmit++
	w.pollsAfterReach = 0
	ev := c43Ev{kind: "submit", method: method}
	for _, h := range headers {
		ev.heights = append(ev.heights, c43HeaderHeight(h))
	}
	if w.plan.failSubmit[i] {
		ev.outcome = "failed"
		w.add(ev)
		return c43ErrScripted
	}
	// the relay accepts exactly the window around the first block of the
	// epoch after its current one
	l := w.plan.proofLength
	first := (w.trueEpoch+1)*c43EpochLen - l
	valid := uint64(len(ev.heights)) == 2*l
	for k := range ev.heights {
		valid = valid && ev.heights[k] == first+uint64(k)
	}
	if !valid {
		ev.outcome = "rejected"
		w.add(ev)
		return fmt.Errorf("c43: relay rejects the headers (current epoch %d)", w.trueEpoch)
	}
	ev.outcome = "accepted"
	w.add(ev)
	w.trueEpoch++
	w.awaited = w.trueEpoch
	w.lagLeft = w.plan.lag
	if w.lagLeft == 0 {
		w.visible = w.trueEpoch
	}
	return nil
}

func (r *c43Relay) Retarget(headers []*bitcoin.BlockHeader) error {
	return r.submit("Retarget", headers)
}

func (r *c43Relay) RetargetWithRefund(headers []*bitcoin.BlockHeader) error {
	return r.submit("RetargetWithRefund", headers)
}

func (r *c43Relay) CurrentEpoch() (uint64, error) {
	w := r.w
	w.mu.Lock()
	defer w.mu.Unlock()
	i := w.nEpoch
	w.nEpoch++
	if w.plan.bumpAtEpochPoll[i] {
		w.trueEpoch++
	}
	if w.lagLeft > 0 {
		w.lagLeft--
	} else {
		w.visible = w.trueEpoch
	}
	if w.plan.failEpoch[i] {
		w.add(c43Ev{kind: "epoch", val: w.visible, ok: false})
		return w.visible + 1, c43ErrScripted
	}
	w.add(c43Ev{kind: "epoch", val: w.visible, ok: true})
	if w.awaited != 0 && w.visible >= w.awaited {
		// a maintainer that keeps polling although the relay reports the
		// awaited epoch never moves on: stop it, the oracle reports it
		w.pollsAfterReach++
		if w.pollsAfterReach > 3 {
			w.stuck = true
			w.cancel()
		}
	}
	return w.visible, nil
}

func (r *c43Relay) ProofLength() (uint64, error) {
	w := r.w
	w.mu.Lock()
	defer w.mu.Unlock()
	i := w.nLen
	w.nLen++
	if w.plan.bumpAtProofLen[i] {
		w.trueEpoch++
	}
	if w.plan.failProofLen[i] {
		w.add(c43Ev{kind: "prooflen", val: w.plan.proofLength, ok: false})
		return w.plan.proofLength, c43ErrScripted
	}
	w.add(c43Ev{kind: "prooflen", val: w.plan.proofLength, ok: true})
	return w.plan.proofLength, nil
}

func (r *c43Relay) GetCurrentAndPrevEpochDifficulty() (*big.Int, *big.Int, error) {
	panic("c43: not used by the maintainer")
}

var (
	c43SignerOnce sync.Once
	c43Signer     chain.Signing
)

func c43GetSigner() chain.Signing {
	c43SignerOnce.Do(func() {
		key, _, err := operator.GenerateKeyPair(local_v1.DefaultCurve)
		if err != nil {
			panic(err)
		}
		c43Signer = local_v1.NewSigner(key)
	})
	return c43Signer
}

func c43NewWorld(p c43Plan) (*c43World, *bitcoinDifficultyMaintainer, context.Context) {
	ctx, cancel := context.WithCancel(context.Background())
	w := &c43World{plan: p, height: p.startHeight, trueEpoch: p.startEpoch, visible: p.startEpoch, cancel: cancel, signer: c43GetSigner()}
	bdm := &bitcoinDifficultyMaintainer{
		config: Config{
			Enabled:            true,
			DisableProxy:       p.disableProxy,
			IdleBackOffTime:    time.Microsecond,
			RestartBackOffTime: time.Microsecond,
		},
		btcChain: &c43Btc{w: w},
		chain:    &c43Relay{w: w},
	}
	return w, bdm, ctx
}

// ---------------------------------------------------------------------------
// generator

func c43GenFaults(t *rapid.T, label string, maxIdx int, oneIn int) map[int]bool {
	m := map[int]bool{}
	if rapid.IntRange(0, oneIn-1).Draw(t, label+"Any") != 0 {
		return m
	}
	n := rapid.IntRange(1, 2).Draw(t, label+"Count")
	for i := 0; i < n; i++ {
		m[rapid.IntRange(0, maxIdx).Draw(t, label+"At")] = true
	}
	return m
}

func c43GenPlan(t *rapid.T, steps int, withFaults bool, lag int) c43Plan {
	p := c43Plan{lag: lag}
	p.disableProxy = rapid.Bool().Draw(t, "disableProxy")
	maxL := 10
	if verifkit.Thorough() {
		maxL = 40
	}
	p.proofLength = uint64(rapid.IntRange(1, maxL).Draw(t, "proofLength"))
	switch rapid.IntRange(0, 5).Draw(t, "epochClass") {
	case 0:
		p.startEpoch = uint64(rapid.IntRange(0, 2).Draw(t, "epochSmall"))
	case 1:
		p.startEpoch = uint64(rapid.IntRange(100000, 2000000).Draw(t, "epochHuge"))
	default:
		p.startEpoch = uint64(rapid.IntRange(3, 600).Draw(t, "epoch"))
	}
	thr := int64(c43Threshold(p.startEpoch, p.proofLength))
	var off int64
	switch rapid.IntRange(0, 9).Draw(t, "heightClass") {
	case 0: // far behind: relay up to date or even ahead of the node
		off = -int64(rapid.IntRange(int(p.proofLength)+3, 3*c43EpochLen).Draw(t, "behind"))
	case 1: // several epochs ahead: proofs in a row
		off = int64(rapid.IntRange(1, 4*c43EpochLen).Draw(t, "ahead"))
	default: // around the threshold: new epoch started, not all headers mined yet
		off = int64(rapid.IntRange(-2*int(p.proofLength)-2, 2).Draw(t, "nearThreshold"))
	}
	h := thr + off
	if h < 1 {
		h = 1
	}
	p.startHeight = uint64(h)
	p.growth = make([]uint64, steps)
	for i := range p.growth {
		switch rapid.IntRange(0, 11).Draw(t, "growthClass") {
		case 0, 1, 2:
			p.growth[i] = 0
		case 3, 4, 5, 6:
			p.growth[i] = 1
		case 7, 8:
			p.growth[i] = uint64(rapid.IntRange(2, int(p.proofLength)+2).Draw(t, "growthSmall"))
		case 9:
			p.growth[i] = uint64(rapid.IntRange(c43EpochLen-int(p.proofLength)-2, c43EpochLen+2).Draw(t, "growthEpoch"))
		case 10:
			p.growth[i] = uint64(rapid.IntRange(2*c43EpochLen, 3*c43EpochLen).Draw(t, "growthEpochs"))
		default:
			p.growth[i] = uint64(rapid.IntRange(0, 3).Draw(t, "growthTiny"))
		}
	}
	p.growth[0] = 0 // the first answer is the start height
	p.failHeight, p.failEpoch, p.failProofLen = map[int]bool{}, map[int]bool{}, map[int]bool{}
	p.failHeader, p.failSubmit, p.bumpAtEpochPoll = map[int]bool{}, map[int]bool{}, map[int]bool{}
	p.bumpAtProofLen = map[int]bool{}
	if withFaults {
		p.failHeight = c43GenFaults(t, "failHeight", steps, 6)
		p.failEpoch = c43GenFaults(t, "failEpoch", 2*steps, 6)
		p.failProofLen = c43GenFaults(t, "failProofLen", steps, 8)
		p.failHeader = c43GenFaults(t, "failHeader", 4*int(p.proofLength), 5)
		p.failSubmit = c43GenFaults(t, "failSubmit", 3, 4)
		p.bumpAtEpochPoll = c43GenFaults(t, "bump", 2*steps, 8)
		p.bumpAtProofLen = c43GenFaults(t, "bumpLate", steps, 6)
	}
	return p
}

func c43GenRounds(t *rapid.T, n int) []c43Flags {
	out := make([]c43Flags, n)
	tri := func(label string) int {
		// mostly true
		switch rapid.IntRange(0, 7).Draw(t, label) {
		case 0:
			return 0
		case 1:
			return 2
		}
		return 1
	}
	for i := range out {
		out[i] = c43Flags{tri("ready"), tri("auth"), tri("authRefund")}
	}
	return out
}

// ---------------------------------------------------------------------------
// oracle over the call log

type c43Iter struct {
	open          bool
	h, e, l       uint64
	hOK, eOK, lOK bool
	hSeen         bool
	headerFailed  bool
	submitted     bool
}

type c43Summary struct {
	accepted, failed, rejected int
	declinedNear, declinedFar  int
	waitedPolls                int
	labels                     []string
}

func c43Eligible(p c43Plan, f c43Flags) bool {
	if f.ready != 1 {
		return false
	}
	if p.disableProxy {
		return f.auth == 1
	}
	return f.authRefund == 1
}

// c43CheckLog verifies the clauses of the property on the recorded calls.
// viaProveEpochs: the log is made of proveEpochs rounds (eligibility applies),
// otherwise of direct proveNextEpoch calls.
func c43CheckLog(p c43Plan, w *c43World, viaProveEpochs bool) (c43Summary, error) {
	var sum c43Summary
	var it c43Iter
	round := -1
	roundEligible := true
	roundHeights, roundSubmits := 0, 0
	var awaiting uint64 // target epoch of an accepted submission not yet confirmed by a poll
	awaitingErr := false
	acceptedTargets := map[uint64]bool{}
	faultInCall := false // any failure answered during the current direct call
	acceptedInCall := false

	closeIter := func() error {
		if !it.open {
			return nil
		}
		defer func() { it = c43Iter{} }()
		if !(it.hOK && it.eOK && it.lOK) {
			return nil
		}
		thr := c43Threshold(it.e, it.l)
		if it.h >= thr && !it.headerFailed && !it.submitted && roundEligible {
			return fmt.Errorf("height %d >= %d: all %d headers around the first block %d of epoch %d are mined, but nothing was submitted",
				it.h, thr, 2*it.l, (it.e+1)*c43EpochLen, it.e+1)
		}
		if it.h < thr {
			if it.h+2*it.l+2 >= thr {
				sum.declinedNear++
			} else {
				sum.declinedFar++
			}
		}
		return nil
	}

	for idx, ev := range w.log {
		where := fmt.Sprintf("call #%d (%v)", idx, ev)
		switch ev.kind {
		case "enter":
			round++
			it = c43Iter{}
			roundHeights, roundSubmits = 0, 0
			faultInCall, acceptedInCall = false, false
			awaiting, awaitingErr = 0, false
			if viaProveEpochs {
				roundEligible = round < len(p.rounds) && c43Eligible(p, p.rounds[round])
				if round >= len(p.rounds) {
					roundEligible = true
				}
			}
		case "ready", "auth", "authRefund":
		case "end":
			if err := closeIter(); err != nil {
				return sum, fmt.Errorf("before %s: %v", where, err)
			}
			roundHeights++
		case "height":
			if err := closeIter(); err != nil {
				return sum, fmt.Errorf("before %s: %v", where, err)
			}
			if awaiting != 0 && !awaitingErr {
				return sum, fmt.Errorf("%s: moved on although the relay has not reported epoch %d yet (last answer was lower)", where, awaiting)
			}
			it = c43Iter{open: true, h: ev.val, hOK: ev.ok, hSeen: true}
			roundHeights++
			faultInCall = faultInCall || !ev.ok
		case "epoch":
			faultInCall = faultInCall || !ev.ok
			if awaiting != 0 {
				sum.waitedPolls++
				if !ev.ok {
					awaitingErr = true
				} else if ev.val >= awaiting {
					awaiting = 0
				}
				continue
			}
			if it.open && !it.submitted {
				it.e, it.eOK = ev.val, ev.ok
			}
		case "prooflen":
			faultInCall = faultInCall || !ev.ok
			if it.open && !it.submitted {
				it.l, it.lOK = ev.val, ev.ok
			}
		case "header":
			if !ev.ok {
				it.headerFailed = true
				faultInCall = true
			}
		case "submit":
			roundSubmits++
			switch ev.outcome {
			case "accepted":
				sum.accepted++
			case "failed":
				sum.failed++
				faultInCall = true
			default:
				sum.rejected++
				faultInCall = true
			}
			if viaProveEpochs && !roundEligible {
				return sum, fmt.Errorf("%s: submission although the maintainer is not ready/authorized (flags %+v, proxy disabled %v)", where, p.rounds[round], p.disableProxy)
			}
			wantMethod := "RetargetWithRefund"
			if p.disableProxy {
				wantMethod = "Retarget"
			}
			if ev.method != wantMethod {
				return sum, fmt.Errorf("%s: submitted through %s although proxy disabled = %v", where, ev.method, p.disableProxy)
			}
			if !it.open || !it.hOK || !it.eOK || !it.lOK {
				return sum, fmt.Errorf("%s: submission without a successful height/epoch/proof-length answer (%+v)", where, it)
			}
			if it.submitted {
				return sum, fmt.Errorf("%s: second submission without re-reading the relay epoch", where)
			}
			if awaiting != 0 {
				return sum, fmt.Errorf("%s: submission while epoch %d is still awaited", where, awaiting)
			}
			target := it.e + 1
			first := target*c43EpochLen - it.l
			var want []uint64
			for k := uint64(0); k < 2*it.l; k++ {
				want = append(want, first+k)
			}
			if fmt.Sprint(ev.heights) != fmt.Sprint(want) {
				return sum, fmt.Errorf("%s: relay epoch %d, proof length %d: submitted headers of heights %v, want exactly %d..%d in order",
					where, it.e, it.l, ev.heights, first, first+2*it.l-1)
			}
			if it.h < c43Threshold(it.e, it.l) {
				return sum, fmt.Errorf("%s: submitted at observed height %d, last needed header %d not mined", where, it.h, c43Threshold(it.e, it.l))
			}
			it.submitted = true
			if ev.outcome == "accepted" {
				if acceptedTargets[target] {
					return sum, fmt.Errorf("%s: epoch %d proven twice", where, target)
				}
				acceptedTargets[target] = true
				acceptedInCall = true
				awaiting, awaitingErr = target, false
			}
		case "return":
			if err := closeIter(); err != nil {
				return sum, fmt.Errorf("before %s: %v", where, err)
			}
			if viaProveEpochs {
				if ev.errText == "" {
					return sum, fmt.Errorf("%s: proveEpochs returned without an error", where)
				}
				if !roundEligible && roundSubmits > 0 {
					return sum, fmt.Errorf("%s: round of a maintainer that is not ready/authorized made %d submissions", where, roundSubmits)
				}
				if roundEligible && roundHeights == 0 {
					return sum, fmt.Errorf("%s: maintainer is ready and authorized but did not start proving (flags %+v)", where, p.rounds[round])
				}
			} else {
				// proveNextEpoch: (true, nil) iff an epoch was proven and the
				// relay reached it; (false, nil) when there was nothing to
				// prove; error iff something failed.
				if awaiting != 0 && ev.errText == "" {
					return sum, fmt.Errorf("%s: returned without error before the relay reported epoch %d", where, awaiting)
				}
				if faultInCall && ev.errText == "" && !w.ended {
					return sum, fmt.Errorf("%s: a query or the submission failed but no error was returned", where)
				}
				if !faultInCall && ev.errText != "" && !w.ended && !w.stuck {
					return sum, fmt.Errorf("%s: error %q although nothing failed", where, ev.errText)
				}
				if ev.errText == "" && ev.proven != acceptedInCall {
					return sum, fmt.Errorf("%s: returned proven=%v, accepted submission in this call: %v", where, ev.proven, acceptedInCall)
				}
				if ev.errText != "" && ev.proven {
					return sum, fmt.Errorf("%s: returned proven=true together with an error", where)
				}
			}
			awaiting = 0
		}
	}
	if w.stuck {
		return sum, fmt.Errorf("the relay reported the awaited epoch %d but the maintainer kept polling it (never moves on)", w.awaited)
	}
	if w.wrongAddressAuthChecks > 0 {
		return sum, fmt.Errorf("authorization was checked for an address that is not the maintainer's own (%d times)", w.wrongAddressAuthChecks)
	}
	return sum, nil
}

func c43RenderLog(w *c43World) string {
	var parts []string
	for _, e := range w.log {
		if s := e.String(); s != "" {
			parts = append(parts, s)
		}
	}
	return strings.Join(parts, " ")
}

func c43Labels(p c43Plan, sum c43Summary) (bool, []string) {
	labels := []string{
		fmt.Sprintf("accepted:%d", min(sum.accepted, 4)),
		fmt.Sprintf("proxyDisabled:%v", p.disableProxy),
	}
	if sum.failed > 0 {
		labels = append(labels, "submission:failed")
	}
	if sum.rejected > 0 {
		labels = append(labels, "submission:rejected-stale")
	}
	if sum.declinedNear > 0 {
		labels = append(labels, "declined:waiting-for-headers")
	}
	if sum.declinedFar > 0 {
		labels = append(labels, "declined:up-to-date")
	}
	if sum.waitedPolls > 1 {
		labels = append(labels, "waited-for-relay")
	}
	// non-trivial: the history crosses the threshold - it declines while the
	// headers are not all mined and later submits
	return sum.accepted > 0 && sum.declinedNear > 0, labels
}

// c43Run runs fn under a watchdog; false = did not finish (inconclusive).
func c43Run(w *c43World, fn func()) bool {
	done := make(chan struct{})
	go func() { defer close(done); fn() }()
	select {
	case <-done:
		return true
	case <-time.After(120 * time.Second):
		w.cancel()
		select {
		case <-done:
		case <-time.After(10 * time.Second):
		}
		return false
	}
}

func c43Inconclusive(t *rapid.T, why string) {
	fmt.Println("VERIF-INCONCLUSIVE: " + why)
	t.Fatalf("VERIF-INCONCLUSIVE: %s", why)
}

// ---------------------------------------------------------------------------

// TestVerif_C43_ProveNextEpoch: single proveNextEpoch calls on a chain that is
// around the threshold height; checks the decision (iff), the exact header
// window, the call used, and the documented return values.
func TestVerif_C43_ProveNextEpoch(t *testing.T) {
	st := verifkit.New("C43", "TestVerif_C43_ProveNextEpoch")
	defer st.Flush()
	rapid.Check(t, func(t *rapid.T) {
		calls := rapid.IntRange(1, 4).Draw(t, "calls")
		p := c43GenPlan(t, calls, rapid.IntRange(0, 2).Draw(t, "withFaults") == 0, 0)
		w, bdm, ctx := c43NewWorld(p)
		defer w.cancel()
		finished := c43Run(w, func() {
			for i := 0; i < calls; i++ {
				w.mu.Lock()
				w.add(c43Ev{kind: "enter"})
				w.mu.Unlock()
				proven, err := bdm.proveNextEpoch(ctx)
				ev := c43Ev{kind: "return", proven: proven}
				if err != nil {
					ev.errText = err.Error()
				}
				w.mu.Lock()
				w.add(ev)
				w.mu.Unlock()
			}
		})
		if !finished {
			c43Inconclusive(t, "proveNextEpoch did not return within 120s")
		}
		w.mu.Lock()
		defer w.mu.Unlock()
		sum, err := c43CheckLog(p, w, false)
		if err != nil {
			t.Fatalf("%v\nplan: %v\nlog: %s", err, p, c43RenderLog(w))
		}
		nt, labels := c43Labels(p, sum)
		st.Case(nt, fmt.Sprintf("%v :: %s", p, c43RenderLog(w)), labels...)
	})
}

func c43RunProveEpochs(w *c43World, bdm *bitcoinDifficultyMaintainer, ctx context.Context, maxRounds int) {
	for r := 0; r < maxRounds; r++ {
		w.mu.Lock()
		if w.ended || w.stuck {
			w.mu.Unlock()
			return
		}
		w.round = r
		w.add(c43Ev{kind: "enter"})
		w.mu.Unlock()
		err := bdm.proveEpochs(ctx)
		ev := c43Ev{kind: "return"}
		if err != nil {
			ev.errText = err.Error()
		}
		w.mu.Lock()
		w.add(ev)
		w.mu.Unlock()
	}
}

// TestVerif_C43_ProveEpochsHistory: the control loop body (proveEpochs) is
// restarted like startControlLoop does, over a growing chain with failures,
// changing readiness/authorization and competing maintainers.
func TestVerif_C43_ProveEpochsHistory(t *testing.T) {
	st := verifkit.New("C43", "TestVerif_C43_ProveEpochsHistory")
	defer st.Flush()
	rapid.Check(t, func(t *rapid.T) {
		steps := rapid.IntRange(2, 14).Draw(t, "heightQueries")
		p := c43GenPlan(t, steps, rapid.Bool().Draw(t, "withFaults"), 0)
		maxRounds := 6
		p.rounds = c43GenRounds(t, maxRounds)
		w, bdm, ctx := c43NewWorld(p)
		defer w.cancel()
		if !c43Run(w, func() { c43RunProveEpochs(w, bdm, ctx, maxRounds) }) {
			c43Inconclusive(t, "proveEpochs did not return within 120s")
		}
		w.mu.Lock()
		defer w.mu.Unlock()
		sum, err := c43CheckLog(p, w, true)
		if err != nil {
			t.Fatalf("%v\nplan: %v\nlog: %s", err, p, c43RenderLog(w))
		}
		nt, labels := c43Labels(p, sum)
		inel := 0
		for r := 0; r <= w.round && r < len(p.rounds); r++ {
			if !c43Eligible(p, p.rounds[r]) {
				inel++
			}
		}
		if inel > 0 {
			labels = append(labels, "round:not-ready-or-unauthorized")
		}
		st.Case(nt, fmt.Sprintf("%v :: %s", p, c43RenderLog(w)), labels...)
	})
}

// TestVerif_C43_WaitsForRelay: accepted submissions become visible only after
// one more poll of the relay (the maintainer's poll interval is a hard-coded
// second, so a few scenarios run concurrently per case).
func TestVerif_C43_WaitsForRelay(t *testing.T) {
	st := verifkit.New("C43", "TestVerif_C43_WaitsForRelay")
	defer st.Flush()
	rapid.Check(t, func(t *rapid.T) {
		const parallel = 8
		type scenario struct {
			p   c43Plan
			w   *c43World
			bdm *bitcoinDifficultyMaintainer
			ctx context.Context
			ok  bool
		}
		scs := make([]*scenario, parallel)
		for i := range scs {
			steps := rapid.IntRange(2, 5).Draw(t, "heightQueries")
			p := c43GenPlan(t, steps, false, 1)
			// at most two proofs per scenario: keep the chain near the threshold
			thr := c43Threshold(p.startEpoch, p.proofLength)
			if p.startHeight > thr+2 {
				p.startHeight = thr - uint64(rapid.IntRange(0, 2).Draw(t, "below"))
			}
			for k := range p.growth {
				if p.growth[k] > p.proofLength+2 {
					p.growth[k] = uint64(rapid.IntRange(0, 2).Draw(t, "smallGrowth"))
				}
			}
			p.rounds = []c43Flags{{1, 1, 1}}
			sc := &scenario{p: p}
			sc.w, sc.bdm, sc.ctx = c43NewWorld(p)
			scs[i] = sc
		}
		var wg sync.WaitGroup
		for _, sc := range scs {
			wg.Add(1)
			go func(sc *scenario) {
				defer wg.Done()
				sc.ok = c43Run(sc.w, func() { c43RunProveEpochs(sc.w, sc.bdm, sc.ctx, 1) })
			}(sc)
		}
		wg.Wait()
		for _, sc := range scs {
			sc.w.cancel()
			if !sc.ok {
				c43Inconclusive(t, "proveEpochs did not return within 120s")
			}
		}
		for _, sc := range scs {
			sc.w.mu.Lock()
			sum, err := c43CheckLog(sc.p, sc.w, true)
			if err != nil {
				sc.w.mu.Unlock()
				t.Fatalf("%v\nplan: %v\nlog: %s", err, sc.p, c43RenderLog(sc.w))
			}
			_, labels := c43Labels(sc.p, sum)
			// non-trivial here: the maintainer had to wait for the relay
			st.Case(sum.accepted > 0 && sum.waitedPolls > sum.accepted, fmt.Sprintf("%v :: %s", sc.p, c43RenderLog(sc.w)), labels...)
			sc.w.mu.Unlock()
		}
	})
}
