//go:build go1.23

package spv

import (
	"fmt"
	"math/big"
	"testing"

	"github.com/keep-network/keep-core/internal/verifkit"
	"github.com/keep-network/keep-core/pkg/bitcoin"
	"github.com/keep-network/keep-core/pkg/maintainer/btcdiff"
	"pgregory.net/rapid"
)

// Minimal chains: only what getProofInfo asks for. The embedded interfaces
// stay nil, so any other call would panic and show up as a failure.

// c32Faults is the fault plan shared by the three chain handles: the named
// query fails (RPC error) the next time it is made, every other query is
// answered.
type c32Faults struct {
	failing string
	hit     bool
	asked   []string
}

func (f *c32Faults) fails(query string) error {
	if f == nil {
		return nil
	}
	f.asked = append(f.asked, query)
	if f.failing == query {
		f.hit = true
		return fmt.Errorf("%s query failed: connection reset", query)
	}
	return nil
}

type c32BitcoinChain struct {
	bitcoin.Chain
	faults        *c32Faults
	latest        uint
	confirmations uint
}

func (c *c32BitcoinChain) GetLatestBlockHeight() (uint, error) {
	if err := c.faults.fails("height"); err != nil {
		return 0, err
	}
	return c.latest, nil
}

func (c *c32BitcoinChain) GetTransactionConfirmations(bitcoin.Hash) (uint, error) {
	if err := c.faults.fails("confirmations"); err != nil {
		return 0, err
	}
	return c.confirmations, nil
}

type c32SpvChain struct {
	Chain
	faults *c32Faults
	factor *big.Int
}

// The doubles hand out the SAME *big.Int objects on every call, as the
// package's own local chain (and any caching chain handle) does.
func (c *c32SpvChain) TxProofDifficultyFactor() (*big.Int, error) {
	if err := c.faults.fails("factor"); err != nil {
		return nil, err
	}
	return c.factor, nil
}

type c32RelayChain struct {
	btcdiff.Chain
	faults            *c32Faults
	epoch             uint64
	current, previous *big.Int
}

func (c *c32RelayChain) CurrentEpoch() (uint64, error) {
	if err := c.faults.fails("epoch"); err != nil {
		return 0, err
	}
	return c.epoch, nil
}

func (c *c32RelayChain) GetCurrentAndPrevEpochDifficulty() (*big.Int, *big.Int, error) {
	if err := c.faults.fails("difficulties"); err != nil {
		return nil, nil, err
	}
	return c.current, c.previous, nil
}

const c32EpochLength = 2016

// ---------------------------------------------------------------------------
// Generators.

func c32GenDifficulty(t *rapid.T, label string) *big.Int {
	switch rapid.IntRange(0, 5).Draw(t, label+"Kind") {
	case 0, 1:
		// mainnet-like magnitude
		return new(big.Int).SetUint64(rapid.Uint64Range(1e12, 1e14).Draw(t, label))
	case 2:
		return new(big.Int).SetUint64(rapid.Uint64Range(1, 100).Draw(t, label))
	case 3:
		// any bit length up to 80
		bits := rapid.IntRange(1, 80).Draw(t, label+"Bits")
		raw := rapid.SliceOfN(rapid.Byte(), 10, 10).Draw(t, label+"Raw")
		v := new(big.Int).SetBytes(raw)
		v.Rsh(v, uint(80-bits))
		v.SetBit(v, bits-1, 1)
		return v
	case 4:
		return new(big.Int).Lsh(big.NewInt(1), 80)
	default:
		return new(big.Int).SetUint64(rapid.Uint64Range(1, 1<<40).Draw(t, label))
	}
}

// the current difficulty in a drawn relation to the previous one
func c32GenCurrent(t *rapid.T, previous *big.Int) *big.Int {
	cur := new(big.Int)
	switch rapid.SampledFrom([]string{"retarget-down", "retarget-up", "equal", "multiple", "divisor", "extreme-down", "extreme-up", "independent", "off-by-one"}).Draw(t, "relation") {
	case "retarget-down":
		// real retargets are clamped to a factor of four
		pm := rapid.IntRange(250, 999).Draw(t, "permille")
		cur.Div(cur.Mul(previous, big.NewInt(int64(pm))), big.NewInt(1000))
	case "retarget-up":
		pm := rapid.IntRange(1001, 4000).Draw(t, "permille")
		cur.Div(cur.Mul(previous, big.NewInt(int64(pm))), big.NewInt(1000))
	case "equal":
		cur.Set(previous)
	case "multiple":
		cur.Mul(previous, big.NewInt(int64(rapid.IntRange(2, 9).Draw(t, "times"))))
	case "divisor":
		// previous is an exact multiple of current: the division has no remainder
		d := big.NewInt(int64(rapid.IntRange(2, 9).Draw(t, "divisor")))
		cur.Div(previous, d)
	case "extreme-down":
		cur.Rsh(previous, uint(rapid.IntRange(3, 40).Draw(t, "shift")))
	case "extreme-up":
		cur.Lsh(previous, uint(rapid.IntRange(3, 40).Draw(t, "shift")))
	case "off-by-one":
		// remainder of exactly one unit above / below an exact division
		cur.Add(previous, big.NewInt(int64(rapid.SampledFrom([]int{1, -1}).Draw(t, "delta"))))
	default:
		cur = c32GenDifficulty(t, "current")
	}
	if cur.Sign() <= 0 {
		cur.SetInt64(1)
	}
	// keep the number of required headers far below 2^63 (a proof of 2^40
	// headers is already absurd): current >= previous / 2^40
	floor := new(big.Int).Rsh(previous, 40)
	if cur.Cmp(floor) < 0 {
		cur.Set(floor)
	}
	return cur
}

type c32Case struct {
	latest, confirmations uint
	epoch                 uint64
	factor                uint64
	previous, current     *big.Int
	start                 uint64
}

func c32GenCase(t *rapid.T) c32Case {
	var c c32Case
	c.epoch = rapid.OneOf(
		rapid.SampledFrom([]uint64{392, 1, 2, 0, 3, 420}),
		rapid.Uint64Range(0, 1000),
		rapid.Uint64Range(0, 1<<24),
	).Draw(t, "relayEpoch")
	c.factor = rapid.OneOf(
		rapid.SampledFrom([]uint64{6, 1, 2, 40}),
		rapid.Uint64Range(1, 40),
	).Draw(t, "factor")
	if verifkit.Thorough() && rapid.IntRange(0, 49).Draw(t, "longProof") == 49 {
		c.factor = rapid.SampledFrom([]uint64{100, 2015, 2016, 2017, 4032, 4033}).Draw(t, "longFactor")
	}
	c32GenPosition(t, &c)
	c.previous = c32GenDifficulty(t, "previous")
	c.current = c32GenCurrent(t, c.previous)
	return c
}

// c32GenPosition draws where the transaction sits (first block of the proof,
// confirmations, latest height) for the relay epoch and factor of the case.
func c32GenPosition(t *rapid.T, c *c32Case) {
	// start block of the proof, placed around the epoch boundaries
	cur := c.epoch * c32EpochLength
	span := int64(c.factor) + 3
	anchor := rapid.SampledFrom([]string{"spanning", "current-start", "spanning", "previous-start", "spanning", "next-start", "anywhere"}).Draw(t, "anchor")
	var start int64
	switch anchor {
	case "spanning":
		// 1..factor-1 headers left in the previous epoch (by construction)
		if c.factor >= 2 && c.epoch >= 1 {
			start = int64(cur) - int64(rapid.Uint64Range(1, c.factor-1).Draw(t, "inPrevious"))
		} else {
			start = int64(cur) + rapid.Int64Range(-span, 3).Draw(t, "offset")
		}
	case "current-start":
		start = int64(cur) + rapid.Int64Range(-span, 3).Draw(t, "offset")
	case "previous-start":
		start = int64(cur) - c32EpochLength + rapid.Int64Range(-span, 3).Draw(t, "offset")
	case "next-start":
		start = int64(cur) + c32EpochLength + rapid.Int64Range(-span, 3).Draw(t, "offset")
	default:
		start = int64(cur) + rapid.Int64Range(-3*c32EpochLength, 3*c32EpochLength).Draw(t, "offset")
	}
	if start < 0 {
		start = 0
	}
	c.start = uint64(start)
	// confirmations: around the factor, sometimes many, rarely none
	conf := rapid.OneOf(
		rapid.Uint64Range(1, c.factor+3),
		rapid.Uint64Range(1, 5000),
		rapid.SampledFrom([]uint64{1, 0}),
	).Draw(t, "confirmations")
	if c.start == 0 && conf == 0 {
		conf = 1
	}
	c.confirmations = uint(conf)
	c.latest = uint(c.start + conf - 1)
}

// ---------------------------------------------------------------------------
// Model: classification by walking the blocks of the proof range.

type c32Class int

const (
	c32Outside c32Class = iota
	c32Current
	c32Previous
	c32Spanning
)

func (c c32Class) String() string {
	return []string{"outside", "current", "previous", "spanning"}[c]
}

// returns the class and the number of proof blocks in the previous epoch
func c32Classify(start, factor, epoch uint64) (c32Class, uint64) {
	var inPrev, inCur, elsewhere uint64
	for b := start; b < start+factor; b++ {
		e := b / c32EpochLength
		switch {
		case e == epoch:
			inCur++
		case epoch > 0 && e == epoch-1:
			inPrev++
		default:
			elsewhere++
		}
	}
	switch {
	case elsewhere > 0:
		return c32Outside, 0
	case inPrev == 0:
		return c32Current, 0
	case inCur == 0:
		return c32Previous, inPrev
	default:
		return c32Spanning, inPrev
	}
}

// accumulated difficulty of nPrev previous-epoch headers and k current-epoch
// headers reaches factor x previous difficulty
func c32Enough(nPrev, k, factor uint64, previous, current *big.Int) bool {
	have := new(big.Int).Mul(new(big.Int).SetUint64(nPrev), previous)
	have.Add(have, new(big.Int).Mul(new(big.Int).SetUint64(k), current))
	need := new(big.Int).Mul(new(big.Int).SetUint64(factor), previous)
	return have.Cmp(need) >= 0
}

func TestVerif_C32_ProofInfo(t *testing.T) {
	st := verifkit.New("C32", "TestVerif_C32_ProofInfo")
	defer st.Flush()
	rapid.Check(t, func(t *rapid.T) {
		c := c32GenCase(t)
		// One set of chain handles serves 1..3 calls (the maintainer asks for
		// every unproven transaction in turn). The handles keep their own
		// big integers; c.previous / c.current / c.factor stay the model's.
		spvChain := &c32SpvChain{factor: new(big.Int).SetUint64(c.factor)}
		relay := &c32RelayChain{epoch: c.epoch, current: new(big.Int).Set(c.current), previous: new(big.Int).Set(c.previous)}
		nCalls := rapid.SampledFrom([]int{2, 3, 1, 2}).Draw(t, "calls")
		spanningBefore := 0
		for call := 1; call <= nCalls; call++ {
			if call > 1 && rapid.IntRange(0, 2).Draw(t, "otherTransaction") > 0 {
				c32GenPosition(t, &c)
			}
			// fault plan of this call: in a quarter of the calls one of the
			// five chain queries fails (biased to the difficulty query, which
			// is only made for a proof that spans the two epochs)
			faults := &c32Faults{}
			if rapid.IntRange(0, 3).Draw(t, "withFault") == 3 {
				faults.failing = rapid.SampledFrom([]string{"difficulties", "difficulties", "difficulties", "height", "confirmations", "factor", "epoch"}).Draw(t, "failingQuery")
			}
			btc := &c32BitcoinChain{faults: faults, latest: c.latest, confirmations: c.confirmations}
			spvChain.faults, relay.faults = faults, faults

			ok, accumulated, required, err := getProofInfo(bitcoin.Hash{byte(call)}, btc, spvChain, relay)
			faultLabel := "fault:none"
			if faults.failing != "" {
				faultLabel = "fault:" + faults.failing + "/not-asked"
				if faults.hit {
					faultLabel = "fault:" + faults.failing + "/asked"
				}
			}
			if err != nil {
				if !faults.hit {
					t.Fatalf("getProofInfo failed although every chain query was answered: %v", err)
				}
				// failing is always allowed; nothing is claimed about the values
				faultClass, _ := c32Classify(c.start, c.factor, c.epoch)
				st.Case(faultClass == c32Spanning && faults.failing == "difficulties",
					fmt.Sprintf("call %d/%d latest=%d conf=%d relayEpoch=%d factor=%d prev=%s cur=%s fault=%s -> error", call, nCalls, c.latest, c.confirmations, c.epoch, c.factor, c.previous, c.current, faults.failing),
					"class:"+faultClass.String(), faultLabel, "outcome:error", fmt.Sprintf("call:%d", call))
				continue
			}
			// A result - also one returned although a query failed - is held
			// against the model: a failed query may be answered with an error,
			// never with a guessed classification or header count.
			// the chain handles' values belong to the handles
			if relay.previous.Cmp(c.previous) != 0 || relay.current.Cmp(c.current) != 0 || spvChain.factor.Cmp(new(big.Int).SetUint64(c.factor)) != 0 {
				t.Fatalf("call %d changed the numbers held by the chain handles: previous difficulty %s (was %s), current %s (was %s), factor %s (was %d)",
					call, relay.previous, c.previous, relay.current, c.current, spvChain.factor, c.factor)
			}

			class, nPrev := c32Classify(c.start, c.factor, c.epoch)
			render := fmt.Sprintf("call %d/%d latest=%d conf=%d (start=%d, epoch %d block %d) relayEpoch=%d factor=%d prev=%s cur=%s",
				call, nCalls, c.latest, c.confirmations, c.start, c.start/c32EpochLength, c.start%c32EpochLength, c.epoch, c.factor, c.previous, c.current)

			// classification, both directions
			if ok != (class != c32Outside) {
				t.Fatalf("proof range classified within-relay-range=%v, the blocks %d..%d are %s relative to relay epoch %d\n %s",
					ok, c.start, c.start+c.factor-1, class, c.epoch, render)
			}
			relation := "n/a"
			delta := "n/a"
			switch class {
			case c32Outside:
				if accumulated != 0 || required != 0 {
					t.Fatalf("out-of-range proof reported confirmations %d / required %d, want 0 / 0\n %s", accumulated, required, render)
				}
			case c32Current, c32Previous:
				if accumulated != c.confirmations {
					t.Fatalf("accumulated confirmations %d, the chain reports %d\n %s", accumulated, c.confirmations, render)
				}
				if uint64(required) != c.factor {
					t.Fatalf("proof entirely in the %s epoch requires %d headers, want the factor %d\n %s", class, required, c.factor, render)
				}
			case c32Spanning:
				if accumulated != c.confirmations {
					t.Fatalf("accumulated confirmations %d, the chain reports %d\n %s", accumulated, c.confirmations, render)
				}
				if uint64(required) < nPrev {
					t.Fatalf("required %d headers, fewer than the %d headers left in the previous epoch\n %s", required, nPrev, render)
				}
				k := uint64(required) - nPrev
				// sufficient
				if !c32Enough(nPrev, k, c.factor, c.previous, c.current) {
					t.Fatalf("required %d headers (%d previous-epoch + %d current-epoch) accumulate less than %d x previous difficulty\n %s",
						required, nPrev, k, c.factor, render)
				}
				// minimal
				if k > 0 && c32Enough(nPrev, k-1, c.factor, c.previous, c.current) {
					t.Fatalf("required %d headers (%d previous-epoch + %d current-epoch) but one header fewer already reaches %d x previous difficulty\n %s",
						required, nPrev, k, c.factor, render)
				}
				// differential: the smallest k by linear search, where that is cheap
				if k <= 20000 {
					want := uint64(0)
					for !c32Enough(nPrev, want, c.factor, c.previous, c.current) {
						want++
					}
					if want != k {
						t.Fatalf("required %d current-epoch headers, linear search finds %d\n %s", k, want, render)
					}
				}
				switch c.current.Cmp(c.previous) {
				case 0:
					relation = "equal"
				case 1:
					relation = "increase"
				default:
					relation = "decrease"
				}
				switch {
				case uint64(required) > c.factor:
					delta = "more-than-factor"
				case uint64(required) < c.factor:
					delta = "fewer-than-factor"
				default:
					delta = "equals-factor"
				}
			}
			// where an out-of-range proof lies
			where := ""
			if class == c32Outside {
				switch {
				case (c.start+c.factor-1)/c32EpochLength > c.epoch:
					where = "outside:after-current"
				case c.epoch == 0 || c.start/c32EpochLength < c.epoch-1:
					where = "outside:before-previous"
				default:
					where = "outside:other"
				}
			}
			nt := class == c32Spanning && c.current.Cmp(c.previous) != 0
			history := ""
			if class == c32Spanning {
				history = fmt.Sprintf("spanning-calls-before-on-same-handles:%d", spanningBefore)
				spanningBefore++
			}
			st.Case(nt, fmt.Sprintf("%s -> %v/%d/%d", render, ok, accumulated, required),
				"class:"+class.String(), "difficulty:"+relation, "required:"+delta, where, fmt.Sprintf("call:%d", call), history, faultLabel, "outcome:result")
		}
	})
}
