//go:build go1.23

package gjkr

import (
	"context"
	"fmt"
	"math/big"
	"testing"
	"time"

	"github.com/keep-network/keep-core/internal/testutils"
	"github.com/keep-network/keep-core/internal/verifkit"
	"github.com/keep-network/keep-core/pkg/net"
	"github.com/keep-network/keep-core/pkg/protocol/group"
	"github.com/keep-network/keep-core/pkg/protocol/state"
	"pgregory.net/rapid"
)

// c14NullChannel: a broadcast channel on which nobody else ever speaks.
type c14NullChannel struct{}

func (c *c14NullChannel) Name() string { return "c14-null" }
func (c *c14NullChannel) Send(ctx context.Context, m net.TaggedMarshaler, s ...net.RetransmissionStrategy) error {
	return nil
}
func (c *c14NullChannel) Recv(ctx context.Context, handler func(m net.Message))   {}
func (c *c14NullChannel) SetUnmarshaler(unmarshaler func() net.TaggedUnmarshaler) {}
func (c *c14NullChannel) SetFilter(filter net.BroadcastChannelFilter) error       { return nil }

func c14InitialState(memberIndex group.MemberIndex, groupSize, dishonest int, seed *big.Int) (state.SyncState, error) {
	member, err := NewMember(&testutils.MockLogger{}, memberIndex, groupSize, dishonest, nil, seed, seed.Text(16))
	if err != nil {
		return nil, err
	}
	return &ephemeralKeyPairGenerationState{channel: &c14NullChannel{}, member: member.InitializeEphemeralKeysGeneration()}, nil
}

// TestVerif_C14_GJKRChainDuration: the states of the real GJKR protocol,
// walked through Next() from the initial state, add up to ProtocolBlocks()
// and end in the finalization state - so a machine started at block s reports
// s + ProtocolBlocks() for every member, whatever its index and group size.
func TestVerif_C14_GJKRChainDuration(t *testing.T) {
	st := verifkit.New("C14", "TestVerif_C14_GJKRChainDuration")
	defer st.Flush()
	rapid.Check(t, func(t *rapid.T) {
		n := rapid.IntRange(1, 64).Draw(t, "groupSize")
		idx := group.MemberIndex(rapid.IntRange(1, n).Draw(t, "member"))
		dishonest := rapid.IntRange(0, (n-1)/2).Draw(t, "dishonestThreshold")
		seed := big.NewInt(int64(rapid.IntRange(1, 1<<30).Draw(t, "seed")))
		cur, err := c14InitialState(idx, n, dishonest, seed)
		if err != nil {
			t.Fatalf("initial state: %v", err)
		}
		var total uint64
		var shape []string
		count := 0
		var last state.SyncState
		for cur != nil {
			count++
			if count > 64 {
				t.Fatalf("state chain does not end after 64 states")
			}
			if cur.MemberIndex() != idx {
				t.Fatalf("state %T reports member index %d, expected %d", cur, cur.MemberIndex(), idx)
			}
			total += cur.DelayBlocks() + cur.ActiveBlocks()
			shape = append(shape, fmt.Sprintf("%d+%d", cur.DelayBlocks(), cur.ActiveBlocks()))
			last = cur
			next, err := cur.Next()
			if err != nil {
				t.Fatalf("Next of %T: %v", cur, err)
			}
			cur = next
		}
		if _, ok := last.(*finalizationState); !ok {
			t.Fatalf("chain ends in %T, not in the finalization state", last)
		}
		if total != ProtocolBlocks() {
			t.Fatalf("the states add up to %d blocks %v, ProtocolBlocks() says %d", total, shape, ProtocolBlocks())
		}
		st.Case(true, fmt.Sprintf("N=%d member=%d dishonest=%d states=%d total=%d", n, idx, dishonest, count, total), fmt.Sprintf("states:%d", count))
	})
}

// TestVerif_C14_GJKRLoneMemberEndBlock: the real gjkr.Execute of a member
// that hears nobody, on the harness's block counter, returns exactly
// start + ProtocolBlocks() - and not before that block was mined.
func TestVerif_C14_GJKRLoneMemberEndBlock(t *testing.T) {
	st := verifkit.New("C14", "TestVerif_C14_GJKRLoneMemberEndBlock")
	defer st.Flush()
	rapid.Check(t, func(t *rapid.T) {
		n := rapid.IntRange(1, 5).Draw(t, "groupSize")
		idx := group.MemberIndex(rapid.IntRange(1, n).Draw(t, "member"))
		dishonest := (n - 1) / 2
		start := uint64(rapid.IntRange(2, 100_000).Draw(t, "start"))
		h0 := uint64(int(start) - rapid.IntRange(0, 2).Draw(t, "blocksBeforeStart"))
		seed := big.NewInt(int64(rapid.IntRange(1, 1<<30).Draw(t, "seed")))
		bc := verifkit.NewFakeBlockCounter(h0)
		type out struct {
			end uint64
			err error
		}
		done := make(chan out, 1)
		go func() {
			_, end, err := Execute(&testutils.MockLogger{}, seed, seed.Text(16), idx, n, bc, &c14NullChannel{}, dishonest, nil, start)
			done <- out{end, err}
		}()
		want := start + ProtocolBlocks()
		defer bc.AdvanceTo(want + 8)
		desc := fmt.Sprintf("N=%d member=%d start=%d h0=%d", n, idx, start, h0)
		var res out
		finished := false
		for !finished {
			if !verifkit.Eventually(60*time.Second, func() bool { p, _ := bc.Pending(); return p >= 1 || len(done) > 0 }) {
				fmt.Println("VERIF-INCONCLUSIVE: GJKR member neither waits for a block nor returns")
				t.Fatalf("VERIF-INCONCLUSIVE: member stuck at block %d; %s", bc.Height(), desc)
			}
			if p, _ := bc.Pending(); p == 0 {
				res = <-done
				finished = true
				break
			}
			if bc.Height() > want+2 {
				t.Fatalf("member still running at block %d, the protocol ends at %d; %s", bc.Height(), want, desc)
			}
			bc.Advance(1)
		}
		if res.err != nil {
			// a lone member of a larger group may legitimately fail the
			// protocol; the property is about timing only
			st.Case(false, desc+" error: "+res.err.Error(), "outcome:error")
			return
		}
		if bc.Height() != want {
			t.Fatalf("Execute returned when block %d was mined, the protocol ends at start + ProtocolBlocks() = %d; %s", bc.Height(), want, desc)
		}
		if res.end != want {
			t.Fatalf("Execute reports end block %d, expected start + ProtocolBlocks() = %d + %d = %d; %s", res.end, start, ProtocolBlocks(), want, desc)
		}
		st.Case(true, desc, "outcome:ok", fmt.Sprintf("size:%d", n))
	})
}
