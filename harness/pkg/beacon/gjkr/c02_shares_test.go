//go:build go1.23

package gjkr

import (
	"fmt"
	"math/big"
	"testing"

	bn256 "github.com/ethereum/go-ethereum/crypto/bn256/cloudflare"
	"github.com/keep-network/keep-core/internal/verifkit"
	"github.com/keep-network/keep-core/pkg/protocol/group"
	"pgregory.net/rapid"
)

// independent Lagrange interpolation at 0 over Z_q
func c02InterpolateAtZero(ids []group.MemberIndex, shares []*big.Int) *big.Int {
	q := bn256.Order
	sum := new(big.Int)
	for i, xi := range ids {
		num, den := big.NewInt(1), big.NewInt(1)
		for j, xj := range ids {
			if i == j {
				continue
			}
			num.Mul(num, big.NewInt(-int64(xj)))
			num.Mod(num, q)
			den.Mul(den, big.NewInt(int64(xi)-int64(xj)))
			den.Mod(den, q)
		}
		l := new(big.Int).Mul(num, new(big.Int).ModInverse(den, q))
		l.Mul(l, shares[i])
		sum.Add(sum, l)
		sum.Mod(sum, q)
	}
	return sum
}

func c02Subsets(n, k int, limit int) [][]int {
	var out [][]int
	var rec func(start int, cur []int)
	rec = func(start int, cur []int) {
		if len(out) >= limit {
			return
		}
		if len(cur) == k {
			out = append(out, append([]int{}, cur...))
			return
		}
		for i := start; i < n; i++ {
			rec(i+1, append(cur, i))
		}
	}
	rec(0, nil)
	return out
}

func c02CheckShares(t *rapid.T, run *c12Run) (subsetsChecked int) {
	fin := run.finishedHonest()
	if len(fin) == 0 {
		return 0
	}
	// 1. x_i * G2 equals the public key share every other honest member computed for i
	pub := map[group.MemberIndex]*bn256.G2{}
	for _, m := range fin {
		if m.result.GroupPrivateKeyShare == nil {
			t.Fatalf("honest member %d finished without a private key share; %s", m.idx, run.describe())
		}
		pub[m.idx] = new(bn256.G2).ScalarBaseMult(m.result.GroupPrivateKeyShare)
	}
	for _, j := range fin {
		shares := j.result.GroupPublicKeyShares()
		for _, i := range fin {
			if i.idx == j.idx {
				continue
			}
			s, ok := shares[i.idx]
			if !ok {
				t.Fatalf("honest member %d computed no public key share for honest member %d; %s", j.idx, i.idx, run.describe())
			}
			if s.String() != pub[i.idx].String() {
				t.Fatalf("public key share that member %d computed for member %d differs from G2 * (private share of %d); %s", j.idx, i.idx, i.idx, run.describe())
			}
		}
	}
	// 2. every (t+1)-subset of honest shares interpolates to the group secret
	k := run.t + 1
	if len(fin) < k || fin[0].result.GroupPublicKey == nil {
		return 0
	}
	gpk := fin[0].result.GroupPublicKey.String()
	for _, sub := range c02Subsets(len(fin), k, 64) {
		var ids []group.MemberIndex
		var xs []*big.Int
		for _, p := range sub {
			ids = append(ids, fin[p].idx)
			xs = append(xs, fin[p].result.GroupPrivateKeyShare)
		}
		secret := c02InterpolateAtZero(ids, xs)
		if new(bn256.G2).ScalarBaseMult(secret).String() != gpk {
			t.Fatalf("private shares of honest members %v interpolate to a secret whose public key is NOT the group public key; %s", ids, run.describe())
		}
		subsetsChecked++
	}
	return subsetsChecked
}

func TestVerif_C02_SharesConsistent(t *testing.T) {
	st := verifkit.New("C02", "TestVerif_C02_SharesConsistent")
	defer st.Flush()
	rapid.Check(t, func(t *rapid.T) {
		run := c12Setup(t, c12Config{maxN: c12MaxN(), allowNoAttack: true})
		run.execute(t)
		n := c02CheckShares(t, run)
		fin := run.finishedHonest()
		labels := run.firedLabels()
		labels = append(labels, fmt.Sprintf("n:%d", run.n), fmt.Sprintf("subsets-checked:%d", min(n, 10)))
		if len(fin) > 0 && len(fin[0].reconstructedFor()) > 0 {
			labels = append(labels, "qual-member-reconstructed")
		}
		st.Case(len(run.fired) > 0 && n > 0, run.describe(), labels...)
	})
}
