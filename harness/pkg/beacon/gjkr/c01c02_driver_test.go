//go:build go1.23

package gjkr

// Lockstep adversarial driver for the beacon DKG (properties C01 and C02).
//
// Every group member - honest and corrupt - walks the REAL state chain
// (Initiate / Receive / Next of the states in states.go). Messages sent by the
// states are captured by a fake broadcast channel. The messages of corrupt
// members are rewritten by a rapid-drawn corruption plan that has full access
// to the corrupt member's secret state, then every message goes through
// Marshal/Unmarshal (so only wire-representable messages are delivered) and is
// delivered to every receiver in a rapid-drawn interleaving that preserves
// each sender's order (consistent broadcast).

import (
	"context"
	crand "crypto/rand"
	"fmt"
	"math/big"
	"os"
	"sort"
	"strings"
	"sync"

	bn256 "github.com/ethereum/go-ethereum/crypto/bn256/cloudflare"
	"github.com/keep-network/keep-core/internal/testutils"
	"github.com/keep-network/keep-core/pkg/chain"
	"github.com/keep-network/keep-core/pkg/chain/local_v1"
	"github.com/keep-network/keep-core/pkg/crypto/ephemeral"
	"github.com/keep-network/keep-core/pkg/net"
	"github.com/keep-network/keep-core/pkg/operator"
	"github.com/keep-network/keep-core/pkg/protocol/group"
	"github.com/keep-network/keep-core/pkg/protocol/state"
	"pgregory.net/rapid"
)

// ---------------------------------------------------------------- plumbing

type c12Chan struct {
	mu  sync.Mutex
	out []net.TaggedMarshaler
}

func (c *c12Chan) Name() string { return "c12" }
func (c *c12Chan) Send(_ context.Context, m net.TaggedMarshaler, _ ...net.RetransmissionStrategy) error {
	c.mu.Lock()
	c.out = append(c.out, m)
	c.mu.Unlock()
	return nil
}
func (c *c12Chan) Recv(context.Context, func(net.Message))     {}
func (c *c12Chan) SetUnmarshaler(func() net.TaggedUnmarshaler) {}
func (c *c12Chan) SetFilter(net.BroadcastChannelFilter) error  { return nil }
func (c *c12Chan) take() []net.TaggedMarshaler {
	c.mu.Lock()
	defer c.mu.Unlock()
	o := c.out
	c.out = nil
	return o
}

type c12TransportID string

func (t c12TransportID) String() string { return string(t) }

type c12NetMsg struct {
	sender  c12TransportID
	pubKey  []byte
	payload interface{}
	typ     string
	seq     uint64
}

func (m *c12NetMsg) TransportSenderID() net.TransportIdentifier { return m.sender }
func (m *c12NetMsg) SenderPublicKey() []byte                    { return m.pubKey }
func (m *c12NetMsg) Payload() interface{}                       { return m.payload }
func (m *c12NetMsg) Type() string                               { return m.typ }
func (m *c12NetMsg) Seqno() uint64                              { return m.seq }

type c12Wire struct {
	typ    string
	bytes  []byte
	pubKey []byte
	from   group.MemberIndex // the seat whose operator really sent it
}

func c12NewOf(typ string) net.TaggedUnmarshaler {
	switch typ {
	case (&EphemeralPublicKeyMessage{}).Type():
		return &EphemeralPublicKeyMessage{}
	case (&MemberCommitmentsMessage{}).Type():
		return &MemberCommitmentsMessage{}
	case (&PeerSharesMessage{}).Type():
		return &PeerSharesMessage{}
	case (&SecretSharesAccusationsMessage{}).Type():
		return &SecretSharesAccusationsMessage{}
	case (&MemberPublicKeySharePointsMessage{}).Type():
		return &MemberPublicKeySharePointsMessage{}
	case (&PointsAccusationsMessage{}).Type():
		return &PointsAccusationsMessage{}
	case (&MisbehavedEphemeralKeysMessage{}).Type():
		return &MisbehavedEphemeralKeysMessage{}
	}
	return nil
}

type c12Member struct {
	idx      group.MemberIndex
	operator int
	corrupt  bool
	pubKey   []byte
	st       state.SyncState
	ch       *c12Chan
	dead     bool
	deadWhy  string
	deadAt   string
	finished bool
	result   *Result
	// last messages sent by this member in earlier phases (for replays)
	history []net.TaggedMarshaler
	// corrupt members behave honestly before their focus phase so that deep
	// phases are reached by members that are still in good standing
	focus int
	// scripted multi-step collusion scenario (phase -> behaviour); a member
	// with a script behaves honestly in the phases the script does not name
	script     map[string]string
	scriptPeer group.MemberIndex
}

var c12SendingPhases = []string{"p1", "p3", "p4", "p7", "p8", "p10"}

func c12SendingPhaseIndex(p string) int {
	for i, s := range c12SendingPhases {
		if s == p {
			return i
		}
	}
	return -1
}

type c12Run struct {
	n, t    int
	members []*c12Member // index i-1
	seatOps []int
	plan    []string // human readable behaviours that fired
	fired   map[string]bool
	// wire-level malformations are drawn in a quarter of the runs only: a
	// message malformed on the wire is dropped by everybody, which ends the
	// sender's part in the run and hides everything it would do later
	wire      bool
	honestIdx []group.MemberIndex
	session   string
}

func (r *c12Run) note(format string, a ...interface{}) {
	s := fmt.Sprintf(format, a...)
	r.plan = append(r.plan, s)
}

func c12PhaseName(st state.SyncState) string {
	switch st.(type) {
	case *ephemeralKeyPairGenerationState:
		return "p1"
	case *symmetricKeyGenerationState:
		return "p2"
	case *commitmentState:
		return "p3"
	case *commitmentsVerificationState:
		return "p4"
	case *sharesJustificationState:
		return "p5"
	case *qualificationState:
		return "p6"
	case *pointsShareState:
		return "p7"
	case *pointsValidationState:
		return "p8"
	case *pointsJustificationState:
		return "p9"
	case *keyRevealState:
		return "p10"
	case *reconstructionState:
		return "p11"
	case *combinationState:
		return "p12"
	case *finalizationState:
		return "final"
	}
	return fmt.Sprintf("%T", st)
}

var c12Order = bn256.Order

func c12RandScalar() *big.Int {
	for {
		k, err := crand.Int(crand.Reader, c12Order)
		if err == nil && k.Sign() > 0 {
			return k
		}
	}
}

func c12FreshKey() *ephemeral.PrivateKey {
	kp, err := ephemeral.GenerateKeyPair()
	if err != nil {
		panic(err)
	}
	return kp.PrivateKey
}

// ---------------------------------------------------------------- set-up

type c12Config struct {
	maxN          int
	allowNoAttack bool
}

func c12Setup(t *rapid.T, cfg c12Config) *c12Run {
	n := rapid.IntRange(3, cfg.maxN).Draw(t, "groupSize")
	if n < 5 && cfg.maxN >= 5 && rapid.Bool().Draw(t, "atLeastFive") {
		n = 5 // groups of 3 and 4 admit a single corrupt seat only
	}
	if rapid.IntRange(0, 9).Draw(t, "bigGroup") == 0 {
		n = 7 // three corrupt seats possible (three-member collusion scenarios)
	}
	maxT := (n - 1) / 2
	// bias to the largest supported dishonest threshold
	thr := maxT
	if maxT > 1 && rapid.IntRange(0, 3).Draw(t, "thrBias") == 0 {
		thr = rapid.IntRange(1, maxT).Draw(t, "threshold")
	}
	// operators and seats: some operators hold several seats
	nOps := rapid.IntRange(2, n).Draw(t, "operators")
	if rapid.IntRange(0, 2).Draw(t, "oneSeatEach") == 0 {
		nOps = n
	}
	seatOps := make([]int, n)
	for i := 0; i < n; i++ {
		if i < nOps {
			seatOps[i] = i
		} else {
			seatOps[i] = rapid.IntRange(0, nOps-1).Draw(t, "seatOp")
		}
	}
	seatOps = rapid.Permutation(seatOps).Draw(t, "seatLayout")

	localChain := local_v1.Connect(n, n-thr)
	signing := localChain.Signing()
	opPub := make([][]byte, nOps)
	opAddr := make([]chain.Address, nOps)
	for o := 0; o < nOps; o++ {
		_, pk, err := operator.GenerateKeyPair(local_v1.DefaultCurve)
		if err != nil {
			t.Fatalf("keygen: %v", err)
		}
		addr, err := signing.PublicKeyToAddress(pk)
		if err != nil {
			t.Fatalf("address: %v", err)
		}
		opPub[o] = operator.MarshalUncompressed(pk)
		opAddr[o] = addr
	}
	addresses := make([]chain.Address, n)
	for i := range addresses {
		addresses[i] = opAddr[seatOps[i]]
	}

	// corrupt operators: all seats of a corrupt operator are corrupt, total <= thr
	seatsOf := map[int][]int{}
	for i, o := range seatOps {
		seatsOf[o] = append(seatsOf[o], i)
	}
	opOrder := rapid.Permutation(c12Range(nOps)).Draw(t, "corruptOrder")
	budget := thr
	wantCorrupt := rapid.IntRange(0, thr).Draw(t, "corruptBudget")
	if !cfg.allowNoAttack && wantCorrupt == 0 {
		wantCorrupt = 1
	}
	if rapid.IntRange(0, 2).Draw(t, "fullBudget") > 0 {
		wantCorrupt = thr
	}
	corruptSeat := make([]bool, n)
	nCorrupt := 0
	for _, o := range opOrder {
		if nCorrupt >= wantCorrupt {
			break
		}
		if len(seatsOf[o]) <= budget-nCorrupt {
			for _, s := range seatsOf[o] {
				corruptSeat[s] = true
				nCorrupt++
			}
		}
	}

	run := &c12Run{n: n, t: thr, seatOps: seatOps, fired: map[string]bool{}, session: "session-verif"}
	seed := big.NewInt(int64(rapid.IntRange(1, 1<<30).Draw(t, "dkgSeed")))
	for i := 0; i < n; i++ {
		validator := group.NewMembershipValidator(&testutils.MockLogger{}, addresses, signing)
		lm, err := NewMember(&testutils.MockLogger{}, group.MemberIndex(i+1), n, thr, validator, seed, run.session)
		if err != nil {
			t.Fatalf("NewMember: %v", err)
		}
		ch := &c12Chan{}
		m := &c12Member{
			idx: group.MemberIndex(i + 1), operator: seatOps[i], corrupt: corruptSeat[i],
			pubKey: opPub[seatOps[i]], ch: ch,
			st: &ephemeralKeyPairGenerationState{channel: ch, member: lm.InitializeEphemeralKeysGeneration()},
		}
		if m.corrupt {
			// weights: p1:1 p3:3 p4:2 p7:4 p8:2 p10:3
			m.focus = []int{0, 1, 1, 1, 2, 2, 3, 3, 3, 3, 4, 4, 5, 5, 5}[rapid.IntRange(0, 14).Draw(t, fmt.Sprintf("focus-m%d", i+1))]
		}
		run.members = append(run.members, m)
		if !m.corrupt {
			run.honestIdx = append(run.honestIdx, m.idx)
		}
	}
	run.wire = rapid.IntRange(0, 3).Draw(t, "wireMalformations") == 0
	c12DrawScenario(t, run)
	return run
}

// Structured collusion scenarios between two corrupt seats. Random per-phase
// behaviours reach them only with tiny probability (three coordinated events),
// so a share of the cases scripts them; everything else stays random.
func c12DrawScenario(t *rapid.T, run *c12Run) {
	var corrupt []*c12Member
	for _, m := range run.members {
		if m.corrupt {
			corrupt = append(corrupt, m)
		}
	}
	if len(corrupt) >= 3 && rapid.IntRange(0, 1).Draw(t, "scenario3") == 0 {
		// two members of QUAL fail in phase 7 (two reconstructions) and a third
		// corrupt member reveals a wrong key for one of them only, so the two
		// reconstructions interpolate over DIFFERENT sets of revealing members
		perm := rapid.Permutation(corrupt).Draw(t, "scenarioRoles3")
		a, b, c := perm[0], perm[1], perm[2]
		for _, m := range []*c12Member{a, b} {
			m.script = map[string]string{"p7": rapid.SampledFrom([]string{"silent", "points-random"}).Draw(t, fmt.Sprintf("scn3P7-%d", m.idx)), "p8": "silent", "p10": "silent"}
		}
		c.script = map[string]string{"p10": rapid.SampledFrom([]string{"reveal-wrong-key-peer", "reveal-omit-peer"}).Draw(t, "scn3Reveal")}
		c.scriptPeer = a.idx
		run.note("scenario two-reconstructions-different-revealers m%d m%d, m%d reveals badly for m%d", a.idx, b.idx, c.idx, a.idx)
		run.fired["scenario:two-reconstructions-different-revealers"] = true
		return
	}
	if len(corrupt) < 2 || rapid.IntRange(0, 1).Draw(t, "scenario") != 0 {
		return
	}
	perm := rapid.Permutation(corrupt).Draw(t, "scenarioRoles")
	a, b := perm[0], perm[1]
	// kinds with two variants (shares / points) are drawn twice as often
	switch rapid.SampledFrom([]int{0, 1, 2, 3, 4, 4, 5, 6, 6, 7, 8, 9, 10, 11, 11, 12}).Draw(t, "scenarioKind") {
	case 0:
		// a sends b a bad share, b keeps quiet about it, a then fails in
		// phase 7 so its key must be reconstructed; b reveals (or not)
		a.script = map[string]string{"p3": rapid.SampledFrom([]string{"wrong-shares-for-peer", "garbage-shares-for-peer"}).Draw(t, "scnShare"),
			"p7": rapid.SampledFrom([]string{"silent", "points-random"}).Draw(t, "scnP7"), "p8": "silent", "p10": "silent"}
		a.scriptPeer = b.idx
		// b's own (honest) code disqualified a when it saw the bad share, so
		// its honest phase 10 message would not reveal the key for a; a
		// colluding b reveals it as if nothing had happened (or stays silent)
		b.script = map[string]string{"p4": "withhold-against-peer", "p10": "reveal-add-peer"}
		if rapid.IntRange(0, 2).Draw(t, "scnBSilentReveal") == 0 {
			b.script["p10"] = "silent"
		}
		b.scriptPeer = a.idx
		run.note("scenario unreported-bad-share m%d->m%d", a.idx, b.idx)
		run.fired["scenario:unreported-bad-share"] = true
	case 1:
		// two members of QUAL fail in phase 7: two reconstructions in one run
		for _, m := range []*c12Member{a, b} {
			m.script = map[string]string{"p7": rapid.SampledFrom([]string{"silent", "points-random", "points-short"}).Draw(t, fmt.Sprintf("scnP7-%d", m.idx)), "p8": "silent", "p10": "silent"}
		}
		run.note("scenario two-reconstructions m%d m%d", a.idx, b.idx)
		run.fired["scenario:two-reconstructions"] = true
	case 2:
		// a needs reconstruction, b reveals keys selectively / wrongly
		a.script = map[string]string{"p7": "silent", "p8": "silent", "p10": "silent"}
		b.script = map[string]string{"p10": rapid.SampledFrom([]string{"reveal-omit-peer", "reveal-wrong-key-peer"}).Draw(t, "scnReveal")}
		b.scriptPeer = a.idx
		run.note("scenario bad-reveal m%d about m%d", b.idx, a.idx)
		run.fired["scenario:bad-reveal"] = true
	case 3:
		// a sends b a bad share; b accuses honestly, a accuses b falsely
		a.script = map[string]string{"p3": "wrong-shares-for-peer", "p4": "accuse-peer"}
		a.scriptPeer = b.idx
		b.script = map[string]string{}
		b.scriptPeer = a.idx
		run.note("scenario mutual-accusation m%d m%d", a.idx, b.idx)
		run.fired["scenario:mutual-accusation"] = true
	case 4:
		// a sends b a bad share; b publishes the justified accusation against
		// a TOGETHER with a false one (honest member or invalid index) in the
		// same message - in phase 4 or, with bad points, in phase 8
		if rapid.Bool().Draw(t, "scnPhase8") {
			a.script = map[string]string{"p7": "points-random"}
			b.script = map[string]string{"p8": "add-false-accusation"}
		} else {
			a.script = map[string]string{"p3": rapid.SampledFrom([]string{"wrong-shares-for-peer", "garbage-shares-for-peer"}).Draw(t, "scnShare4")}
			b.script = map[string]string{"p4": "add-false-accusation"}
		}
		a.scriptPeer = b.idx
		b.scriptPeer = a.idx
		run.note("scenario justified-plus-false-accusation m%d about m%d", b.idx, a.idx)
		run.fired["scenario:justified-plus-false-accusation"] = true
	case 5:
		// a omits the share for b, b omits the share for an honest member:
		// whether a's message is complete depends on b's standing at the
		// moment a's message is looked at (regression scenario for D11)
		a.script = map[string]string{"p3": "shares-missing-peer"}
		a.scriptPeer = b.idx
		b.script = map[string]string{"p3": "shares-missing-honest"}
		b.scriptPeer = a.idx
		run.note("scenario omitted-shares m%d m%d", a.idx, b.idx)
		run.fired["scenario:omitted-shares"] = true
	case 6:
		// a sends an honest member a bad share AND is itself the victim of b's
		// bad share, so a (accused by the honest member) justly accuses b
		// (regression scenario for D12); the same with points in phase 7/8
		if rapid.Bool().Draw(t, "scnPoints") {
			a.script = map[string]string{"p7": "points-random"}
			b.script = map[string]string{"p7": "points-invalid-for-peer"}
		} else {
			a.script = map[string]string{"p3": "wrong-shares-for-honest"}
			b.script = map[string]string{"p3": "wrong-shares-for-peer"}
		}
		a.scriptPeer = b.idx
		b.scriptPeer = a.idx
		run.note("scenario accused-accuses m%d m%d", a.idx, b.idx)
		run.fired["scenario:accused-accuses"] = true
	case 7:
		// a's phase 10 message is invalid (reveals the key of an operating
		// honest member), b reveals its key for a (regression scenario for D14)
		a.script = map[string]string{"p10": "reveal-add-honest"}
		b.script = map[string]string{"p10": "reveal-add-peer"}
		a.scriptPeer = b.idx
		b.scriptPeer = a.idx
		run.note("scenario reveal-about-just-disqualified m%d m%d", a.idx, b.idx)
		run.fired["scenario:reveal-about-just-disqualified"] = true
	case 8:
		// b sends its honest phase 10 message followed by a conflicting one
		// that reveals the key of an operating honest member (regression
		// scenario for D13); a forces a reconstruction so the phase matters
		a.script = map[string]string{"p7": "silent", "p8": "silent", "p10": "silent"}
		b.script = map[string]string{"p10": "honest-then-reveal-add-honest"}
		a.scriptPeer = b.idx
		b.scriptPeer = a.idx
		run.note("scenario conflicting-second-reveal m%d", b.idx)
		run.fired["scenario:conflicting-second-reveal"] = true
	case 9:
		// a publishes valid points and only goes silent in phase 10; b reveals
		// its key for a although no reconstruction of a is needed (regression
		// scenario for D15)
		a.script = map[string]string{"p10": "silent"}
		b.script = map[string]string{"p10": "reveal-add-peer"}
		a.scriptPeer = b.idx
		b.scriptPeer = a.idx
		run.note("scenario unneeded-reveal m%d about m%d", b.idx, a.idx)
		run.fired["scenario:unneeded-reveal"] = true
	case 10:
		// a is disqualified before QUAL is established (bad share to an honest
		// member); b later reveals its key for a (regression scenario for D16)
		a.script = map[string]string{"p3": "wrong-shares-for-honest", "p4": "silent", "p7": "silent", "p8": "silent", "p10": "silent"}
		b.script = map[string]string{"p10": "reveal-add-peer"}
		a.scriptPeer = b.idx
		b.scriptPeer = a.idx
		run.note("scenario reveal-about-non-qual m%d about m%d", b.idx, a.idx)
		run.fired["scenario:reveal-about-non-qual"] = true
	case 11:
		// a sends an honest member a bad share (justified accusation by the
		// honest member); b, whose shares from a are fine, accuses a as well:
		// the verdict on b's accusation must not depend on whether a was
		// already disqualified when it is resolved (seed C01_2a); same with
		// points in phases 7/8
		if rapid.Bool().Draw(t, "scnPoints11") {
			a.script = map[string]string{"p7": "points-invalid-for-honest"}
			b.script = map[string]string{"p8": "accuse-peer"}
		} else {
			a.script = map[string]string{"p3": "wrong-shares-for-honest"}
			b.script = map[string]string{"p4": "accuse-peer"}
		}
		a.scriptPeer = b.idx
		b.scriptPeer = a.idx
		run.note("scenario second-accusation-of-guilty m%d by m%d", a.idx, b.idx)
		run.fired["scenario:second-accusation-of-guilty"] = true
	case 12:
		// phase 1: a's message lacks exactly the key for b, b's message is
		// malformed too (lacks a key for somebody else): whether a's message
		// is complete must not depend on b's standing at the moment a's
		// message is looked at (seed C01_3a; phase 1/2 analogue of scenario 5)
		a.script = map[string]string{"p1": "key-missing-peer"}
		b.script = map[string]string{"p1": rapid.SampledFrom([]string{"key-missing-honest", "key-missing-peer"}).Draw(t, "scnP1")}
		a.scriptPeer = b.idx
		b.scriptPeer = a.idx
		run.note("scenario omitted-ephemeral-keys m%d m%d", a.idx, b.idx)
		run.fired["scenario:omitted-ephemeral-keys"] = true
	}
}

func (r *c12Run) scripted(t *rapid.T, m *c12Member, out []net.TaggedMarshaler, behaviour string, tag func(string)) []net.TaggedMarshaler {
	tag("scripted-" + behaviour)
	switch behaviour {
	case "silent":
		return nil
	case "wrong-shares-for-peer", "garbage-shares-for-peer":
		st := m.st.(*commitmentState)
		var res []net.TaggedMarshaler
		for _, o := range out {
			shares, ok := o.(*PeerSharesMessage)
			if !ok {
				res = append(res, o)
				continue
			}
			alt := newPeerSharesMessage(shares.senderID, shares.sessionID)
			for k, v := range shares.shares {
				alt.shares[k] = &peerShares{append([]byte{}, v.encryptedShareS...), append([]byte{}, v.encryptedShareT...)}
			}
			if behaviour == "garbage-shares-for-peer" {
				alt.shares[m.scriptPeer] = &peerShares{[]byte("garbage-that-cannot-be-decrypted-xxxxxxxxxxxxxxxxxxxxxxxx"), []byte("garbage-garbage-garbage-garbage-garbage-garbage")}
			} else if key, ok := st.member.symmetricKeys[m.scriptPeer]; ok {
				sh := st.member.evaluateMemberShare(m.scriptPeer, st.member.secretCoefficients)
				sh = new(big.Int).Mod(new(big.Int).Add(sh, big.NewInt(1)), c12Order)
				if err := alt.addShares(m.scriptPeer, sh, c12RandScalar(), key); err != nil {
					t.Fatalf("harness: addShares: %v", err)
				}
			}
			res = append(res, alt)
		}
		return res
	case "key-missing-peer", "key-missing-honest":
		msg := out[0].(*EphemeralPublicKeyMessage)
		victim := m.scriptPeer
		if behaviour == "key-missing-honest" {
			victim = r.honestSeat(t, "scnKeyVictim")
		}
		alt := &EphemeralPublicKeyMessage{senderID: msg.senderID, sessionID: msg.sessionID, ephemeralPublicKeys: map[group.MemberIndex]*ephemeral.PublicKey{}}
		for k, v := range msg.ephemeralPublicKeys {
			if k != victim {
				alt.ephemeralPublicKeys[k] = v
			}
		}
		r.note("m%d victim %d", m.idx, victim)
		return []net.TaggedMarshaler{alt}
	case "shares-missing-peer", "shares-missing-honest", "wrong-shares-for-honest":
		st := m.st.(*commitmentState)
		victim := m.scriptPeer
		if behaviour != "shares-missing-peer" {
			victim = r.honestSeat(t, "scnHonestVictim")
		}
		var res []net.TaggedMarshaler
		for _, o := range out {
			shares, ok := o.(*PeerSharesMessage)
			if !ok {
				res = append(res, o)
				continue
			}
			alt := newPeerSharesMessage(shares.senderID, shares.sessionID)
			for k, v := range shares.shares {
				alt.shares[k] = &peerShares{append([]byte{}, v.encryptedShareS...), append([]byte{}, v.encryptedShareT...)}
			}
			if behaviour == "wrong-shares-for-honest" {
				if key, ok := st.member.symmetricKeys[victim]; ok {
					sh := st.member.evaluateMemberShare(victim, st.member.secretCoefficients)
					sh = new(big.Int).Mod(new(big.Int).Add(sh, big.NewInt(1)), c12Order)
					if err := alt.addShares(victim, sh, c12RandScalar(), key); err != nil {
						t.Fatalf("harness: addShares: %v", err)
					}
				}
			} else {
				delete(alt.shares, victim)
			}
			res = append(res, alt)
		}
		r.note("m%d victim %d", m.idx, victim)
		return res
	case "points-invalid-for-honest":
		// points of f + c*(x - everybody but one honest member...) : invalid
		// for exactly one honest member
		st := m.st.(*pointsShareState)
		msg := out[0].(*MemberPublicKeySharePointsMessage)
		victim := r.honestSeat(t, "scnPointsVictim")
		alt := &MemberPublicKeySharePointsMessage{senderID: msg.senderID, sessionID: msg.sessionID}
		poly := []*big.Int{c12RandScalar()}
		deg := 0
		for _, o := range r.members {
			if o.idx != m.idx && o.idx != victim && deg < len(st.member.secretCoefficients)-1 {
				poly = c12PolyMulLinear(poly, int64(o.idx))
				deg++
			}
		}
		for i, a := range st.member.secretCoefficients {
			c := new(big.Int).Set(a)
			if i < len(poly) {
				c.Add(c, poly[i])
				c.Mod(c, c12Order)
			}
			alt.publicKeySharePoints = append(alt.publicKeySharePoints, new(bn256.G2).ScalarBaseMult(c))
		}
		r.note("m%d points invalid for honest %d", m.idx, victim)
		return []net.TaggedMarshaler{alt}
	case "points-invalid-for-peer":
		// points of f + c*(product over everybody except the peer): valid for
		// every member but the peer
		st := m.st.(*pointsShareState)
		msg := out[0].(*MemberPublicKeySharePointsMessage)
		alt := &MemberPublicKeySharePointsMessage{senderID: msg.senderID, sessionID: msg.sessionID}
		poly := []*big.Int{c12RandScalar()}
		deg := 0
		for _, o := range r.members {
			if o.idx != m.idx && o.idx != m.scriptPeer && deg < len(st.member.secretCoefficients)-1 {
				poly = c12PolyMulLinear(poly, int64(o.idx))
				deg++
			}
		}
		for i, a := range st.member.secretCoefficients {
			c := new(big.Int).Set(a)
			if i < len(poly) {
				c.Add(c, poly[i])
				c.Mod(c, c12Order)
			}
			alt.publicKeySharePoints = append(alt.publicKeySharePoints, new(bn256.G2).ScalarBaseMult(c))
		}
		return []net.TaggedMarshaler{alt}
	case "reveal-add-honest", "honest-then-reveal-add-honest":
		msg := out[0].(*MisbehavedEphemeralKeysMessage)
		st := m.st.(*keyRevealState)
		alt := &MisbehavedEphemeralKeysMessage{senderID: msg.senderID, sessionID: msg.sessionID, privateKeys: map[group.MemberIndex]*ephemeral.PrivateKey{}}
		for k, v := range msg.privateKeys {
			alt.privateKeys[k] = v
		}
		h := r.honestSeat(t, "scnRevealHonest")
		if kp, ok := st.member.ephemeralKeyPairs[h]; ok {
			alt.privateKeys[h] = kp.PrivateKey
		}
		r.note("m%d reveals key for honest %d", m.idx, h)
		if behaviour == "honest-then-reveal-add-honest" {
			return []net.TaggedMarshaler{msg, alt}
		}
		return []net.TaggedMarshaler{alt}
	case "withhold-against-peer":
		switch msg := out[0].(type) {
		case *SecretSharesAccusationsMessage:
			alt := &SecretSharesAccusationsMessage{senderID: msg.senderID, sessionID: msg.sessionID, accusedMembersKeys: map[group.MemberIndex]*ephemeral.PrivateKey{}}
			for k, v := range msg.accusedMembersKeys {
				if k != m.scriptPeer {
					alt.accusedMembersKeys[k] = v
				}
			}
			return []net.TaggedMarshaler{alt}
		}
		return out
	case "accuse-peer":
		if msg, ok := out[0].(*PointsAccusationsMessage); ok {
			st := m.st.(*pointsValidationState)
			alt := &PointsAccusationsMessage{senderID: msg.senderID, sessionID: msg.sessionID, accusedMembersKeys: map[group.MemberIndex]*ephemeral.PrivateKey{}}
			for k, v := range msg.accusedMembersKeys {
				alt.accusedMembersKeys[k] = v
			}
			if kp, ok := st.member.ephemeralKeyPairs[m.scriptPeer]; ok {
				alt.accusedMembersKeys[m.scriptPeer] = kp.PrivateKey
			}
			return []net.TaggedMarshaler{alt}
		}
		switch msg := out[0].(type) {
		case *SecretSharesAccusationsMessage:
			st := m.st.(*commitmentsVerificationState)
			alt := &SecretSharesAccusationsMessage{senderID: msg.senderID, sessionID: msg.sessionID, accusedMembersKeys: map[group.MemberIndex]*ephemeral.PrivateKey{}}
			for k, v := range msg.accusedMembersKeys {
				alt.accusedMembersKeys[k] = v
			}
			if kp, ok := st.member.ephemeralKeyPairs[m.scriptPeer]; ok {
				alt.accusedMembersKeys[m.scriptPeer] = kp.PrivateKey
			}
			return []net.TaggedMarshaler{alt}
		}
		return out
	case "points-random", "points-short":
		msg := out[0].(*MemberPublicKeySharePointsMessage)
		alt := &MemberPublicKeySharePointsMessage{senderID: msg.senderID, sessionID: msg.sessionID}
		for i := range msg.publicKeySharePoints {
			if behaviour == "points-short" && i == 0 && len(msg.publicKeySharePoints) > 1 {
				continue
			}
			alt.publicKeySharePoints = append(alt.publicKeySharePoints, new(bn256.G2).ScalarBaseMult(c12RandScalar()))
		}
		return []net.TaggedMarshaler{alt}
	case "add-false-accusation":
		target, kind := r.drawTarget(t, m.idx, "scnFalseTarget")
		for target == m.scriptPeer {
			target, kind = r.honestSeat(t, "scnFalseTarget2"), "honest"
		}
		add := func(acc map[group.MemberIndex]*ephemeral.PrivateKey, keys map[group.MemberIndex]*ephemeral.KeyPair) {
			if kp, ok := keys[target]; ok && rapid.Bool().Draw(t, "scnFalseRealKey") {
				acc[target] = kp.PrivateKey
			} else {
				acc[target] = c12FreshKey()
			}
		}
		r.note("m%d false target %s-%d", m.idx, kind, target)
		switch msg := out[0].(type) {
		case *SecretSharesAccusationsMessage:
			alt := &SecretSharesAccusationsMessage{senderID: msg.senderID, sessionID: msg.sessionID, accusedMembersKeys: map[group.MemberIndex]*ephemeral.PrivateKey{}}
			for k, v := range msg.accusedMembersKeys {
				alt.accusedMembersKeys[k] = v
			}
			add(alt.accusedMembersKeys, m.st.(*commitmentsVerificationState).member.ephemeralKeyPairs)
			return []net.TaggedMarshaler{alt}
		case *PointsAccusationsMessage:
			alt := &PointsAccusationsMessage{senderID: msg.senderID, sessionID: msg.sessionID, accusedMembersKeys: map[group.MemberIndex]*ephemeral.PrivateKey{}}
			for k, v := range msg.accusedMembersKeys {
				alt.accusedMembersKeys[k] = v
			}
			add(alt.accusedMembersKeys, m.st.(*pointsValidationState).member.ephemeralKeyPairs)
			return []net.TaggedMarshaler{alt}
		}
		return out
	case "reveal-add-peer":
		msg := out[0].(*MisbehavedEphemeralKeysMessage)
		st := m.st.(*keyRevealState)
		alt := &MisbehavedEphemeralKeysMessage{senderID: msg.senderID, sessionID: msg.sessionID, privateKeys: map[group.MemberIndex]*ephemeral.PrivateKey{}}
		for k, v := range msg.privateKeys {
			alt.privateKeys[k] = v
		}
		if kp, ok := st.member.ephemeralKeyPairs[m.scriptPeer]; ok {
			alt.privateKeys[m.scriptPeer] = kp.PrivateKey
		}
		return []net.TaggedMarshaler{alt}
	case "reveal-omit-peer", "reveal-wrong-key-peer":
		msg := out[0].(*MisbehavedEphemeralKeysMessage)
		alt := &MisbehavedEphemeralKeysMessage{senderID: msg.senderID, sessionID: msg.sessionID, privateKeys: map[group.MemberIndex]*ephemeral.PrivateKey{}}
		for k, v := range msg.privateKeys {
			if k == m.scriptPeer {
				if behaviour == "reveal-wrong-key-peer" {
					alt.privateKeys[k] = c12FreshKey()
				}
				continue
			}
			alt.privateKeys[k] = v
		}
		return []net.TaggedMarshaler{alt}
	}
	return out
}

func c12Range(n int) []int {
	r := make([]int, n)
	for i := range r {
		r[i] = i
	}
	return r
}

// ---------------------------------------------------------------- adversary

func (r *c12Run) otherSeats(t *rapid.T, self group.MemberIndex, label string) group.MemberIndex {
	var c []group.MemberIndex
	for _, m := range r.members {
		if m.idx != self {
			c = append(c, m.idx)
		}
	}
	return rapid.SampledFrom(c).Draw(t, label)
}

func (r *c12Run) honestSeat(t *rapid.T, label string) group.MemberIndex {
	return rapid.SampledFrom(r.honestIdx).Draw(t, label)
}

// target of a false accusation / bogus reveal
func (r *c12Run) drawTarget(t *rapid.T, self group.MemberIndex, label string) (group.MemberIndex, string) {
	switch rapid.IntRange(0, 9).Draw(t, label+"Kind") {
	case 0:
		return self, "self"
	case 1:
		return 0, "idx0"
	case 2:
		return group.MemberIndex(r.n + 1), "idxN+1"
	case 3:
		return 255, "idx255"
	case 4, 5:
		return r.otherSeats(t, self, label), "any"
	default:
		return r.honestSeat(t, label), "honest"
	}
}

func c12PolyMulLinear(p []*big.Int, root int64) []*big.Int {
	// p(x) * (x - root) mod q
	out := make([]*big.Int, len(p)+1)
	for i := range out {
		out[i] = new(big.Int)
	}
	negRoot := new(big.Int).Mod(big.NewInt(-root), c12Order)
	for i, c := range p {
		out[i+1].Add(out[i+1], c)
		out[i].Add(out[i], new(big.Int).Mul(c, negRoot))
	}
	for i := range out {
		out[i].Mod(out[i], c12Order)
	}
	return out
}

// corrupt rewrites the messages a corrupt member is about to broadcast.
func (r *c12Run) corrupt(t *rapid.T, m *c12Member, out []net.TaggedMarshaler) []net.TaggedMarshaler {
	phase := c12PhaseName(m.st)
	tag := func(b string) {
		r.fired[phase+":"+b] = true
		r.note("m%d %s %s", m.idx, phase, b)
	}
	if m.script != nil {
		if b, ok := m.script[phase]; ok {
			return r.scripted(t, m, out, b, tag)
		}
		return out
	}
	pi := c12SendingPhaseIndex(phase)
	if pi < m.focus {
		return out
	}
	if pi > m.focus && rapid.IntRange(0, 2).Draw(t, fmt.Sprintf("m%d-%s-honestAfterFocus", m.idx, phase)) == 0 {
		return out
	}
	// generic behaviours, any sending phase
	generic := rapid.IntRange(0, 19).Draw(t, fmt.Sprintf("m%d-%s-generic", m.idx, phase))
	switch generic {
	case 0:
		tag("silent")
		return nil
	case 1:
		tag("wrong-session")
		for _, msg := range out {
			c12SetSession(msg, "other-session")
		}
		return out
	}
	var res []net.TaggedMarshaler
	switch st := m.st.(type) {
	case *ephemeralKeyPairGenerationState:
		msg := out[0].(*EphemeralPublicKeyMessage)
		switch rapid.IntRange(0, 5).Draw(t, fmt.Sprintf("m%d-p1", m.idx)) {
		case 0:
			victim := r.otherSeats(t, m.idx, "p1victim")
			alt := &EphemeralPublicKeyMessage{senderID: msg.senderID, sessionID: msg.sessionID, ephemeralPublicKeys: map[group.MemberIndex]*ephemeral.PublicKey{}}
			for k, v := range msg.ephemeralPublicKeys {
				if k != victim {
					alt.ephemeralPublicKeys[k] = v
				}
			}
			tag(fmt.Sprintf("missing-key-for-%d", victim))
			res = []net.TaggedMarshaler{alt}
		case 1:
			alt := &EphemeralPublicKeyMessage{senderID: msg.senderID, sessionID: msg.sessionID, ephemeralPublicKeys: map[group.MemberIndex]*ephemeral.PublicKey{}}
			for k, v := range msg.ephemeralPublicKeys {
				alt.ephemeralPublicKeys[k] = v
			}
			kp, _ := ephemeral.GenerateKeyPair()
			alt.ephemeralPublicKeys[m.idx] = kp.PublicKey
			st.member.ephemeralKeyPairs[m.idx] = kp // so that self-targeted reveals are coherent
			tag("extra-self-key")
			res = []net.TaggedMarshaler{alt}
		default:
			res = out
		}
	case *commitmentState:
		var shares *PeerSharesMessage
		var comm *MemberCommitmentsMessage
		for _, o := range out {
			switch v := o.(type) {
			case *PeerSharesMessage:
				shares = v
			case *MemberCommitmentsMessage:
				comm = v
			}
		}
		copyShares := func() *PeerSharesMessage {
			alt := newPeerSharesMessage(shares.senderID, shares.sessionID)
			for k, v := range shares.shares {
				alt.shares[k] = &peerShares{append([]byte{}, v.encryptedShareS...), append([]byte{}, v.encryptedShareT...)}
			}
			return alt
		}
		switch rapid.IntRange(0, 11).Draw(t, fmt.Sprintf("m%d-p3", m.idx)) {
		case 0:
			tag("drop-shares")
			res = []net.TaggedMarshaler{comm}
		case 1:
			tag("drop-commitments")
			res = []net.TaggedMarshaler{shares}
		case 2:
			alt := &MemberCommitmentsMessage{senderID: comm.senderID, sessionID: comm.sessionID}
			if rapid.Bool().Draw(t, "truncate") && len(comm.commitments) > 1 {
				alt.commitments = append(alt.commitments, comm.commitments[:len(comm.commitments)-1]...)
				tag("commitments-short")
			} else {
				alt.commitments = append(append(alt.commitments, comm.commitments...), comm.commitments[0])
				tag("commitments-long")
			}
			res = []net.TaggedMarshaler{shares, alt}
		case 3:
			victim := r.otherSeats(t, m.idx, "p3victim")
			alt := copyShares()
			delete(alt.shares, victim)
			tag(fmt.Sprintf("shares-missing-%d", victim))
			res = []net.TaggedMarshaler{alt, comm}
		case 4, 5:
			// undecryptable shares for a subset of receivers
			alt := copyShares()
			victims := r.victimSubset(t, m.idx, "p3garbage")
			for _, v := range victims {
				if _, ok := alt.shares[v]; ok {
					alt.shares[v] = &peerShares{[]byte("garbage-that-cannot-be-decrypted-xxxxxxxxxxxxxxxxxxxxxxxx"), []byte("garbage-garbage-garbage-garbage-garbage-garbage")}
				}
			}
			tag(fmt.Sprintf("garbage-shares-for-%v", victims))
			res = []net.TaggedMarshaler{alt, comm}
		case 6, 7, 8:
			// decryptable but inconsistent shares for a subset of receivers
			alt := copyShares()
			victims := r.victimSubset(t, m.idx, "p3wrong")
			for _, v := range victims {
				key, ok := st.member.symmetricKeys[v]
				if !ok {
					continue
				}
				s := st.member.evaluateMemberShare(v, st.member.secretCoefficients)
				s = new(big.Int).Mod(new(big.Int).Add(s, big.NewInt(1)), c12Order)
				if err := alt.addShares(v, s, c12RandScalar(), key); err != nil {
					t.Fatalf("harness: addShares: %v", err)
				}
			}
			tag(fmt.Sprintf("wrong-shares-for-%v", victims))
			res = []net.TaggedMarshaler{alt, comm}
		case 9:
			// commitments to a different polynomial
			alt := &MemberCommitmentsMessage{senderID: comm.senderID, sessionID: comm.sessionID}
			for range comm.commitments {
				alt.commitments = append(alt.commitments, st.member.calculateCommitment(c12RandScalar(), c12RandScalar()))
			}
			tag("commitments-other-polynomial")
			res = []net.TaggedMarshaler{shares, alt}
		default:
			res = out
		}
	case *commitmentsVerificationState:
		msg := out[0].(*SecretSharesAccusationsMessage)
		alt := &SecretSharesAccusationsMessage{senderID: msg.senderID, sessionID: msg.sessionID, accusedMembersKeys: map[group.MemberIndex]*ephemeral.PrivateKey{}}
		for k, v := range msg.accusedMembersKeys {
			alt.accusedMembersKeys[k] = v
		}
		res = []net.TaggedMarshaler{r.corruptAccusation(t, m, st.member.ephemeralKeyPairs, alt.accusedMembersKeys, tag, alt)}
	case *pointsShareState:
		msg := out[0].(*MemberPublicKeySharePointsMessage)
		alt := &MemberPublicKeySharePointsMessage{senderID: msg.senderID, sessionID: msg.sessionID}
		switch rapid.IntRange(0, 9).Draw(t, fmt.Sprintf("m%d-p7", m.idx)) {
		case 0:
			if rapid.Bool().Draw(t, "truncate") && len(msg.publicKeySharePoints) > 1 {
				alt.publicKeySharePoints = append(alt.publicKeySharePoints, msg.publicKeySharePoints[:len(msg.publicKeySharePoints)-1]...)
				tag("points-short")
			} else {
				alt.publicKeySharePoints = append(append(alt.publicKeySharePoints, msg.publicKeySharePoints...), msg.publicKeySharePoints[0])
				tag("points-long")
			}
			res = []net.TaggedMarshaler{alt}
		case 1:
			for range msg.publicKeySharePoints {
				alt.publicKeySharePoints = append(alt.publicKeySharePoints, new(bn256.G2).ScalarBaseMult(c12RandScalar()))
			}
			tag("points-random")
			res = []net.TaggedMarshaler{alt}
		case 2, 3, 4, 5, 6:
			// points of f + c*prod(x-h), h in a chosen subset S of receivers:
			// valid for the members of S, invalid for everybody else.
			var cands []group.MemberIndex
			for _, o := range r.members {
				if o.idx != m.idx {
					cands = append(cands, o.idx)
				}
			}
			maxS := len(st.member.secretCoefficients) - 1
			if maxS > len(cands)-1 {
				maxS = len(cands) - 1
			}
			k := rapid.IntRange(0, maxS).Draw(t, "splitSize")
			perm := rapid.Permutation(cands).Draw(t, "splitPerm")
			sub := append([]group.MemberIndex{}, perm[:k]...)
			sort.Slice(sub, func(i, j int) bool { return sub[i] < sub[j] })
			poly := []*big.Int{c12RandScalar()}
			for _, h := range sub {
				poly = c12PolyMulLinear(poly, int64(h))
			}
			for i, a := range st.member.secretCoefficients {
				c := new(big.Int).Set(a)
				if i < len(poly) {
					c.Add(c, poly[i])
					c.Mod(c, c12Order)
				}
				alt.publicKeySharePoints = append(alt.publicKeySharePoints, new(bn256.G2).ScalarBaseMult(c))
			}
			tag(fmt.Sprintf("points-valid-only-for-%v", sub))
			res = []net.TaggedMarshaler{alt}
		default:
			res = out
		}
	case *pointsValidationState:
		msg := out[0].(*PointsAccusationsMessage)
		alt := &PointsAccusationsMessage{senderID: msg.senderID, sessionID: msg.sessionID, accusedMembersKeys: map[group.MemberIndex]*ephemeral.PrivateKey{}}
		for k, v := range msg.accusedMembersKeys {
			alt.accusedMembersKeys[k] = v
		}
		res = []net.TaggedMarshaler{r.corruptAccusation(t, m, st.member.ephemeralKeyPairs, alt.accusedMembersKeys, tag, alt)}
	case *keyRevealState:
		msg := out[0].(*MisbehavedEphemeralKeysMessage)
		alt := &MisbehavedEphemeralKeysMessage{senderID: msg.senderID, sessionID: msg.sessionID, privateKeys: map[group.MemberIndex]*ephemeral.PrivateKey{}}
		var required []group.MemberIndex
		for k, v := range msg.privateKeys {
			alt.privateKeys[k] = v
			required = append(required, k)
		}
		sort.Slice(required, func(i, j int) bool { return required[i] < required[j] })
		switch rapid.IntRange(0, 7).Draw(t, fmt.Sprintf("m%d-p10", m.idx)) {
		case 0:
			if len(required) > 0 {
				v := rapid.SampledFrom(required).Draw(t, "omit")
				delete(alt.privateKeys, v)
				tag(fmt.Sprintf("reveal-omits-%d", v))
			}
		case 1:
			if len(required) > 0 {
				v := rapid.SampledFrom(required).Draw(t, "wrongKey")
				alt.privateKeys[v] = c12FreshKey()
				tag(fmt.Sprintf("reveal-wrong-key-for-%d", v))
			}
		case 2, 3:
			target, kind := r.drawTarget(t, m.idx, "revealTarget")
			if kp, ok := st.member.ephemeralKeyPairs[target]; ok && rapid.Bool().Draw(t, "realKey") {
				alt.privateKeys[target] = kp.PrivateKey
				tag(fmt.Sprintf("reveal-extra-real-key-%s-%d", kind, target))
			} else {
				alt.privateKeys[target] = c12FreshKey()
				tag(fmt.Sprintf("reveal-extra-fresh-key-%s-%d", kind, target))
			}
		}
		res = []net.TaggedMarshaler{alt}
	default:
		res = out
	}
	// duplicates, conflicts, impersonation, replays
	switch generic {
	case 2:
		tag("honest-then-altered")
		res = append(append([]net.TaggedMarshaler{}, out...), res...)
	case 3:
		tag("altered-then-honest")
		res = append(append([]net.TaggedMarshaler{}, res...), out...)
	case 4:
		// message claiming another member's index, sent with this operator's key
		victim := r.otherSeats(t, m.idx, "impersonated")
		for _, o := range out {
			if cp := c12CloneWithSender(o, victim); cp != nil {
				if rapid.Bool().Draw(t, "impersonationFirst") {
					res = append([]net.TaggedMarshaler{cp}, res...)
				} else {
					res = append(res, cp)
				}
			}
		}
		tag(fmt.Sprintf("claims-index-%d", victim))
	case 5:
		if len(m.history) > 0 {
			tag("replays-earlier-phase")
			res = append(append([]net.TaggedMarshaler{}, m.history...), res...)
		}
	}
	return res
}

func (r *c12Run) victimSubset(t *rapid.T, self group.MemberIndex, label string) []group.MemberIndex {
	var cands []group.MemberIndex
	for _, o := range r.members {
		if o.idx != self {
			cands = append(cands, o.idx)
		}
	}
	k := rapid.IntRange(1, len(cands)).Draw(t, label+"Size")
	if rapid.IntRange(0, 2).Draw(t, label+"Single") > 0 {
		k = 1
	}
	perm := rapid.Permutation(cands).Draw(t, label+"Perm")
	sub := append([]group.MemberIndex{}, perm[:k]...)
	sort.Slice(sub, func(i, j int) bool { return sub[i] < sub[j] })
	return sub
}

func (r *c12Run) corruptAccusation(
	t *rapid.T, m *c12Member, keys map[group.MemberIndex]*ephemeral.KeyPair,
	accused map[group.MemberIndex]*ephemeral.PrivateKey, tag func(string), msg net.TaggedMarshaler,
) net.TaggedMarshaler {
	phase := c12PhaseName(m.st)
	switch rapid.IntRange(0, 9).Draw(t, fmt.Sprintf("m%d-%s-acc", m.idx, phase)) {
	case 0, 1, 2, 3:
		target, kind := r.drawTarget(t, m.idx, "accTarget")
		if kp, ok := keys[target]; ok && rapid.IntRange(0, 3).Draw(t, "accRealKey") > 0 {
			accused[target] = kp.PrivateKey
			tag(fmt.Sprintf("false-accusation-%s-%d-real-key", kind, target))
		} else {
			accused[target] = c12FreshKey()
			tag(fmt.Sprintf("false-accusation-%s-%d-fresh-key", kind, target))
		}
	case 4:
		if len(accused) > 0 {
			for k := range accused {
				delete(accused, k)
			}
			tag("withholds-accusations")
		}
	case 5:
		var ks []group.MemberIndex
		for k := range accused {
			ks = append(ks, k)
		}
		if len(ks) > 0 {
			sort.Slice(ks, func(i, j int) bool { return ks[i] < ks[j] })
			v := rapid.SampledFrom(ks).Draw(t, "accWrongKeyFor")
			accused[v] = c12FreshKey()
			tag(fmt.Sprintf("accusation-wrong-key-%d", v))
		}
	}
	return msg
}

func c12SetSession(m net.TaggedMarshaler, s string) {
	switch v := m.(type) {
	case *EphemeralPublicKeyMessage:
		v.sessionID = s
	case *MemberCommitmentsMessage:
		v.sessionID = s
	case *PeerSharesMessage:
		v.sessionID = s
	case *SecretSharesAccusationsMessage:
		v.sessionID = s
	case *MemberPublicKeySharePointsMessage:
		v.sessionID = s
	case *PointsAccusationsMessage:
		v.sessionID = s
	case *MisbehavedEphemeralKeysMessage:
		v.sessionID = s
	}
}

// clone through the wire format and overwrite the claimed sender index
func c12CloneWithSender(m net.TaggedMarshaler, sender group.MemberIndex) net.TaggedMarshaler {
	b, err := m.Marshal()
	if err != nil {
		return nil
	}
	cp := c12NewOf(m.Type())
	if cp == nil || cp.Unmarshal(b) != nil {
		return nil
	}
	switch v := cp.(type) {
	case *EphemeralPublicKeyMessage:
		v.senderID = sender
	case *MemberCommitmentsMessage:
		v.senderID = sender
	case *PeerSharesMessage:
		v.senderID = sender
	case *SecretSharesAccusationsMessage:
		v.senderID = sender
	case *MemberPublicKeySharePointsMessage:
		v.senderID = sender
	case *PointsAccusationsMessage:
		v.senderID = sender
	case *MisbehavedEphemeralKeysMessage:
		v.senderID = sender
	}
	return cp.(net.TaggedMarshaler)
}

// ---------------------------------------------------------------- execution

func (r *c12Run) execute(t *rapid.T) {
	ctx := context.Background()
	for round := 0; round < 40; round++ {
		// all live members initiate their current state (in parallel, joined)
		var wg sync.WaitGroup
		errs := make([]error, len(r.members))
		for i, m := range r.members {
			if m.dead || m.finished {
				continue
			}
			wg.Add(1)
			go func(i int, m *c12Member) {
				defer wg.Done()
				defer func() {
					if p := recover(); p != nil {
						errs[i] = fmt.Errorf("PANIC in %s Initiate: %v", c12PhaseName(m.st), p)
					}
				}()
				errs[i] = m.st.Initiate(ctx)
			}(i, m)
		}
		wg.Wait()
		for i, m := range r.members {
			if errs[i] != nil && !m.dead {
				if strings.HasPrefix(errs[i].Error(), "PANIC") && !m.corrupt {
					t.Fatalf("honest member %d panicked: %v (plan: %v)", m.idx, errs[i], r.plan)
				}
				m.dead, m.deadWhy, m.deadAt = true, errs[i].Error(), c12PhaseName(m.st)
			}
		}
		// gather and rewrite outgoing messages, in member order
		queues := map[group.MemberIndex][]c12Wire{}
		var senders []group.MemberIndex
		for _, m := range r.members {
			out := m.ch.take()
			if m.dead || m.finished {
				continue
			}
			if len(out) == 0 {
				continue
			}
			sent := out
			if m.corrupt {
				sent = r.corrupt(t, m, out)
			}
			m.history = out
			for _, msg := range sent {
				b, err := msg.Marshal()
				if err != nil {
					continue // not representable on the wire
				}
				if m.corrupt && r.wire {
					b = r.wireMutate(t, m, msg.Type(), b)
				}
				queues[m.idx] = append(queues[m.idx], c12Wire{typ: msg.Type(), bytes: b, pubKey: m.pubKey, from: m.idx})
			}
			if len(queues[m.idx]) > 0 {
				senders = append(senders, m.idx)
			}
		}
		// deliver: a network sender is an OPERATOR (all seats of an operator
		// share one network identity), so the messages of an operator's seats
		// are first merged into one per-operator sequence (drawn once, the
		// same for everybody), then each honest receiver gets a drawn
		// interleaving that preserves every operator's order (consistent
		// broadcast as stated in the property's quantifier).
		if len(senders) > 0 {
			opQueues := map[int][]c12Wire{}
			var ops []int
			bySeatOfOp := map[int][]group.MemberIndex{}
			for _, sidx := range senders {
				o := r.seatOps[sidx-1]
				if _, ok := bySeatOfOp[o]; !ok {
					ops = append(ops, o)
				}
				bySeatOfOp[o] = append(bySeatOfOp[o], sidx)
			}
			for _, o := range ops {
				seats := bySeatOfOp[o]
				if len(seats) == 1 {
					opQueues[o] = queues[seats[0]]
					continue
				}
				var sl []group.MemberIndex
				for _, sidx := range seats {
					for range queues[sidx] {
						sl = append(sl, sidx)
					}
				}
				merged := rapid.Permutation(sl).Draw(t, fmt.Sprintf("operatorSendOrder-op%d", o))
				pos := map[group.MemberIndex]int{}
				for _, sidx := range merged {
					opQueues[o] = append(opQueues[o], queues[sidx][pos[sidx]])
					pos[sidx]++
				}
			}
			var slots []int
			for _, o := range ops {
				for range opQueues[o] {
					slots = append(slots, o)
				}
			}
			for _, m := range r.members {
				if m.dead || m.finished {
					continue
				}
				order := slots
				if !m.corrupt && len(slots) > 1 {
					order = rapid.Permutation(slots).Draw(t, fmt.Sprintf("deliveryOrder-m%d", m.idx))
				}
				pos := map[int]int{}
				for seq, o := range order {
					w := opQueues[o][pos[o]]
					pos[o]++
					payload := c12NewOf(w.typ)
					if payload == nil {
						continue
					}
					if err := payload.Unmarshal(w.bytes); err != nil {
						continue // the network layer drops undecodable messages
					}
					func() {
						defer func() {
							if p := recover(); p != nil {
								if !m.corrupt {
									t.Fatalf("honest member %d panicked in Receive of %s: %v (plan %v)", m.idx, w.typ, p, r.plan)
								}
								m.dead, m.deadWhy = true, fmt.Sprint(p)
							}
						}()
						_ = m.st.Receive(&c12NetMsg{sender: c12TransportID(fmt.Sprintf("op-%d", o)), pubKey: w.pubKey, payload: payload, typ: w.typ, seq: uint64(round*1000 + seq)})
					}()
				}
			}
		}
		// everybody moves on
		live := 0
		for _, m := range r.members {
			if m.dead || m.finished {
				continue
			}
			if fs, ok := m.st.(*finalizationState); ok {
				m.finished = true
				m.result = fs.result()
				continue
			}
			next, err := m.st.Next()
			if err != nil || next == nil {
				m.dead, m.deadWhy, m.deadAt = true, fmt.Sprintf("Next: %v", err), c12PhaseName(m.st)
				continue
			}
			m.st = next
			live++
		}
		if live == 0 {
			return
		}
	}
	t.Fatalf("harness: state chain did not end in 40 rounds")
}

func c12Set(l []group.MemberIndex) string {
	c := append([]group.MemberIndex{}, l...)
	sort.Slice(c, func(i, j int) bool { return c[i] < c[j] })
	return fmt.Sprint(c)
}

func (r *c12Run) describe() string {
	var corrupt []group.MemberIndex
	for _, m := range r.members {
		if m.corrupt {
			corrupt = append(corrupt, m.idx)
		}
	}
	return fmt.Sprintf("n=%d t=%d seatOps=%v corrupt=%v plan=%v", r.n, r.t, r.seatOps, corrupt, r.plan)
}

func (r *c12Run) firedLabels() []string {
	seen := map[string]bool{}
	var l []string
	for k := range r.fired {
		// strip member specific numbers so that labels aggregate
		base := strings.Map(func(c rune) rune {
			if (c >= '0' && c <= '9') || c == '[' || c == ']' || c == ' ' {
				return -1
			}
			return c
		}, k[strings.Index(k, ":")+1:])
		base = strings.TrimRight(base, "-")
		lab := "behaviour:" + k[:strings.Index(k, ":")] + ":" + base
		if !seen[lab] {
			seen[lab] = true
			l = append(l, lab)
		}
	}
	sort.Strings(l)
	return l
}

// honest members that walked the whole chain
func (r *c12Run) finishedHonest() []*c12Member {
	var l []*c12Member
	for _, m := range r.members {
		if !m.corrupt && m.finished && m.result != nil {
			l = append(l, m)
		}
	}
	return l
}

// members whose individual key was reconstructed in phase 11 (for labelling)
func (m *c12Member) reconstructedFor() []group.MemberIndex {
	fs, ok := m.st.(*finalizationState)
	if !ok {
		return nil
	}
	var l []group.MemberIndex
	for k := range fs.member.reconstructedIndividualPublicKeys {
		l = append(l, k)
	}
	return l
}

func c12MaxN() int {
	if os.Getenv("VERIF_TIER") == "thorough" {
		return 7
	}
	return 5
}
