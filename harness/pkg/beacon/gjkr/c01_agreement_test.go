//go:build go1.23

package gjkr

import (
	"bytes"
	"fmt"
	"strings"
	"testing"

	"github.com/keep-network/keep-core/internal/verifkit"
	"github.com/keep-network/keep-core/pkg/protocol/group"
	"pgregory.net/rapid"
)

// misbehaved = inactive ∪ disqualified: this union is what a member publishes
// on chain (result.convertResult merges both lists). The split between the two
// lists may legitimately differ between honest members (an accuser disqualifies
// at once, the others when they resolve the accusation - possibly after having
// marked the same member inactive), so the union is what is compared.
func c01Misbehaved(r *Result) map[group.MemberIndex]bool {
	s := map[group.MemberIndex]bool{}
	for _, i := range r.Group.InactiveMemberIndexes() {
		s[i] = true
	}
	for _, i := range r.Group.DisqualifiedMemberIndexes() {
		s[i] = true
	}
	return s
}

func c01SetString(s map[group.MemberIndex]bool) string {
	var l []group.MemberIndex
	for k := range s {
		l = append(l, k)
	}
	return c12Set(l)
}

func c01KeyBytes(r *Result) []byte {
	if r.GroupPublicKey == nil {
		return nil
	}
	return r.GroupPublicKey.Marshal()
}

func c01CheckAgreement(t *rapid.T, run *c12Run) {
	fin := run.finishedHonest()
	if len(fin) == 0 {
		return
	}
	ref := fin[0]
	refKey := c01KeyBytes(ref.result)
	refSet := c01SetString(c01Misbehaved(ref.result))
	for _, m := range fin {
		mis := c01Misbehaved(m.result)
		for _, h := range fin {
			if mis[h.idx] {
				t.Fatalf("honest member %d marked HONEST member %d as misbehaving (IA=%v DQ=%v); %s",
					m.idx, h.idx, m.result.Group.InactiveMemberIndexes(), m.result.Group.DisqualifiedMemberIndexes(), run.describe())
			}
		}
		if !bytes.Equal(c01KeyBytes(m.result), refKey) {
			t.Fatalf("honest members %d and %d finished with DIFFERENT group public keys; misbehaved sets %s vs %s; %s",
				ref.idx, m.idx, refSet, c01SetString(mis), run.describe())
		}
		if s := c01SetString(mis); s != refSet {
			t.Fatalf("honest members %d and %d finished with different misbehaved (IA∪DQ) sets: %s vs %s; %s",
				ref.idx, m.idx, refSet, s, run.describe())
		}
	}
}

func c01Record(st *verifkit.Stats, run *c12Run) {
	fin := run.finishedHonest()
	labels := run.firedLabels()
	labels = append(labels, fmt.Sprintf("n:%d", run.n), fmt.Sprintf("honest-finished:%d/%d", len(fin), len(run.honestIdx)))
	splitDiffers := false
	for _, m := range run.members {
		if !m.corrupt && m.dead {
			why := m.deadWhy
			if len(why) > 60 {
				why = why[:60]
			}
			labels = append(labels, "honest-fatal:"+m.deadAt+":"+strings.Map(func(r rune) rune {
				if r >= '0' && r <= '9' {
					return '#'
				}
				return r
			}, why))
		}
	}
	if len(fin) > 0 {
		ia0 := c12Set(fin[0].result.Group.InactiveMemberIndexes())
		for _, m := range fin {
			if c12Set(m.result.Group.InactiveMemberIndexes()) != ia0 {
				splitDiffers = true
			}
		}
		if len(c01Misbehaved(fin[0].result)) > 0 {
			labels = append(labels, "someone-excluded")
		}
		if len(fin[0].reconstructedFor()) > 0 {
			labels = append(labels, "qual-member-reconstructed")
		}
	}
	if splitDiffers {
		labels = append(labels, "ia-dq-split-differs-between-honest (not asserted)")
	}
	if len(run.fired) >= 2 {
		labels = append(labels, "two-or-more-misbehaviours")
	}
	nontrivial := len(run.fired) > 0 && len(fin) > 0
	st.Case(nontrivial, run.describe(), labels...)
}

func TestVerif_C01_Agreement(t *testing.T) {
	st := verifkit.New("C01", "TestVerif_C01_Agreement")
	defer st.Flush()
	rapid.Check(t, func(t *rapid.T) {
		run := c12Setup(t, c12Config{maxN: c12MaxN(), allowNoAttack: false})
		run.execute(t)
		c01CheckAgreement(t, run)
		c01Record(st, run)
	})
}
