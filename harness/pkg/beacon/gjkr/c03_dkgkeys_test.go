//go:build go1.23

package gjkr

import (
	"bytes"
	"fmt"
	"math/big"
	"strings"
	"testing"

	bn256 "github.com/ethereum/go-ethereum/crypto/bn256/cloudflare"
	"github.com/keep-network/keep-core/internal/verifkit"
	"github.com/keep-network/keep-core/pkg/bls"
	"github.com/keep-network/keep-core/pkg/protocol/group"
	"pgregory.net/rapid"
)

const c03gD2 = "D2-recover-misindex"

// c03gRunDKG runs the real GJKR phases in memory for an all-honest group (the
// same sequence as the package's TestRoundTrip, completed with the public key
// share computation and the result) and returns every member's result.
// The polynomial coefficients are drawn by the protocol from crypto/rand: the
// group shape, the message, the subsets and orders are rapid values, the key
// bits are not; the oracle is algebraic and holds for whatever was drawn.
func c03gRunDKG(t *rapid.T, dishonestThreshold, groupSize int) []*Result {
	committing, err := initializeCommittingMembersGroup(dishonestThreshold, groupSize)
	if err != nil {
		t.Fatalf("group initialization failed: %v", err)
	}
	var sharesMessages []*PeerSharesMessage
	var commitmentsMessages []*MemberCommitmentsMessage
	for _, m := range committing {
		sm, cm, err := m.CalculateMembersSharesAndCommitments()
		if err != nil {
			t.Fatalf("shares and commitments calculation failed: %v", err)
		}
		sharesMessages = append(sharesMessages, sm)
		commitmentsMessages = append(commitmentsMessages, cm)
	}
	var verifying []*CommitmentsVerifyingMember
	for _, m := range committing {
		verifying = append(verifying, m.InitializeCommitmentsVerification())
	}
	for _, m := range verifying {
		acc, err := m.VerifyReceivedSharesAndCommitmentsMessages(
			filterPeerSharesMessage(sharesMessages, m.ID),
			filterMemberCommitmentsMessages(commitmentsMessages, m.ID),
		)
		if err != nil {
			t.Fatalf("shares and commitments verification failed: %v", err)
		}
		if len(acc.accusedMembersKeys) > 0 {
			t.Fatalf("honest run produced %d share accusations", len(acc.accusedMembersKeys))
		}
	}
	var sharing []*SharingMember
	for _, m := range verifying {
		q := m.InitializeSharesJustification().InitializeQualified()
		q.CombineMemberShares()
		s := q.InitializeSharing()
		s.CombineMemberShares()
		sharing = append(sharing, s)
	}
	points := make([]*MemberPublicKeySharePointsMessage, len(sharing))
	for i, m := range sharing {
		points[i] = m.CalculatePublicKeySharePoints()
	}
	for _, m := range sharing {
		acc, err := m.VerifyPublicKeySharePoints(filterMemberPublicKeySharePointsMessages(points, m.ID))
		if err != nil {
			t.Fatalf("public key share points verification failed: %v", err)
		}
		if len(acc.accusedMembersKeys) > 0 {
			t.Fatalf("honest run produced %d points accusations", len(acc.accusedMembersKeys))
		}
	}
	var results []*Result
	for _, m := range sharing {
		c := m.InitializePointsJustification().InitializeRevealing().InitializeReconstruction().InitializeCombining()
		c.CombineGroupPublicKey()
		c.ComputeGroupPublicKeyShares()
		results = append(results, c.InitializeFinalization().Result())
	}
	return results
}

// TestVerif_C03_DkgKeys: end-to-end clause. With the keys an honest beacon DKG
// produces, every member's signature share verifies under the public key share
// the OTHER members computed for it, and any honest-threshold subset of the
// shares, in any order, mixed with skipped entries, recovers one signature that
// verifies under the group public key.
func TestVerif_C03_DkgKeys(t *testing.T) {
	st := verifkit.New("C03", "TestVerif_C03_DkgKeys")
	defer st.Flush()
	rapid.Check(t, func(t *rapid.T) {
		groupSize := rapid.IntRange(3, 7).Draw(t, "groupSize")
		dishonest := rapid.IntRange(1, (groupSize-1)/2).Draw(t, "dishonestThreshold")
		honest := dishonest + 1
		results := c03gRunDKG(t, dishonest, groupSize)
		known := verifkit.Known(c03gD2)
		if known {
			st.Excluded(c03gD2)
		}

		groupKey := results[0].GroupPublicKey
		for i, r := range results {
			if r.GroupPublicKey == nil || !bytes.Equal(r.GroupPublicKey.Marshal(), groupKey.Marshal()) {
				t.Fatalf("member %d holds another group public key than member 1", i+1)
			}
		}
		// the message is a point other than the identity (a previous relay entry)
		msgScalar := new(big.Int).SetBytes(rapid.SliceOfN(rapid.Byte(), 1, 31).Draw(t, "message"))
		msgScalar.Add(msgScalar, big.NewInt(1)) // 1 .. 2^248 < r
		msg := new(bn256.G1).ScalarBaseMult(msgScalar)
		shares := make([]*bls.SignatureShare, groupSize)
		for i, r := range results {
			shares[i] = &bls.SignatureShare{I: i + 1, V: bls.SignG1(r.GroupPrivateKeyShare, msg)}
		}
		// share verification: member v's view of member s
		v := rapid.IntRange(0, groupSize-1).Draw(t, "verifier")
		s := (v + 1 + rapid.IntRange(0, groupSize-2).Draw(t, "signerOffset")) % groupSize
		pk, ok := results[v].GroupPublicKeyShares()[group.MemberIndex(s+1)]
		if !ok {
			t.Fatalf("member %d has no public key share for member %d after an honest DKG", v+1, s+1)
		}
		if !bls.VerifyG1(pk, msg, shares[s].V) {
			t.Fatalf("signature share of member %d does not verify under the public key share member %d computed for it (group %d, dishonest threshold %d)", s+1, v+1, groupSize, dishonest)
		}
		w := (s + 1) % groupSize
		if w == v {
			w = (w + 1) % groupSize
		}
		if w != s && bls.VerifyG1(pk, msg, shares[w].V) {
			t.Fatalf("signature share of member %d verifies under the public key share of member %d", w+1, s+1)
		}

		// recovery from drawn subsets / orders / skip entries
		mkList := func(label string) ([]*bls.SignatureShare, string, bool) {
			n := rapid.IntRange(honest, groupSize).Draw(t, label+"Shares")
			subset := rapid.Permutation(shares).Draw(t, label+"Order")[:n]
			var list []*bls.SignatureShare
			var parts []string
			skipBeforeUsed := false
			used := 0
			for _, sh := range subset {
				if !(known && used < honest) {
					for rapid.IntRange(0, 3).Draw(t, label+"Skip") == 0 {
						switch rapid.IntRange(0, 2).Draw(t, label+"SkipKind") {
						case 0:
							list = append(list, nil)
							parts = append(parts, "nil")
						case 1:
							list = append(list, &bls.SignatureShare{I: sh.I, V: nil})
							parts = append(parts, fmt.Sprintf("{%d,V=nil}", sh.I))
						default:
							list = append(list, &bls.SignatureShare{I: -sh.I, V: sh.V})
							parts = append(parts, fmt.Sprintf("{%d,V}", -sh.I))
						}
						if used < honest {
							skipBeforeUsed = true
						}
						if len(list) > 20 {
							break
						}
					}
				}
				list = append(list, sh)
				parts = append(parts, fmt.Sprint(sh.I))
				used++
			}
			return list, "[" + strings.Join(parts, " ") + "]", skipBeforeUsed
		}
		tag := func(b bool) string {
			if b {
				return " [finding-key=" + c03gD2 + "]"
			}
			return ""
		}
		recoverSig := func(list []*bls.SignatureShare, desc string, before bool) *bn256.G1 {
			var out *bn256.G1
			var err error
			func() {
				defer func() {
					if r := recover(); r != nil {
						t.Fatalf("RecoverSignature panicked (%v) on %s, threshold %d%s", r, desc, honest, tag(before))
					}
				}()
				out, err = bls.RecoverSignature(list, honest)
			}()
			if err != nil {
				t.Fatalf("RecoverSignature failed on %s, threshold %d: %v%s", desc, honest, err, tag(before))
			}
			return out
		}
		l1, d1, b1 := mkList("first")
		l2, d2, b2 := mkList("second")
		s1 := recoverSig(l1, d1, b1)
		if !bls.VerifyG1(groupKey, msg, s1) {
			t.Fatalf("signature recovered from %s does not verify under the DKG's group public key (group %d, honest threshold %d)%s", d1, groupSize, honest, tag(b1))
		}
		s2 := recoverSig(l2, d2, b2)
		if !bytes.Equal(s1.Marshal(), s2.Marshal()) {
			t.Fatalf("subsets %s and %s of one group's shares recover different signatures%s", d1, d2, tag(b1 || b2))
		}
		st.Case(true, fmt.Sprintf("group=%d dishonest=%d verifier=%d signer=%d lists=%s %s", groupSize, dishonest, v+1, s+1, d1, d2),
			fmt.Sprintf("group:%d", groupSize), fmt.Sprintf("honest-threshold:%d", honest), fmt.Sprintf("skip-before-used:%v", b1 || b2))
	})
}
