//go:build go1.23

package gjkr

import (
	"testing"

	"github.com/keep-network/keep-core/internal/c19gen"
	"github.com/keep-network/keep-core/internal/c19wire"
	"pgregory.net/rapid"
)

// C19 - pkg/beacon/gjkr: the seven GJKR network messages.

func c19Codecs() []c19wire.Codec {
	return []c19wire.Codec{
		c19wire.Codec{
			Name: "gjkr.EphemeralPublicKeyMessage",
			New:  func() c19wire.Msg { return &EphemeralPublicKeyMessage{} },
			Gen: func(t *rapid.T) c19wire.Msg {
				return &EphemeralPublicKeyMessage{
					senderID:            c19wire.GenIndex(t, "sender"),
					ephemeralPublicKeys: c19gen.GenEphemeralPublicKeys(t),
					sessionID:           c19wire.GenText(t, "session"),
				}
			},
			Touch: func(m c19wire.Msg) { _ = m.(*EphemeralPublicKeyMessage).Type() },
		}.WithSender(func(m c19wire.Msg) uint64 { return uint64(m.(*EphemeralPublicKeyMessage).SenderID()) }).
			WithIndexMap("ephemeralPublicKeys", 2),
		c19wire.Codec{
			Name: "gjkr.MemberCommitmentsMessage",
			New:  func() c19wire.Msg { return &MemberCommitmentsMessage{} },
			Gen: func(t *rapid.T) c19wire.Msg {
				m := &MemberCommitmentsMessage{senderID: c19wire.GenIndex(t, "sender"), sessionID: c19wire.GenText(t, "session")}
				for i, n := 0, rapid.IntRange(0, 4).Draw(t, "commitments"); i < n; i++ {
					m.commitments = append(m.commitments, c19gen.GenG1(t, "commitment"))
				}
				return m
			},
			Touch: func(m c19wire.Msg) { _ = m.(*MemberCommitmentsMessage).Type() },
		}.WithSender(func(m c19wire.Msg) uint64 { return uint64(m.(*MemberCommitmentsMessage).SenderID()) }),
		c19wire.Codec{
			Name: "gjkr.PeerSharesMessage",
			New:  func() c19wire.Msg { return &PeerSharesMessage{} },
			Gen: func(t *rapid.T) c19wire.Msg {
				m := &PeerSharesMessage{senderID: c19wire.GenIndex(t, "sender"), sessionID: c19wire.GenText(t, "session"),
					shares: map[uint8]*peerShares{}}
				for _, id := range c19wire.GenIndexSet(t, "receiver", 4) {
					m.shares[id] = &peerShares{
						encryptedShareS: c19wire.GenPayload(t, "shareS"),
						encryptedShareT: c19wire.GenPayload(t, "shareT"),
					}
				}
				return m
			},
			Touch: func(m c19wire.Msg) { _ = m.(*PeerSharesMessage).Type() },
		}.WithSender(func(m c19wire.Msg) uint64 { return uint64(m.(*PeerSharesMessage).SenderID()) }).
			WithIndexMap("shares", 2),
		// The two accusation decoders swallow the error of the key map
		// (`return nil` instead of `return err`): an out-of-range accused index
		// gives a message without accusations and without session id, not an
		// error. That is "an error or a valid value" in the sense of C19, so no
		// map key rule is declared for them (see notes/C19.md, observation O1).
		c19wire.Codec{
			Name: "gjkr.SecretSharesAccusationsMessage",
			New:  func() c19wire.Msg { return &SecretSharesAccusationsMessage{} },
			Gen: func(t *rapid.T) c19wire.Msg {
				return &SecretSharesAccusationsMessage{
					senderID:           c19wire.GenIndex(t, "sender"),
					accusedMembersKeys: c19gen.GenEphemeralPrivateKeys(t),
					sessionID:          c19wire.GenText(t, "session"),
				}
			},
			Touch: func(m c19wire.Msg) { _ = m.(*SecretSharesAccusationsMessage).Type() },
		}.WithSender(func(m c19wire.Msg) uint64 { return uint64(m.(*SecretSharesAccusationsMessage).SenderID()) }),
		c19wire.Codec{
			Name: "gjkr.MemberPublicKeySharePointsMessage",
			New:  func() c19wire.Msg { return &MemberPublicKeySharePointsMessage{} },
			Gen: func(t *rapid.T) c19wire.Msg {
				m := &MemberPublicKeySharePointsMessage{senderID: c19wire.GenIndex(t, "sender"), sessionID: c19wire.GenText(t, "session")}
				for i, n := 0, rapid.IntRange(0, 3).Draw(t, "points"); i < n; i++ {
					m.publicKeySharePoints = append(m.publicKeySharePoints, c19gen.GenG2(t, "point"))
				}
				return m
			},
			Touch: func(m c19wire.Msg) { _ = m.(*MemberPublicKeySharePointsMessage).Type() },
		}.WithSender(func(m c19wire.Msg) uint64 { return uint64(m.(*MemberPublicKeySharePointsMessage).SenderID()) }),
		c19wire.Codec{
			Name: "gjkr.PointsAccusationsMessage",
			New:  func() c19wire.Msg { return &PointsAccusationsMessage{} },
			Gen: func(t *rapid.T) c19wire.Msg {
				return &PointsAccusationsMessage{
					senderID:           c19wire.GenIndex(t, "sender"),
					accusedMembersKeys: c19gen.GenEphemeralPrivateKeys(t),
					sessionID:          c19wire.GenText(t, "session"),
				}
			},
			Touch: func(m c19wire.Msg) { _ = m.(*PointsAccusationsMessage).Type() },
		}.WithSender(func(m c19wire.Msg) uint64 { return uint64(m.(*PointsAccusationsMessage).SenderID()) }),
		c19wire.Codec{
			Name: "gjkr.MisbehavedEphemeralKeysMessage",
			New:  func() c19wire.Msg { return &MisbehavedEphemeralKeysMessage{} },
			Gen: func(t *rapid.T) c19wire.Msg {
				return &MisbehavedEphemeralKeysMessage{
					senderID:    c19wire.GenIndex(t, "sender"),
					privateKeys: c19gen.GenEphemeralPrivateKeys(t),
					sessionID:   c19wire.GenText(t, "session"),
				}
			},
			Touch: func(m c19wire.Msg) { _ = m.(*MisbehavedEphemeralKeysMessage).Type() },
		}.WithSender(func(m c19wire.Msg) uint64 { return uint64(m.(*MisbehavedEphemeralKeysMessage).SenderID()) }).
			WithIndexMap("privateKeys", 2),
	}
}

func TestVerif_C19_GjkrRoundTrip(t *testing.T) {
	c19wire.RunRoundTrip(t, "TestVerif_C19_GjkrRoundTrip", c19Codecs())
}

func TestVerif_C19_GjkrHostile(t *testing.T) {
	c19wire.RunHostile(t, "TestVerif_C19_GjkrHostile", c19Codecs())
}

func FuzzVerif_C19_Gjkr(f *testing.F) { c19wire.RunFuzz(f, c19Codecs()) }
