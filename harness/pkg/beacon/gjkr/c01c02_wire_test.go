//go:build go1.23

package gjkr

// Wire-level malformations of a corrupt member's messages: what the member
// code can never produce through Marshal but a corrupt operator can put on the
// wire. Member indexes are uint32 on the wire and uint8 in the protocol; an
// index above 255 must make every receiver drop the message (the same bytes
// reach everybody, so whatever a receiver does with them has to be a function
// of the bytes alone).

import (
	"fmt"
	"sort"

	"google.golang.org/protobuf/proto"
	"pgregory.net/rapid"

	"github.com/keep-network/keep-core/pkg/beacon/gjkr/gen/pb"
	"github.com/keep-network/keep-core/pkg/crypto/ephemeral"
)

func c12SortedKeys[V any](m map[uint32]V) []uint32 {
	var ks []uint32
	for k := range m {
		ks = append(ks, k)
	}
	sort.Slice(ks, func(i, j int) bool { return ks[i] < ks[j] })
	return ks
}

// c12AliasKey draws the map key to add: an index that equals an existing entry
// (or a group member without an entry) modulo 256.
func (r *c12Run) c12AliasKey(t *rapid.T, label string, existing []uint32) (uint32, string) {
	mult := uint32(rapid.SampledFrom([]int{1, 1, 2, 255, 1 << 16}).Draw(t, label+"-mult"))
	if len(existing) > 0 && rapid.IntRange(0, 3).Draw(t, label+"-existing") != 0 {
		k := rapid.SampledFrom(existing).Draw(t, label+"-key")
		r.note("wire index %d for entry %d", k+256*mult, k)
		return k + 256*mult, "alias-of-entry"
	}
	k := uint32(rapid.IntRange(1, len(r.members)).Draw(t, label+"-member"))
	r.note("wire index %d for member %d", k+256*mult, k)
	return k + 256*mult, "alias-of-member"
}

// wireMutate possibly rewrites the marshalled message of a corrupt member.
func (r *c12Run) wireMutate(t *rapid.T, m *c12Member, typ string, b []byte) []byte {
	label := fmt.Sprintf("m%d-%s-wire", m.idx, c12PhaseName(m.st))
	freshPriv := func() []byte { return c12FreshKey().Marshal() }
	freshPub := func() []byte {
		kp, err := ephemeral.GenerateKeyPair()
		if err != nil {
			t.Fatalf("harness: %v", err)
		}
		return kp.PublicKey.Marshal()
	}
	fire := func(what string) {
		r.fired["wire:"+what] = true
		r.note("m%d %s wire %s", m.idx, c12PhaseName(m.st), what)
	}
	// one draw decides; messages carrying revealed keys are rewritten more often
	chance := func(nonEmpty bool) bool {
		hi := 9
		if nonEmpty {
			hi = 3
		}
		return rapid.IntRange(0, hi).Draw(t, label) == 0
	}
	senderAlias := func() bool { return rapid.IntRange(0, 5).Draw(t, label+"-sender") == 0 }
	var out proto.Message
	switch typ {
	case (&EphemeralPublicKeyMessage{}).Type():
		msg := &pb.EphemeralPublicKey{}
		if proto.Unmarshal(b, msg) != nil || !chance(false) {
			return b
		}
		if senderAlias() {
			msg.SenderID += 256
			fire("sender-index-above-255")
		} else {
			k, what := r.c12AliasKey(t, label, c12SortedKeys(msg.EphemeralPublicKeys))
			if msg.EphemeralPublicKeys == nil {
				msg.EphemeralPublicKeys = map[uint32][]byte{}
			}
			msg.EphemeralPublicKeys[k] = freshPub()
			fire("ephemeral-keys-" + what)
		}
		out = msg
	case (&PeerSharesMessage{}).Type():
		msg := &pb.PeerShares{}
		if proto.Unmarshal(b, msg) != nil || !chance(false) {
			return b
		}
		if senderAlias() {
			msg.SenderID += 256
			fire("sender-index-above-255")
		} else {
			k, what := r.c12AliasKey(t, label, c12SortedKeys(msg.Shares))
			if msg.Shares == nil {
				msg.Shares = map[uint32]*pb.PeerShares_Shares{}
			}
			msg.Shares[k] = &pb.PeerShares_Shares{
				EncryptedShareS: []byte("garbage-that-cannot-be-decrypted-xxxxxxxxxxxxxxxxxxxxxxxx"),
				EncryptedShareT: []byte("garbage-garbage-garbage-garbage-garbage-garbage"),
			}
			fire("shares-" + what)
		}
		out = msg
	case (&SecretSharesAccusationsMessage{}).Type():
		msg := &pb.SecretSharesAccusations{}
		if proto.Unmarshal(b, msg) != nil || !chance(len(msg.AccusedMembersKeys) > 0) {
			return b
		}
		if senderAlias() {
			msg.SenderID += 256
			fire("sender-index-above-255")
		} else {
			k, what := r.c12AliasKey(t, label, c12SortedKeys(msg.AccusedMembersKeys))
			if msg.AccusedMembersKeys == nil {
				msg.AccusedMembersKeys = map[uint32][]byte{}
			}
			msg.AccusedMembersKeys[k] = freshPriv()
			fire("shares-accusation-" + what)
		}
		out = msg
	case (&PointsAccusationsMessage{}).Type():
		msg := &pb.PointsAccusations{}
		if proto.Unmarshal(b, msg) != nil || !chance(len(msg.AccusedMembersKeys) > 0) {
			return b
		}
		if senderAlias() {
			msg.SenderID += 256
			fire("sender-index-above-255")
		} else {
			k, what := r.c12AliasKey(t, label, c12SortedKeys(msg.AccusedMembersKeys))
			if msg.AccusedMembersKeys == nil {
				msg.AccusedMembersKeys = map[uint32][]byte{}
			}
			msg.AccusedMembersKeys[k] = freshPriv()
			fire("points-accusation-" + what)
		}
		out = msg
	case (&MisbehavedEphemeralKeysMessage{}).Type():
		msg := &pb.MisbehavedEphemeralKeys{}
		if proto.Unmarshal(b, msg) != nil || !chance(len(msg.PrivateKeys) > 0) {
			return b
		}
		if senderAlias() {
			msg.SenderID += 256
			fire("sender-index-above-255")
		} else {
			k, what := r.c12AliasKey(t, label, c12SortedKeys(msg.PrivateKeys))
			if msg.PrivateKeys == nil {
				msg.PrivateKeys = map[uint32][]byte{}
			}
			msg.PrivateKeys[k] = freshPriv()
			fire("reveal-" + what)
		}
		out = msg
	default:
		return b
	}
	nb, err := proto.Marshal(out)
	if err != nil {
		t.Fatalf("harness: %v", err)
	}
	return nb
}
