//go:build go1.23

package gjkr

// C12 - protocol messages are only accepted from the member index the sender
// controls. GJKR part: every receiving state of the beacon DKG (phases 1, 3,
// 4, 7, 8, 10; seven message types) is fed generated (claimed index, sender
// network key, session, member status, message type) combinations through its
// real Receive method and the stored phase messages are compared with an
// independent admission model written over the plain seat list.

import (
	"context"
	"fmt"
	"math/big"
	"strings"
	"testing"

	bn256 "github.com/ethereum/go-ethereum/crypto/bn256/cloudflare"
	"github.com/keep-network/keep-core/internal/testutils"
	"github.com/keep-network/keep-core/internal/verifkit"
	"github.com/keep-network/keep-core/pkg/net"
	"github.com/keep-network/keep-core/pkg/protocol/group"
	"github.com/keep-network/keep-core/pkg/protocol/state"
	"pgregory.net/rapid"
)

// ---------------------------------------------------------------------------
// the seven GJKR message kinds

var c12KindNames = []string{
	"ephemeralPublicKey", "peerShares", "memberCommitments", "sharesAccusations",
	"publicKeySharePoints", "pointsAccusations", "misbehavedEphemeralKeys",
}

func c12BuildPayload(kind int, idx group.MemberIndex, session string) net.TaggedMarshaler {
	switch kind {
	case 0:
		return &EphemeralPublicKeyMessage{senderID: idx, sessionID: session}
	case 1:
		return &PeerSharesMessage{senderID: idx, sessionID: session}
	case 2:
		return &MemberCommitmentsMessage{senderID: idx, sessionID: session}
	case 3:
		return &SecretSharesAccusationsMessage{senderID: idx, sessionID: session}
	case 4:
		return &MemberPublicKeySharePointsMessage{senderID: idx, sessionID: session}
	case 5:
		return &PointsAccusationsMessage{senderID: idx, sessionID: session}
	default:
		return &MisbehavedEphemeralKeysMessage{senderID: idx, sessionID: session}
	}
}

// c12Ident renders the content of a message that identifies it in a case.
func c12Ident(m interface{}) string {
	switch v := m.(type) {
	case *EphemeralPublicKeyMessage:
		return fmt.Sprintf("ephemeralPublicKey/%d/%q", v.senderID, v.sessionID)
	case *PeerSharesMessage:
		return fmt.Sprintf("peerShares/%d/%q", v.senderID, v.sessionID)
	case *MemberCommitmentsMessage:
		return fmt.Sprintf("memberCommitments/%d/%q", v.senderID, v.sessionID)
	case *SecretSharesAccusationsMessage:
		return fmt.Sprintf("sharesAccusations/%d/%q", v.senderID, v.sessionID)
	case *MemberPublicKeySharePointsMessage:
		return fmt.Sprintf("publicKeySharePoints/%d/%q", v.senderID, v.sessionID)
	case *PointsAccusationsMessage:
		return fmt.Sprintf("pointsAccusations/%d/%q", v.senderID, v.sessionID)
	case *MisbehavedEphemeralKeysMessage:
		return fmt.Sprintf("misbehavedEphemeralKeys/%d/%q", v.senderID, v.sessionID)
	}
	return fmt.Sprintf("%T", m)
}

// stored reads what a state keeps for the next phase, per message kind.
func c12Stored(s state.SyncState) map[int][]interface{} {
	out := map[int][]interface{}{}
	switch st := s.(type) {
	case *ephemeralKeyPairGenerationState:
		for _, m := range st.phaseMessages {
			out[0] = append(out[0], m)
		}
	case *commitmentState:
		for _, m := range st.phaseSharesMessages {
			out[1] = append(out[1], m)
		}
		for _, m := range st.phaseCommitmentsMessages {
			out[2] = append(out[2], m)
		}
	case *commitmentsVerificationState:
		for _, m := range st.phaseAccusationsMessages {
			out[3] = append(out[3], m)
		}
	case *pointsShareState:
		for _, m := range st.phaseMessages {
			out[4] = append(out[4], m)
		}
	case *pointsValidationState:
		for _, m := range st.phaseMessages {
			out[5] = append(out[5], m)
		}
	case *keyRevealState:
		for _, m := range st.phaseMessages {
			out[6] = append(out[6], m)
		}
	}
	return out
}

var c12GjkrStates = []struct {
	name     string
	ownKinds []int
	// fromPhaseStart: senders are judged by their status when the phase
	// started (documented for the accusation phases 4 and 8)
	fromPhaseStart bool
}{
	{"phase1-ephemeralKeyPairGeneration", []int{0}, false},
	{"phase3-commitment", []int{1, 2}, false},
	{"phase4-commitmentsVerification", []int{3}, true},
	{"phase7-pointsShare", []int{4}, false},
	{"phase8-pointsValidation", []int{5}, true},
	{"phase10-keyReveal", []int{6}, false},
}

func c12G2Identity() *bn256.G2 { return new(bn256.G2).ScalarBaseMult(big.NewInt(0)) }

func TestVerif_C12_GjkrStates(t *testing.T) {
	st := verifkit.New("C12", "TestVerif_C12_GjkrStates")
	defer st.Flush()
	pool, signing := c12Pool(t)
	logger := &testutils.MockLogger{}
	channel := &c12Channel{}

	rapid.Check(t, func(t *rapid.T) {
		sc := c12GenScenario(t)
		threshold := rapid.IntRange(0, (sc.n-1)/2).Draw(t, "dishonestThreshold")
		validator := group.NewMembershipValidator(logger, sc.addresses(pool), signing)
		local, err := NewMember(logger, sc.receiver, sc.n, threshold, validator, big.NewInt(1200), c12Session)
		if err != nil {
			t.Fatalf("NewMember: %v", err)
		}
		for m := range sc.ia {
			local.group.MarkMemberAsInactive(m)
		}
		for m := range sc.dq {
			local.group.MarkMemberAsDisqualified(m)
		}
		// the member is taken through the real initialisation chain
		m1 := local.InitializeEphemeralKeysGeneration()
		m3 := m1.InitializeSymmetricKeyGeneration().InitializeCommitting()
		m4 := m3.InitializeCommitmentsVerification()
		m7 := m4.InitializeSharesJustification().InitializeQualified().InitializeSharing()

		si := rapid.IntRange(0, len(c12GjkrStates)-1).Draw(t, "state")
		spec := c12GjkrStates[si]
		caseTags := map[string]bool{}

		// allowed: the status rule of the model. For ordinary phases a seat
		// must be operating now; for phases 4 and 8 it must have been
		// operating when the phase started, whatever this member's own
		// verification decided afterwards.
		allowed := map[group.MemberIndex]bool{}
		for i := 1; i <= sc.n; i++ {
			if sc.operating(group.MemberIndex(i)) {
				allowed[group.MemberIndex(i)] = true
			}
		}
		phaseNote := ""
		lateExcluded := map[group.MemberIndex]bool{}

		var machineState state.SyncState
		switch si {
		case 0:
			machineState = &ephemeralKeyPairGenerationState{channel: channel, member: m1}
		case 1:
			machineState = &commitmentState{channel: channel, member: m3}
		case 3:
			machineState = &pointsShareState{channel: channel, member: m7}
		case 5:
			machineState = &keyRevealState{channel: channel,
				member: m7.InitializePointsJustification().InitializeRevealing()}
		case 2, 4:
			// The phase is started through the real Initiate: members that
			// sent nothing in the previous phase become inactive (not
			// allowed), members that sent a malformed message are
			// disqualified by this member's own verification and - as
			// documented - still have their accusations collected, in
			// phase 8 some members send well-formed points and stay
			// operating.
			var behaviour []string
			behaved := map[group.MemberIndex]string{}
			var sharesMsgs []*PeerSharesMessage
			var commitMsgs []*MemberCommitmentsMessage
			var pointsMsgs []*MemberPublicKeySharePointsMessage
			for i := 1; i <= sc.n; i++ {
				idx := group.MemberIndex(i)
				if idx == sc.receiver || !sc.operating(idx) {
					continue
				}
				classes := []string{"silent", "malformed", "malformed"}
				if si == 4 {
					classes = append(classes, "wellformed", "wellformed")
				}
				b := rapid.SampledFrom(classes).Draw(t, "previousPhase")
				behaviour = append(behaviour, fmt.Sprintf("%d:%s", idx, b))
				behaved[idx] = b
				caseTags["phase-start:"+b] = true
				switch b {
				case "silent":
					delete(allowed, idx)
				case "malformed":
					lateExcluded[idx] = true
					if si == 2 {
						sharesMsgs = append(sharesMsgs, &PeerSharesMessage{senderID: idx, sessionID: c12Session,
							shares: map[group.MemberIndex]*peerShares{}})
						commitMsgs = append(commitMsgs, &MemberCommitmentsMessage{senderID: idx, sessionID: c12Session,
							commitments: make([]*bn256.G1, threshold+2)})
					} else {
						pointsMsgs = append(pointsMsgs, &MemberPublicKeySharePointsMessage{senderID: idx,
							sessionID: c12Session, publicKeySharePoints: make([]*bn256.G2, threshold+2)})
					}
				case "wellformed":
					share := big.NewInt(int64(1000 + i))
					m7.receivedQualifiedSharesS[idx] = share
					points := []*bn256.G2{new(bn256.G2).ScalarBaseMult(share)}
					for k := 0; k < threshold; k++ {
						points = append(points, c12G2Identity())
					}
					pointsMsgs = append(pointsMsgs, &MemberPublicKeySharePointsMessage{senderID: idx,
						sessionID: c12Session, publicKeySharePoints: points})
				}
			}
			phaseNote = " start[" + strings.Join(behaviour, " ") + "]"
			if si == 2 {
				s := &commitmentsVerificationState{channel: channel, member: m4,
					previousPhaseSharesMessages: sharesMsgs, previousPhaseCommitmentsMessages: commitMsgs}
				if err := s.Initiate(context.Background()); err != nil {
					t.Fatalf("phase 4 Initiate: %v", err)
				}
				machineState = s
			} else {
				s := &pointsValidationState{channel: channel, member: m7, previousPhaseMessages: pointsMsgs}
				if err := s.Initiate(context.Background()); err != nil {
					t.Fatalf("phase 8 Initiate: %v", err)
				}
				machineState = s
			}
			// sanity of the set-up itself: silent members are inactive,
			// malformed ones disqualified, well-formed ones operating
			for idx, what := range behaved {
				if op := local.group.IsOperating(idx); (what == "wellformed") != op {
					t.Fatalf("set-up: member %d was %s in the previous phase but IsOperating=%v", idx, what, op)
				}
			}
		}

		c12Feed(t, st, sc, pool, &c12Receiver{
			name: spec.name, kindNames: c12KindNames, ownKinds: spec.ownKinds, allowed: allowed, lateExcluded: lateExcluded,
			note: fmt.Sprintf(" t=%d%s", threshold, phaseNote),
			build: func(_ *rapid.T, m c12Msg, _ []byte) (interface{}, string, bool, string) {
				p := c12BuildPayload(m.kind, m.idx, m.session)
				return p, p.Type(), true, ""
			},
			receive:  machineState.Receive,
			register: RegisterUnmarshallers,
			ident:    c12Ident,
			stored:   func() map[int][]interface{} { return c12Stored(machineState) },
		}, caseTags)
	})
}
