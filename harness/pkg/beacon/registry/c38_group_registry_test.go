//go:build go1.23

package registry

import (
	"errors"
	"fmt"
	"math/big"
	"os"
	"runtime"
	"sort"
	"strings"
	"sync"
	"sync/atomic"
	"testing"

	bn256 "github.com/ethereum/go-ethereum/crypto/bn256/cloudflare"

	"github.com/keep-network/keep-common/pkg/persistence"
	"github.com/keep-network/keep-core/internal/verifkit"
	"github.com/keep-network/keep-core/pkg/beacon/dkg"
	"github.com/keep-network/keep-core/pkg/beacon/event"
	"github.com/keep-network/keep-core/pkg/chain"
	"github.com/keep-network/keep-core/pkg/protocol/group"
	"github.com/keep-network/keep-core/pkg/subscription"
	"pgregory.net/rapid"
)

// C38 (beacon group registry): after any history of group registrations,
// stale-group sweeps, storage failures, crashes and restarts a restarted
// registry knows exactly the memberships the storage holds.

type c38Crash struct{}

type c38Disk struct {
	persistence.ProtectedHandle
	mu       sync.Mutex
	nextSave string            // outcome of the next Save
	archive  map[string]string // outcome of Archive per directory (default ok)
	archived []string          // directories whose Archive was applied
	saves    int
	archives int
	savedOK  int      // Save calls applied to the disk
	savedAs  []string // directory+name of the applied Save calls
	oplog    []string // applied operations in order: "save <dir><name>" / "archive <dir>"
	yields   int      // Gosched calls around the real disk write (concurrent steps)
}

func (d *c38Disk) Save(data []byte, directory string, name string) error {
	d.mu.Lock()
	o := d.nextSave
	d.nextSave = "ok"
	d.saves++
	d.mu.Unlock()
	switch o {
	case "fail":
		return errors.New("injected: input/output error")
	case "crash-before":
		panic(c38Crash{})
	}
	d.mu.Lock()
	y := d.yields
	d.mu.Unlock()
	for i := 0; i < y; i++ {
		runtime.Gosched()
	}
	if err := d.ProtectedHandle.Save(data, directory, name); err != nil {
		if o == "crash-after" {
			panic(fmt.Sprintf("VERIF-INCONCLUSIVE: real disk save failed: %v", err))
		}
		return err
	}
	d.mu.Lock()
	d.savedOK++
	d.savedAs = append(d.savedAs, directory+name)
	d.oplog = append(d.oplog, "save "+directory+name)
	d.mu.Unlock()
	for i := 0; i < y; i++ {
		runtime.Gosched()
	}
	if o == "crash-after" {
		panic(c38Crash{})
	}
	return nil
}

func (d *c38Disk) Archive(directory string) error {
	d.mu.Lock()
	o := d.archive[directory]
	d.archives++
	d.mu.Unlock()
	switch o {
	case "fail":
		return errors.New("injected: input/output error")
	case "crash-before":
		panic(c38Crash{})
	}
	d.mu.Lock()
	y := d.yields
	d.mu.Unlock()
	for i := 0; i < y; i++ {
		runtime.Gosched()
	}
	if err := d.ProtectedHandle.Archive(directory); err != nil {
		if o == "crash-after" {
			panic(fmt.Sprintf("VERIF-INCONCLUSIVE: real disk archive failed: %v", err))
		}
		return err
	}
	d.mu.Lock()
	d.archived = append(d.archived, directory)
	d.oplog = append(d.oplog, "archive "+directory)
	d.mu.Unlock()
	for i := 0; i < y; i++ {
		runtime.Gosched()
	}
	if o == "crash-after" {
		panic(c38Crash{})
	}
	return nil
}

// c38Chain answers IsStaleGroup from a drawn plan.
type c38Chain struct {
	mu      sync.Mutex
	stale   map[string]string // hex(uncompressed group key) -> "stale" | "fresh" | "error"
	queried map[string]int
}

func (c *c38Chain) OnGroupRegistered(func(groupRegistration *event.GroupRegistration)) subscription.EventSubscription {
	panic("not used")
}
func (c *c38Chain) IsGroupRegistered(groupPublicKey []byte) (bool, error) { panic("not used") }
func (c *c38Chain) IsStaleGroup(groupPublicKey []byte) (bool, error) {
	c.mu.Lock()
	defer c.mu.Unlock()
	k := fmt.Sprintf("%x", groupPublicKey)
	c.queried[k]++
	switch c.stale[k] {
	case "stale":
		return true, nil
	case "error":
		return false, errors.New("injected: chain not reachable")
	}
	return false, nil
}

type c38NopLogger struct{}

func (c38NopLogger) Debug(args ...interface{})                   {}
func (c38NopLogger) Debugf(format string, args ...interface{})   {}
func (c38NopLogger) Error(args ...interface{})                   {}
func (c38NopLogger) Errorf(format string, args ...interface{})   {}
func (c38NopLogger) Fatal(args ...interface{})                   {}
func (c38NopLogger) Fatalf(format string, args ...interface{})   {}
func (c38NopLogger) Info(args ...interface{})                    {}
func (c38NopLogger) Infof(format string, args ...interface{})    {}
func (c38NopLogger) Panic(args ...interface{})                   {}
func (c38NopLogger) Panicf(format string, args ...interface{})   {}
func (c38NopLogger) Warn(args ...interface{})                    {}
func (c38NopLogger) Warnf(format string, args ...interface{})    {}
func (c38NopLogger) Warning(args ...interface{})                 {}
func (c38NopLogger) Warningf(format string, args ...interface{}) {}

type c38Group struct {
	pk     *bn256.G2
	key    []byte // uncompressed
	dir    string // hex of the compressed key = storage directory
	shares map[group.MemberIndex]*bn256.G2
	ops    []chain.Address
}

// c38Render is the harness' own canonical rendering of a membership (key
// material and channel), independent of the protobuf encoding.
// memberships are never mutated; reset per case, used by the harness goroutine only
var c38RenderCache = map[*Membership]string{}

func c38Render(m *Membership) string {
	if m == nil || m.Signer == nil {
		return "<nil>"
	}
	if r, ok := c38RenderCache[m]; ok {
		return r
	}
	r := c38RenderUncached(m)
	c38RenderCache[m] = r
	return r
}

func c38RenderUncached(m *Membership) string {
	s := m.Signer
	var sb strings.Builder
	fmt.Fprintf(&sb, "member=%d group=%x channel=%q ops=%v", s.MemberID(), s.GroupPublicKeyBytes(), m.ChannelName, s.GroupOperators())
	// the private share is observable through the signature share it produces
	fmt.Fprintf(&sb, " sigshare=%x", s.CalculateSignatureShare(new(bn256.G1).ScalarBaseMult(big.NewInt(7))).Marshal())
	var ids []int
	for id := range s.GroupPublicKeyShares() {
		ids = append(ids, int(id))
	}
	sort.Ints(ids)
	for _, id := range ids {
		fmt.Fprintf(&sb, " share[%d]=%x", id, s.GroupPublicKeyShares()[group.MemberIndex(id)].Marshal())
	}
	return sb.String()
}

type c38Machine struct {
	t      *rapid.T
	dir    string
	disk   *c38Disk
	chain  *c38Chain
	reg    *Groups
	groups []c38Group
	tr     []string

	// what the disk holds, following the storage calls that were applied:
	// group -> member -> rendering (last write wins)
	storage map[int]map[group.MemberIndex]string
	// what must survive, following the API: RegisterGroup returned nil for
	// (group, member) and no archival of the group was applied since
	registered map[int]map[group.MemberIndex]string

	archives, crashes, failures, restarts, sweeps, chainErrors, latestSkipped, overwrites int
	concurrentSweeps                                                                      int
	concurrentSteps, concurrentNewGroup                                                   int
	archiveSinceRestart, crashSinceRestart, ntRestart                                     bool
}

func (m *c38Machine) logf(format string, a ...any) { m.tr = append(m.tr, fmt.Sprintf(format, a...)) }

func (m *c38Machine) fail(format string, a ...any) {
	m.t.Logf("violation: "+format, a...)
	m.t.Logf("history: %s", strings.Join(m.tr, " "))
	m.t.Fatalf(format, a...)
}

func (m *c38Machine) call(f func() error) (err error, crashed bool) {
	defer func() {
		if r := recover(); r != nil {
			if _, ok := r.(c38Crash); ok {
				crashed = true
				return
			}
			panic(r)
		}
	}()
	return f(), false
}

func (m *c38Machine) open() {
	base, err := persistence.NewProtectedDiskHandle(m.dir)
	if err != nil {
		m.t.Fatalf("VERIF-INCONCLUSIVE: cannot open the scratch storage: %v", err)
	}
	m.disk = &c38Disk{ProtectedHandle: base, nextSave: "ok", archive: map[string]string{}}
	m.chain = &c38Chain{stale: map[string]string{}, queried: map[string]int{}}
	m.reg = NewGroupRegistry(c38NopLogger{}, m.chain, m.disk)
	m.reg.LoadExistingGroups()
}

// stored: does the disk hold at least one membership of the group? At every
// quiescent point the running registry must know exactly those groups.
func (m *c38Machine) stored(g int) bool { return len(m.storage[g]) > 0 }

func (m *c38Machine) known(when string) {
	for g := range m.groups {
		got := m.reg.GetGroup(m.groups[g].key)
		if (len(got) > 0) != m.stored(g) {
			m.fail("%s: registry knows group %d: %v (%d memberships), storage holds it: %v", when, g, len(got) > 0, len(got), m.stored(g))
		}
		have := map[group.MemberIndex]bool{}
		for _, ms := range got {
			if ms == nil || ms.Signer == nil || fmt.Sprintf("%x", ms.Signer.GroupPublicKeyBytes()) != fmt.Sprintf("%x", m.groups[g].key) {
				m.fail("%s: GetGroup of group %d returns a membership of another group", when, g)
			}
			have[ms.Signer.MemberID()] = true
			if _, ok := m.storage[g][ms.Signer.MemberID()]; !ok {
				m.fail("%s: running registry holds member %d of group %d which storage does not hold", when, ms.Signer.MemberID(), g)
			}
		}
		// seat level: the running registry holds exactly the members the disk
		// holds (a repeated registration may leave an older copy in memory; the
		// newest key material must be there)
		var ids []int
		for id := range m.storage[g] {
			ids = append(ids, int(id))
		}
		sort.Ints(ids)
		for _, i := range ids {
			id := group.MemberIndex(i)
			if !have[id] {
				m.fail("%s: storage holds member %d of group %d but the running registry does not know that membership (it knows %d; a restarted registry would know %d)", when, id, g, len(got), len(m.storage[g]))
			}
			found := false
			for _, ms := range got {
				if ms.Signer.MemberID() == id && c38Render(ms) == m.storage[g][id] {
					found = true
				}
			}
			if !found {
				m.fail("%s: running registry holds member %d of group %d with other key material than storage", when, id, g)
			}
		}
	}
}

func (m *c38Machine) afterRestart() {
	for g := range m.groups {
		want := m.storage[g]
		got := m.reg.GetGroup(m.groups[g].key)
		if len(got) != len(want) {
			m.fail("after restart: group %d has %d memberships in the registry, storage holds %d", g, len(got), len(want))
		}
		seen := map[group.MemberIndex]bool{}
		for _, ms := range got {
			id := ms.Signer.MemberID()
			if seen[id] {
				m.fail("after restart: group %d member %d loaded twice", g, id)
			}
			seen[id] = true
			rec, ok := want[id]
			if !ok {
				m.fail("after restart: group %d member %d is in the registry but not in storage", g, id)
			}
			if r := c38Render(ms); r != rec {
				m.fail("after restart: group %d member %d came back different\nstored: %s\nloaded: %s", g, id, rec, r)
			}
		}
	}
	// the other direction: every membership registered successfully (API
	// returned nil) and not archived must have come back
	for g := range m.groups {
		got := m.reg.GetGroup(m.groups[g].key)
		for id, rec := range m.registered[g] {
			found := false
			for _, ms := range got {
				if ms != nil && ms.Signer != nil && ms.Signer.MemberID() == id && c38Render(ms) == rec {
					found = true
				}
			}
			if !found {
				m.fail("after restart: RegisterGroup had returned success for group %d member %d and the group was not archived, but the restarted registry does not hold that membership with its key material (%d memberships loaded)", g, id, len(got))
			}
		}
	}
	m.known("after restart")
}

// compareWithRestarted loads a second registry from the same disk, checks it
// against the models like after a restart, and keeps the running one.
func (m *c38Machine) compareWithRestarted() {
	running, disk, chain := m.reg, m.disk, m.chain
	m.open()
	m.afterRestart()
	for g := range m.groups {
		a, b := map[group.MemberIndex]bool{}, map[group.MemberIndex]bool{}
		for _, ms := range running.GetGroup(m.groups[g].key) {
			a[ms.Signer.MemberID()] = true
		}
		for _, ms := range m.reg.GetGroup(m.groups[g].key) {
			b[ms.Signer.MemberID()] = true
		}
		if len(a) != len(b) {
			m.fail("running registry knows %d members of group %d, a registry restarted on the same storage knows %d", len(a), g, len(b))
		}
		for id := range b {
			if !a[id] {
				m.fail("a restarted registry knows member %d of group %d, the running one does not", id, g)
			}
		}
	}
	m.reg, m.disk, m.chain = running, disk, chain
}

// registerConcurrently registers several members of one group from parallel
// goroutines released together (the DKG executor registers one signer per
// controlled seat this way). Storage works; the disk layer yields.
func (m *c38Machine) registerConcurrently(g int, members []group.MemberIndex, shares []int64, channel string, sweeps int, yields int) {
	type job struct {
		signer *dkg.ThresholdSigner // nil: a stale-group sweep that finds group g stale
		rec    string
		err    error
		p      any
	}
	gr := m.groups[g]
	var jobs []*job
	for i, id := range members {
		signer := dkg.NewThresholdSigner(id, gr.pk, big.NewInt(shares[i]), gr.shares, gr.ops)
		jobs = append(jobs, &job{signer: signer, rec: c38Render(&Membership{Signer: signer, ChannelName: channel})})
	}
	for i := 0; i < sweeps; i++ {
		jobs = append(jobs, &job{})
	}
	wasStored := m.stored(g)
	m.chain.mu.Lock()
	m.chain.stale = map[string]string{fmt.Sprintf("%x", gr.key): "stale"} // the other groups are fresh
	m.chain.mu.Unlock()
	m.disk.mu.Lock()
	m.disk.nextSave = "ok"
	m.disk.archive = map[string]string{}
	m.disk.yields = yields
	mark := len(m.disk.oplog)
	m.disk.mu.Unlock()
	var ready atomic.Int32
	var gate atomic.Bool
	var wg sync.WaitGroup
	for _, j := range jobs {
		wg.Add(1)
		go func(j *job) {
			defer wg.Done()
			defer func() { j.p = recover() }()
			ready.Add(1)
			for !gate.Load() {
				runtime.Gosched()
			}
			if j.signer == nil {
				m.reg.UnregisterStaleGroups(nil)
			} else {
				j.err = m.reg.RegisterGroup(j.signer, channel)
			}
		}(j)
	}
	for ready.Load() != int32(len(jobs)) {
		runtime.Gosched()
	}
	gate.Store(true)
	wg.Wait()
	m.disk.mu.Lock()
	m.disk.yields = 0
	oplog := append([]string{}, m.disk.oplog[mark:]...)
	m.disk.mu.Unlock()
	m.logf("concurrently(g%d,register m%v,sweep x%d,yields=%d)", g, members, sweeps, yields)
	m.concurrentSteps++
	if !wasStored {
		m.concurrentNewGroup++
	}
	if sweeps > 0 {
		m.concurrentSweeps++
	}
	for _, j := range jobs {
		if j.p != nil {
			m.fail("a registry call panicked in a concurrent step: %v", j.p)
		}
	}
	// The storage calls of one registry are serialised by its lock, so the
	// order in which they were applied is a linearisation of the step: replay
	// it on the models (any order of the concurrent calls is acceptable).
	byMember := map[string]*job{}
	for i, j := range jobs[:len(members)] {
		byMember[fmt.Sprintf("save %s/membership_%d", gr.dir, members[i])] = j
	}
	saved := map[*job]bool{}
	for _, a := range oplog {
		if j, ok := byMember[a]; ok {
			id := j.signer.MemberID()
			if _, again := m.storage[g][id]; again {
				m.overwrites++
			}
			m.storage[g][id] = j.rec
			saved[j] = true
			if _, known := m.registered[g][id]; known || j.err == nil {
				m.registered[g][id] = j.rec
			}
		} else if a == "archive "+gr.dir {
			m.storage[g] = map[group.MemberIndex]string{}
			m.registered[g] = map[group.MemberIndex]string{}
			m.archives++
			m.archiveSinceRestart = true
		} else {
			m.fail("concurrent step on group %d applied the unexpected storage operation %q", g, a)
		}
	}
	for _, j := range jobs[:len(members)] {
		if j.err == nil && !saved[j] {
			m.registered[g][j.signer.MemberID()] = j.rec // success reported without a write
		}
	}
	// running registry == restarted registry == model
	m.known("after " + m.tr[len(m.tr)-1])
	m.compareWithRestarted()
}

func (m *c38Machine) restart(why string) {
	if m.archiveSinceRestart && m.crashSinceRestart {
		m.ntRestart = true
	}
	m.archiveSinceRestart, m.crashSinceRestart = false, false
	m.restarts++
	m.logf("restart(%s)", why)
	m.open()
	m.afterRestart()
}

func TestVerif_C38_GroupRegistry(t *testing.T) {
	st := verifkit.New("C38", "TestVerif_C38_GroupRegistry")
	defer st.Flush()
	rapid.Check(t, func(t *rapid.T) {
		dir, err := os.MkdirTemp(".", "c38-")
		if err != nil {
			t.Fatalf("VERIF-INCONCLUSIVE: %v", err)
		}
		defer os.RemoveAll(dir)
		c38RenderCache = map[*Membership]string{}
		m := &c38Machine{t: t, dir: dir, storage: map[int]map[group.MemberIndex]string{}, registered: map[int]map[group.MemberIndex]string{}}
		used := map[int64]bool{}
		for g := 0; g < 3; g++ {
			k := rapid.Int64Range(1, 1<<40).Draw(t, "groupKey")
			for used[k] {
				k++
			}
			used[k] = true
			pk := new(bn256.G2).ScalarBaseMult(big.NewInt(k))
			signer := dkg.NewThresholdSigner(1, pk, big.NewInt(1), nil, nil)
			shares := map[group.MemberIndex]*bn256.G2{}
			for i, n := 1, rapid.IntRange(0, 3).Draw(t, "publicShares"); i <= n; i++ {
				shares[group.MemberIndex(i)] = new(bn256.G2).ScalarBaseMult(big.NewInt(k + int64(i)))
			}
			ops := make([]chain.Address, rapid.IntRange(0, 3).Draw(t, "operators"))
			for i := range ops {
				ops[i] = chain.Address(fmt.Sprintf("0x%02d%02d", g, i))
			}
			m.groups = append(m.groups, c38Group{pk: pk, key: signer.GroupPublicKeyBytes(),
				dir: fmt.Sprintf("%x", signer.GroupPublicKeyBytesCompressed()), shares: shares, ops: ops})
			m.storage[g] = map[group.MemberIndex]string{}
			m.registered[g] = map[group.MemberIndex]string{}
		}
		m.open()
		m.afterRestart()

		outcomes := []string{"ok", "ok", "ok", "ok", "ok", "ok", "ok", "fail", "fail", "crash-before", "crash-after", "crash-after"}
		steps := rapid.IntRange(3, 30).Draw(t, "steps")
		for i := 0; i < steps; i++ {
			op := rapid.SampledFrom([]string{"register", "register", "register", "register-concurrently", "sweep", "sweep", "restart"}).Draw(t, "op")
			g := rapid.IntRange(0, 2).Draw(t, "group")
			id := group.MemberIndex(rapid.IntRange(1, 5).Draw(t, "member"))
			share := rapid.Int64Range(1, 1<<30).Draw(t, "privateShare")
			channel := rapid.SampledFrom([]string{"", "chan-a", "chan-b"}).Draw(t, "channel")
			outcome := rapid.SampledFrom(outcomes).Draw(t, "outcome")
			// sweep parameters (drawn unconditionally)
			latest := rapid.IntRange(-1, 2).Draw(t, "latestGroup")
			var staleness, archOutcome [3]string
			for k := 0; k < 3; k++ {
				staleness[k] = rapid.SampledFrom([]string{"stale", "stale", "fresh", "error"}).Draw(t, "stale")
				archOutcome[k] = rapid.SampledFrom([]string{"ok", "ok", "ok", "fail", "crash-before", "crash-after"}).Draw(t, "archiveOutcome")
			}
			// parameters of a concurrent step (drawn unconditionally)
			memberOrder := rapid.Permutation([]group.MemberIndex{1, 2, 3, 4, 5}).Draw(t, "members")
			nMembers := rapid.IntRange(2, 5).Draw(t, "memberCount")
			memberShares := rapid.SliceOfN(rapid.Int64Range(1, 1<<30), 5, 5).Draw(t, "memberShares")
			yields := rapid.IntRange(0, 3).Draw(t, "diskYields")
			concSweeps := rapid.SampledFrom([]int{0, 0, 1, 1, 2}).Draw(t, "concurrentSweeps")
			if rapid.IntRange(0, 5).Draw(t, "sweepsOnly") == 0 && concSweeps == 2 {
				nMembers = 0 // sweep || sweep
			}
			switch op {
			case "register-concurrently":
				m.registerConcurrently(g, memberOrder[:nMembers], memberShares[:nMembers], channel, concSweeps, yields)
				continue
			case "register":
				gr := m.groups[g]
				signer := dkg.NewThresholdSigner(id, gr.pk, big.NewInt(share), gr.shares, gr.ops)
				rec := c38Render(&Membership{Signer: signer, ChannelName: channel})
				m.disk.nextSave = outcome
				savedBefore := m.disk.savedOK
				err, crashed := m.call(func() error { return m.reg.RegisterGroup(signer, channel) })
				m.disk.nextSave = "ok"
				m.logf("register(g%d,m%d,%s)", g, id, outcome)
				if m.disk.savedOK > savedBefore {
					if _, again := m.storage[g][id]; again {
						m.overwrites++
					}
					m.storage[g][id] = rec
					if _, ok := m.registered[g][id]; ok {
						m.registered[g][id] = rec
					}
				}
				if err == nil && !crashed {
					m.registered[g][id] = rec
				}
				if outcome == "fail" {
					m.failures++
				}
				if crashed {
					m.crashes++
					m.crashSinceRestart = true
					m.restart("crash")
					continue
				}
			case "sweep":
				var latestKey []byte
				if latest >= 0 {
					latestKey = m.groups[latest].key
				}
				m.chain.stale = map[string]string{}
				m.disk.archive = map[string]string{}
				var render []string
				for k := range m.groups {
					m.chain.stale[fmt.Sprintf("%x", m.groups[k].key)] = staleness[k]
					m.disk.archive[m.groups[k].dir] = archOutcome[k]
					render = append(render, fmt.Sprintf("g%d:%s/%s", k, staleness[k], archOutcome[k]))
				}
				m.chain.queried = map[string]int{}
				archivedBefore := len(m.disk.archived)
				_, crashed := m.call(func() error { m.reg.UnregisterStaleGroups(latestKey); return nil })
				m.sweeps++
				m.logf("sweep(latest=%d,%s)", latest, strings.Join(render, ","))
				applied := map[string]bool{}
				for _, d := range m.disk.archived[archivedBefore:] {
					applied[d] = true
				}
				// The storage model follows the Archive calls that were applied;
				// the registry must have dropped exactly those groups from memory.
				// (Which groups a sweep selects is not part of this property; the
				// selection inputs are only counted for the statistics.)
				for k := range m.groups {
					if m.stored(k) && k == latest {
						m.latestSkipped++
					}
					if m.stored(k) && k != latest && staleness[k] == "error" {
						m.chainErrors++
					}
					if m.stored(k) && k != latest && staleness[k] == "stale" && archOutcome[k] == "fail" {
						m.failures++
					}
				}
				for k := range m.groups {
					if applied[m.groups[k].dir] {
						m.storage[k] = map[group.MemberIndex]string{}
						m.registered[k] = map[group.MemberIndex]string{}
						m.archives++
						m.archiveSinceRestart = true
					}
				}
				if crashed {
					m.crashes++
					m.crashSinceRestart = true
					m.restart("crash")
					continue
				}
			case "restart":
				m.restart("clean")
				continue
			}
			m.known("after " + m.tr[len(m.tr)-1])
		}
		m.restart("final")

		var stored []string
		for g := range m.groups {
			stored = append(stored, fmt.Sprint(len(m.storage[g])))
		}
		sort.Strings(stored)
		st.Case(m.ntRestart, strings.Join(m.tr, " "),
			fmt.Sprintf("archives:%d", min(m.archives, 3)), fmt.Sprintf("crashes:%d", min(m.crashes, 3)),
			fmt.Sprintf("storage-failures:%d", min(m.failures, 2)), fmt.Sprintf("restarts:%d", min(m.restarts, 5)),
			fmt.Sprintf("sweeps:%d", min(m.sweeps, 3)), fmt.Sprintf("chain-errors:%v", m.chainErrors > 0),
			fmt.Sprintf("latest-group-skipped:%v", m.latestSkipped > 0), fmt.Sprintf("member-overwritten:%v", m.overwrites > 0),
			fmt.Sprintf("concurrent-registration-steps:%d", min(m.concurrentSteps, 4)),
			fmt.Sprintf("concurrent-registration-of-new-group:%d", min(m.concurrentNewGroup, 3)),
			fmt.Sprintf("concurrent-steps-with-sweep:%d", min(m.concurrentSweeps, 3)),
			"memberships-at-end:"+strings.Join(stored, "/"))
	})
}
