//go:build go1.23

package registry

import (
	"fmt"
	"github.com/keep-network/keep-core/internal/testutils"
	"math/big"
	"sort"
	"testing"

	bn256 "github.com/ethereum/go-ethereum/crypto/bn256/cloudflare"
	"github.com/keep-network/keep-core/internal/c19gen"
	"github.com/keep-network/keep-core/internal/c19wire"
	"github.com/keep-network/keep-core/pkg/beacon/dkg"
	"github.com/keep-network/keep-core/pkg/chain"
	"pgregory.net/rapid"
)

// C19 - pkg/beacon/registry: the persisted beacon group membership, which
// embeds the threshold signer record of pkg/beacon/dkg.

func c19GenMembership(t *rapid.T) c19wire.Msg {
	shares := map[uint8]*bn256.G2{}
	for _, id := range c19wire.GenIndexSet(t, "shareOwner", 4) {
		shares[id] = c19gen.GenG2(t, "publicKeyShare")
	}
	var ops []chain.Address
	for i, n := 0, rapid.IntRange(0, 4).Draw(t, "operators"); i < n; i++ {
		ops = append(ops, chain.Address(c19wire.GenText(t, "operator")))
	}
	var share *big.Int = c19wire.GenBig(t, "privateKeyShare")
	return &Membership{
		Signer: dkg.NewThresholdSigner(
			c19wire.GenIndex(t, "memberIndex"),
			c19gen.GenG2(t, "groupPublicKey"),
			share,
			shares,
			ops,
		),
		ChannelName: c19wire.GenText(t, "channel"),
	}
}

func c19Codecs() []c19wire.Codec {
	return []c19wire.Codec{
		{
			Name: "registry.Membership", Storage: true,
			New: func() c19wire.Msg { return &Membership{} },
			Gen: c19GenMembership,
			Touch: func(m c19wire.Msg) {
				s := m.(*Membership).Signer
				_ = s.MemberID()
				_ = s.GroupPublicKeyBytes()
				// GroupPublicKeyBytesCompressed is not exercised: altbn128
				// compression panics on the identity point (y = 0), which the
				// decoder accepts as a group public key; that is the domain
				// limit of the compression (C04), see notes/C19.md O2.
				_ = s.GroupOperators()
				_ = s.CalculateSignatureShare(new(bn256.G1).ScalarBaseMult(big.NewInt(7)))
			},
		},
	}
}

func TestVerif_C19_BeaconRegistryRoundTrip(t *testing.T) {
	c19wire.RunRoundTrip(t, "TestVerif_C19_BeaconRegistryRoundTrip", c19Codecs())
}

func TestVerif_C19_BeaconRegistryHostile(t *testing.T) {
	c19wire.RunHostile(t, "TestVerif_C19_BeaconRegistryHostile", c19Codecs())
}

// c19Loaders: the beacon group registry loader (start-up), the production
// caller of Membership.Unmarshal.
func c19Loaders() []c19wire.Loader {
	codecs := c19Codecs()
	return []c19wire.Loader{{
		Name:   "registry.Groups.LoadExistingGroups",
		Codecs: codecs, Record: 0,
		Load: func(h *c19wire.MemHandle) ([]string, error) {
			g := NewGroupRegistry(&testutils.MockLogger{}, nil, h)
			g.LoadExistingGroups()
			var out []string
			for _, memberships := range g.myGroups {
				for _, m := range memberships {
					out = append(out, c19StableRender(m))
				}
			}
			return out, nil
		},
		Expect: func(f c19wire.File) (string, bool) {
			v, ok := c19wire.Decode(&codecs[0], f.Content)
			if !ok {
				return "", false
			}
			return c19StableRender(v.(*Membership)), true
		},
	}}
}

// c19StableRender identifies a loaded membership. The values of the public key
// share map are left out: share keys above 255 in a stored record are
// truncated by the decoder (notes O3) and when two of them collide the
// surviving share depends on map iteration order, so two decodings of the
// same damaged file may differ there.
func c19StableRender(m *Membership) string {
	s := m.Signer
	var keys []int
	for k := range s.GroupPublicKeyShares() {
		keys = append(keys, int(k))
	}
	sort.Ints(keys)
	// the private key share is not reachable from this package: a signature
	// share over a fixed message stands for it
	sig := s.CalculateSignatureShare(new(bn256.G1).ScalarBaseMult(big.NewInt(7))).Marshal()
	return fmt.Sprintf("member=%d key=%x share=%x shareOwners=%v operators=%q channel=%q",
		s.MemberID(), s.GroupPublicKeyBytes(), sig, keys, s.GroupOperators(), m.ChannelName)
}

func TestVerif_C19_BeaconRegistryLoaders(t *testing.T) {
	c19wire.RunLoaders(t, "TestVerif_C19_BeaconRegistryLoaders", c19Loaders())
}

func FuzzVerif_C19_BeaconRegistry(f *testing.F) { c19wire.RunFuzz(f, c19Codecs()) }
