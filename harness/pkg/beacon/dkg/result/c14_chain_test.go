//go:build go1.23

package result

import (
	"fmt"
	"testing"

	"github.com/keep-network/keep-core/internal/testutils"
	"github.com/keep-network/keep-core/internal/verifkit"
	beaconchain "github.com/keep-network/keep-core/pkg/beacon/chain"
	"github.com/keep-network/keep-core/pkg/protocol/group"
	"github.com/keep-network/keep-core/pkg/protocol/state"
	"pgregory.net/rapid"
)

// TestVerif_C14_ResultChainDuration: the states of the real beacon result
// publication protocol, walked through Next() as Publish sets them up: the
// states before the submission state add up to PrePublicationBlocks(), and
// the start block the submission state hands to the submitter (the reference
// block of the members' submission slots) is exactly the block at which the
// block-synchronised machine enters that state: start + PrePublicationBlocks().
func TestVerif_C14_ResultChainDuration(t *testing.T) {
	st := verifkit.New("C14", "TestVerif_C14_ResultChainDuration")
	defer st.Flush()
	rapid.Check(t, func(t *rapid.T) {
		n := rapid.IntRange(1, 64).Draw(t, "groupSize")
		idx := group.MemberIndex(rapid.IntRange(1, n).Draw(t, "member"))
		start := uint64(rapid.IntRange(0, 10_000_000).Draw(t, "start"))
		var cur state.SyncState = &resultSigningState{
			member:                  NewSigningMember(&testutils.MockLogger{}, idx, group.NewGroup((n-1)/2, n), nil, "c14"),
			result:                  &beaconchain.DKGResult{GroupPublicKey: []byte{1}},
			signatureMessages:       make([]*DKGResultHashSignatureMessage, 0),
			signingStartBlockHeight: start,
		}
		at := start // block at which the machine enters `cur`
		var shape []string
		count := 0
		var last state.SyncState
		var before uint64
		for cur != nil {
			count++
			if count > 16 {
				t.Fatalf("state chain does not end")
			}
			if cur.MemberIndex() != idx {
				t.Fatalf("state %T reports member index %d, expected %d", cur, cur.MemberIndex(), idx)
			}
			switch s := cur.(type) {
			case *signaturesVerificationState:
				if s.verificationStartBlockHeight != at {
					t.Fatalf("verification state believes it starts at block %d, the machine enters it at block %d", s.verificationStartBlockHeight, at)
				}
			case *resultSubmissionState:
				before = at - start
				if s.submissionStartBlockHeight != at {
					t.Fatalf("submission state starts the members' slots at block %d, the machine enters it at block %d (start %d + %d)", s.submissionStartBlockHeight, at, start, before)
				}
			}
			shape = append(shape, fmt.Sprintf("%d+%d", cur.DelayBlocks(), cur.ActiveBlocks()))
			at += cur.DelayBlocks() + cur.ActiveBlocks()
			last = cur
			next, err := cur.Next()
			if err != nil {
				t.Fatalf("Next of %T: %v", cur, err)
			}
			cur = next
		}
		if _, ok := last.(*resultSubmissionState); !ok {
			t.Fatalf("chain ends in %T, not in the submission state", last)
		}
		if before != PrePublicationBlocks() {
			t.Fatalf("the states before the submission add up to %d blocks %v, PrePublicationBlocks() says %d", before, shape, PrePublicationBlocks())
		}
		st.Case(true, fmt.Sprintf("N=%d member=%d start=%d states=%v", n, idx, start, shape), fmt.Sprintf("states:%d", count))
	})
}
