//go:build go1.23

package result

import (
	"fmt"
	"sync"
	"testing"
	"time"

	"github.com/keep-network/keep-core/internal/testutils"
	"github.com/keep-network/keep-core/internal/verifkit"
	beaconchain "github.com/keep-network/keep-core/pkg/beacon/chain"
	"github.com/keep-network/keep-core/pkg/beacon/event"
	"github.com/keep-network/keep-core/pkg/protocol/group"
	"github.com/keep-network/keep-core/pkg/subscription"
	"pgregory.net/rapid"
)

const c47Wait = 20 * time.Second

// c47Chain is the beacon chain seen by SubmittingMember.SubmitDKGResult:
// configuration, "is the group registered already", the result-submitted
// subscription and the submission itself (recorded with its block).
type c47Chain struct {
	beaconchain.Interface
	cfg *beaconchain.Config
	bc  *verifkit.FakeBlockCounter

	mu           sync.Mutex
	registered   bool
	handlers     map[int]func(*event.DKGResultSubmission)
	nextHandler  int
	submitBlocks []uint64
	submitIndex  []group.MemberIndex

	// landDuringQuery: another member's result is accepted by the chain (and
	// announced to whoever is subscribed at that instant) while the member's
	// IsGroupRegistered query is in flight: the answer was computed before.
	landDuringQuery bool
	landed          chan struct{} // closed once that happened
	landHandlers    []func(*event.DKGResultSubmission)
	landLost        bool          // nobody was subscribed at that instant
	landDelivered   chan struct{} // closed once the subscribers took the event
}

func (c *c47Chain) GetConfig() *beaconchain.Config { return c.cfg }

func (c *c47Chain) IsGroupRegistered(groupPublicKey []byte) (bool, error) {
	c.mu.Lock()
	answer := c.registered
	if !c.landDuringQuery || c.registered {
		c.mu.Unlock()
		return answer, nil
	}
	// the answer is on its way back; now the competing result lands
	c.landDuringQuery = false
	c.registered = true
	h := c.bc.Height()
	for _, hd := range c.handlers {
		c.landHandlers = append(c.landHandlers, hd)
	}
	hs := c.landHandlers
	c.landLost = len(hs) == 0
	c.mu.Unlock()
	if len(hs) > 0 {
		// chain events are delivered by the chain's own routine
		go func() {
			for _, hd := range hs {
				hd(&event.DKGResultSubmission{MemberIndex: 1, GroupPublicKey: []byte{0xAB}, BlockNumber: h})
			}
			close(c.landDelivered)
		}()
	}
	close(c.landed)
	return answer, nil
}

func (c *c47Chain) OnDKGResultSubmitted(h func(*event.DKGResultSubmission)) subscription.EventSubscription {
	c.mu.Lock()
	defer c.mu.Unlock()
	id := c.nextHandler
	c.nextHandler++
	c.handlers[id] = h
	return subscription.NewEventSubscription(func() {
		c.mu.Lock()
		delete(c.handlers, id)
		c.mu.Unlock()
	})
}

func (c *c47Chain) SubmitDKGResult(index beaconchain.GroupMemberIndex, r *beaconchain.DKGResult, sigs map[beaconchain.GroupMemberIndex][]byte) error {
	c.mu.Lock()
	defer c.mu.Unlock()
	c.submitBlocks = append(c.submitBlocks, c.bc.Height())
	c.submitIndex = append(c.submitIndex, index)
	return nil
}

func (c *c47Chain) liveHandlers() []func(*event.DKGResultSubmission) {
	c.mu.Lock()
	defer c.mu.Unlock()
	var out []func(*event.DKGResultSubmission)
	for _, h := range c.handlers {
		out = append(out, h)
	}
	return out
}

func c47Signatures(n int) map[group.MemberIndex][]byte {
	m := map[group.MemberIndex][]byte{}
	for i := 1; i <= n; i++ {
		m[group.MemberIndex(i)] = []byte{byte(i)}
	}
	return m
}

func c47GenGroupSize(t *rapid.T) int {
	switch rapid.SampledFrom([]string{"small", "small", "mid", "64"}).Draw(t, "sizeKind") {
	case "small":
		return rapid.IntRange(1, 6).Draw(t, "groupSize")
	case "mid":
		return rapid.IntRange(7, 63).Draw(t, "groupSizeMid")
	}
	return 64
}

// c47Slot: the block the real waitForSubmissionEligibility waits for.
func c47Slot(t *rapid.T, index group.MemberIndex, start, step uint64) uint64 {
	bc := verifkit.NewFakeBlockCounter(0)
	m := NewSubmittingMember(&testutils.MockLogger{}, index)
	if _, err := m.waitForSubmissionEligibility(bc, start, step); err != nil {
		t.Fatalf("waitForSubmissionEligibility: %v", err)
	}
	if p, regs := bc.Pending(); p != 1 || regs != 1 {
		t.Fatalf("member %d registered %d waiters (%d pending), expected exactly one", index, regs, p)
	}
	return bc.MinPendingHeight()
}

// TestVerif_C47_DKGResultSlots: the beacon DKG result slots of all members of
// a group are pairwise different for one start block, not before it, and are
// start + (index-1)*step as the chain configuration documents.
func TestVerif_C47_DKGResultSlots(t *testing.T) {
	st := verifkit.New("C47", "TestVerif_C47_DKGResultSlots")
	defer st.Flush()
	rapid.Check(t, func(t *rapid.T) {
		n := c47GenGroupSize(t)
		step := uint64(rapid.IntRange(1, 6).Draw(t, "step"))
		start := uint64(rapid.IntRange(1, 10_000_000).Draw(t, "start"))
		desc := fmt.Sprintf("N=%d step=%d start=%d", n, step, start)
		owner := map[uint64]int{}
		for i := 1; i <= n; i++ {
			slot := c47Slot(t, group.MemberIndex(i), start, step)
			if slot < start {
				t.Fatalf("member %d waits for block %d before the start block; %s", i, slot, desc)
			}
			if j, dup := owner[slot]; dup {
				t.Fatalf("members %d and %d share the slot at block %d; %s", j, i, slot, desc)
			}
			owner[slot] = i
			if want := start + uint64(i-1)*step; slot != want {
				t.Fatalf("member %d waits for block %d, expected T_init + (index-1)*T_step = %d; %s", i, slot, want, desc)
			}
		}
		st.Case(n > 1, desc, fmt.Sprintf("size64:%v", n == 64), fmt.Sprintf("step:%d", step))
	})
}

// TestVerif_C47_DKGResultSubmitHistory drives one member through
// SubmitDKGResult: it submits exactly once, at the block of its slot (at once
// if the slot is already past), never earlier; it does not submit when the
// group is already registered or when the result-submitted event of another
// member is delivered before its slot.
func TestVerif_C47_DKGResultSubmitHistory(t *testing.T) {
	st := verifkit.New("C47", "TestVerif_C47_DKGResultSubmitHistory")
	defer st.Flush()
	rapid.Check(t, func(t *rapid.T) {
		n := rapid.SampledFrom([]int{1, 2, 3, 5, 8, 16, 64}).Draw(t, "groupSize")
		honest := n/2 + 1
		step := uint64(rapid.IntRange(1, 4).Draw(t, "step"))
		start := uint64(rapid.IntRange(5, 100_000).Draw(t, "start"))
		index := group.MemberIndex(rapid.IntRange(1, n).Draw(t, "member"))
		if rapid.Bool().Draw(t, "lateMember") {
			index = group.MemberIndex(rapid.IntRange(max(1, n-2), n).Draw(t, "memberLate"))
		}
		slot := c47Slot(t, index, start, step)
		arrive := uint64(rapid.IntRange(int(start)-2, int(slot)+2).Draw(t, "arriveBlock"))
		if rapid.Bool().Draw(t, "arriveAtStart") {
			arrive = start - uint64(rapid.IntRange(0, 2).Draw(t, "arriveBefore"))
		}
		due := slot
		if arrive > due {
			due = arrive
		}
		kinds := []string{"none", "none", "registered"}
		if arrive < slot {
			kinds = append(kinds, "before", "before", "just-before", "just-before", "during-query", "during-query")
		}
		kind := rapid.SampledFrom(kinds).Draw(t, "competing")
		var eventBlock uint64
		switch kind {
		case "during-query":
			eventBlock = arrive
		case "before":
			eventBlock = uint64(rapid.IntRange(int(arrive), int(slot)-1).Draw(t, "eventBlock"))
		case "just-before":
			eventBlock = slot - 1
		}
		desc := fmt.Sprintf("N=%d step=%d start=%d member=%d slot=%d arrive=%d competing=%s@%d", n, step, start, index, slot, arrive, kind, eventBlock)

		bc := verifkit.NewFakeBlockCounter(arrive)
		ch := &c47Chain{cfg: &beaconchain.Config{GroupSize: n, HonestThreshold: honest, ResultPublicationBlockStep: step, RelayEntryTimeout: uint64(n) * step},
			bc: bc, handlers: map[int]func(*event.DKGResultSubmission){}, registered: kind == "registered",
			landDuringQuery: kind == "during-query", landed: make(chan struct{}), landDelivered: make(chan struct{})}
		member := NewSubmittingMember(&testutils.MockLogger{}, index)
		done := make(chan error, 1)
		go func() {
			done <- member.SubmitDKGResult(&beaconchain.DKGResult{GroupPublicKey: []byte{0xAB, byte(index)}}, c47Signatures(n), ch, bc, start)
		}()
		defer bc.AdvanceTo(slot + 3)

		var result error
		finished := false
		waitDone := func(what string) {
			select {
			case result = <-done:
				finished = true
			case <-time.After(c47Wait):
				fmt.Println("VERIF-INCONCLUSIVE: DKG result submitter did not return after " + what)
				t.Fatalf("VERIF-INCONCLUSIVE: submitter did not return after %s; %s", what, desc)
			}
		}
		eventDelivered, eventLost, ignoredEvent := false, false, false
		// probeAgain: the member leaves - or, if it ignores the event, comes
		// back to its select and takes a second copy of it (the probing
		// goroutine stays parked when the member has left, exactly like a
		// late chain event would)
		probeAgain := func(hs []func(*event.DKGResultSubmission), h uint64) {
			again := make(chan struct{})
			go func() {
				for _, hd := range hs {
					hd(&event.DKGResultSubmission{MemberIndex: 1, GroupPublicKey: []byte{0xAB}, BlockNumber: h})
				}
				close(again)
			}()
			select {
			case result = <-done:
				finished = true
			case <-again:
				ignoredEvent = true
			case <-time.After(c47Wait):
				fmt.Println("VERIF-INCONCLUSIVE: member neither left nor kept listening after the result-submitted event")
				t.Fatalf("VERIF-INCONCLUSIVE: member stuck; %s", desc)
			}
		}
		if kind == "during-query" {
			select {
			case <-ch.landed:
			case result = <-done:
				finished = true
			case <-time.After(c47Wait):
				fmt.Println("VERIF-INCONCLUSIVE: member did not query the chain state")
				t.Fatalf("VERIF-INCONCLUSIVE: no IsGroupRegistered query; %s", desc)
			}
			landedAlready := false
			select {
			case <-ch.landed:
				landedAlready = true
			default:
			}
			if finished && !landedAlready {
				t.Fatalf("member returned (%v) without asking the chain whether the result is already there; %s", result, desc)
			}
			if finished {
				// a quick member: asked, got the announcement and left before
				// the harness looked
				eventDelivered = !ch.landLost
				eventLost = ch.landLost
			} else if ch.landLost {
				// nobody was subscribed when the result was announced
				eventLost = true
			} else {
				select {
				case <-ch.landDelivered:
				case <-time.After(c47Wait):
					fmt.Println("VERIF-INCONCLUSIVE: result-submitted event not taken by the member")
					t.Fatalf("VERIF-INCONCLUSIVE: event not consumed; %s", desc)
				}
				eventDelivered = true
				probeAgain(ch.landHandlers, arrive)
			}
		}
		if finished {
			// left already
		} else if kind == "registered" || arrive >= slot {
			waitDone("start (nothing to wait for)")
		} else if !verifkit.Eventually(c47Wait, func() bool { p, _ := bc.Pending(); return p >= 1 || len(done) > 0 }) {
			fmt.Println("VERIF-INCONCLUSIVE: DKG result submitter did not start waiting")
			t.Fatalf("VERIF-INCONCLUSIVE: submitter did not register its waiter; %s", desc)
		}
		for !finished {
			select {
			case result = <-done:
				finished = true
				continue
			default:
			}
			h := bc.Height()
			if (kind == "before" || kind == "just-before") && !eventDelivered && !eventLost && h == eventBlock {
				hs := ch.liveHandlers()
				if len(hs) == 0 {
					// nobody listens: the event of the accepted result passes unseen
					eventLost = true
					continue
				}
				delivered := make(chan struct{})
				go func() {
					for _, hd := range hs {
						hd(&event.DKGResultSubmission{MemberIndex: 1, GroupPublicKey: []byte{0xAB}, BlockNumber: h})
					}
					close(delivered)
				}()
				select {
				case <-delivered:
				case <-time.After(c47Wait):
					fmt.Println("VERIF-INCONCLUSIVE: result-submitted event not taken by the member")
					t.Fatalf("VERIF-INCONCLUSIVE: event not consumed; %s", desc)
				}
				eventDelivered = true
				probeAgain(hs, h)
				continue
			}
			if h > slot+2 {
				t.Fatalf("member still waiting at block %d, two blocks after its slot %d; %s", h, slot, desc)
			}
			before, _ := bc.Pending()
			bc.Advance(1)
			after, _ := bc.Pending()
			if after < before {
				waitDone(fmt.Sprintf("its waiter fired at block %d", h+1))
			}
		}
		ch.mu.Lock()
		blocks := append([]uint64{}, ch.submitBlocks...)
		idx := append([]group.MemberIndex{}, ch.submitIndex...)
		live := len(ch.handlers)
		ch.mu.Unlock()
		full := fmt.Sprintf("%s -> submits at %v, result %v", desc, blocks, result)
		if result != nil {
			t.Fatalf("unexpected error %v; %s", result, full)
		}
		for _, b := range blocks {
			if b < slot {
				t.Fatalf("member submitted at block %d, before its slot at block %d; %s", b, slot, full)
			}
		}
		if ignoredEvent {
			t.Fatalf("member kept running after the event that another member's result was accepted (block %d): it must stop once someone succeeded; %s", eventBlock, full)
		}
		switch kind {
		case "registered":
			if len(blocks) != 0 {
				t.Fatalf("member submitted although the group was already registered; %s", full)
			}
		case "before", "just-before", "during-query":
			if len(blocks) != 0 {
				lost := ""
				if eventLost {
					lost = " (the member was not subscribed to result submissions while waiting for its slot)"
				}
				t.Fatalf("member submitted although another member's result was accepted at block %d, before its slot %d%s; %s", eventBlock, slot, lost, full)
			}
		default:
			if len(blocks) != 1 || blocks[0] != due {
				t.Fatalf("expected exactly one submission at block %d (slot %d, arrived %d); %s", due, slot, arrive, full)
			}
			if idx[0] != index {
				t.Fatalf("submitted as member %d, expected %d; %s", idx[0], index, full)
			}
		}
		st.Case(kind == "just-before" || kind == "before" || kind == "during-query", full, "competing:"+kind, fmt.Sprintf("arrived-late:%v", arrive > slot), fmt.Sprintf("last-member:%v", int(index) == n), fmt.Sprintf("subscriptions-left:%d", live))
	})
}
