//go:build go1.23

package result

import (
	"testing"

	"github.com/keep-network/keep-core/internal/c19wire"
	"pgregory.net/rapid"
)

// C19 - pkg/beacon/dkg/result: DKG result hash signature message.

func c19Codecs() []c19wire.Codec {
	return []c19wire.Codec{
		c19wire.Codec{
			Name: "result.DKGResultHashSignatureMessage",
			New:  func() c19wire.Msg { return &DKGResultHashSignatureMessage{} },
			Gen: func(t *rapid.T) c19wire.Msg {
				m := &DKGResultHashSignatureMessage{
					senderIndex: c19wire.GenIndex(t, "sender"),
					signature:   c19wire.GenPayload(t, "signature"),
					publicKey:   c19wire.GenPayload(t, "publicKey"),
					sessionID:   c19wire.GenText(t, "session"),
				}
				copy(m.resultHash[:], c19wire.GenFixed(t, "resultHash", 32))
				return m
			},
			Touch: func(m c19wire.Msg) { _ = m.(*DKGResultHashSignatureMessage).Type() },
		}.WithSender(func(m c19wire.Msg) uint64 { return uint64(m.(*DKGResultHashSignatureMessage).SenderID()) }).
			WithFixed("resultHash", 32, c19wire.Step{Num: 2}),
	}
}

func TestVerif_C19_BeaconResultRoundTrip(t *testing.T) {
	c19wire.RunRoundTrip(t, "TestVerif_C19_BeaconResultRoundTrip", c19Codecs())
}

func TestVerif_C19_BeaconResultHostile(t *testing.T) {
	c19wire.RunHostile(t, "TestVerif_C19_BeaconResultHostile", c19Codecs())
}

func FuzzVerif_C19_BeaconResult(f *testing.F) { c19wire.RunFuzz(f, c19Codecs()) }
