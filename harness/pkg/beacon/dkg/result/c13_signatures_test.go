//go:build go1.23

package result

import (
	"context"
	"crypto/sha256"
	"fmt"
	"testing"

	"github.com/keep-network/keep-core/internal/c13sig"
	"github.com/keep-network/keep-core/internal/testutils"
	"github.com/keep-network/keep-core/internal/verifkit"
	beaconchain "github.com/keep-network/keep-core/pkg/beacon/chain"
	"github.com/keep-network/keep-core/pkg/beacon/event"
	"github.com/keep-network/keep-core/pkg/chain"
	"github.com/keep-network/keep-core/pkg/net"
	"github.com/keep-network/keep-core/pkg/protocol/group"
	"github.com/keep-network/keep-core/pkg/subscription"
	"pgregory.net/rapid"
)

// c13Chain is the stub chain of the member under test: the real signer of the
// member's operator key, a recording SubmitDKGResult. Every method that is not
// overridden panics (nil embedded interface), so an unexpected chain call is
// visible.
type c13Chain struct {
	beaconchain.Interface
	signing  chain.Signing
	config   *beaconchain.Config
	submits  []map[group.MemberIndex][]byte
	submitBy []group.MemberIndex
}

func (c *c13Chain) Signing() chain.Signing         { return c.signing }
func (c *c13Chain) GetConfig() *beaconchain.Config { return c.config }
func (c *c13Chain) IsGroupRegistered([]byte) (bool, error) {
	return false, nil
}
func (c *c13Chain) OnDKGResultSubmitted(func(*event.DKGResultSubmission)) subscription.EventSubscription {
	return subscription.NewEventSubscription(func() {})
}
func (c *c13Chain) CalculateDKGResultHash(r *beaconchain.DKGResult) (beaconchain.DKGResultHash, error) {
	return beaconchain.DKGResultHash(sha256.Sum256([]byte(fmt.Sprintf("c13|%x|%x", r.GroupPublicKey, r.Misbehaved)))), nil
}
func (c *c13Chain) SubmitDKGResult(
	idx beaconchain.GroupMemberIndex,
	_ *beaconchain.DKGResult,
	signatures map[beaconchain.GroupMemberIndex][]byte,
) error {
	cp := map[group.MemberIndex][]byte{}
	for m, s := range signatures {
		cp[m] = append([]byte{}, s...)
	}
	c.submits = append(c.submits, cp)
	c.submitBy = append(c.submitBy, idx)
	return nil
}

type c13Channel struct {
	sent []net.TaggedMarshaler
}

func (c *c13Channel) Name() string { return "c13" }
func (c *c13Channel) Send(_ context.Context, m net.TaggedMarshaler, _ ...net.RetransmissionStrategy) error {
	c.sent = append(c.sent, m)
	return nil
}
func (c *c13Channel) Recv(context.Context, func(net.Message))     {}
func (c *c13Channel) SetUnmarshaler(func() net.TaggedUnmarshaler) {}
func (c *c13Channel) SetFilter(net.BroadcastChannelFilter) error  { return nil }

type c13NetMessage struct {
	payload interface{}
	key     []byte
}

func (m *c13NetMessage) TransportSenderID() net.TransportIdentifier { return nil }
func (m *c13NetMessage) SenderPublicKey() []byte                    { return m.key }
func (m *c13NetMessage) Payload() interface{}                       { return m.payload }
func (m *c13NetMessage) Type() string                               { return "c13" }
func (m *c13NetMessage) Seqno() uint64                              { return 0 }

// c13PickHonest picks the honest threshold so that the chain's signature
// threshold honest + (size-honest)/2 lands on, just above or just below the
// number of signatures the member is going to hold.
func c13PickHonest(t *rapid.T, n, count int) int {
	lo := n/2 + 1
	delta := rapid.SampledFrom([]int{0, 0, 1, 1, -1, -1, 99}).Draw(t, "gateDelta")
	if delta == 99 {
		return rapid.IntRange(lo, n).Draw(t, "honestThreshold")
	}
	target := count + delta
	best, bestD := lo, 1<<30
	for h := lo; h <= n; h++ {
		thr := h + (n-h)/2
		d := thr - target
		if d < 0 {
			d = -d
		}
		if d < bestD {
			best, bestD = h, d
		}
	}
	return best
}

func TestVerif_C13_BeaconSupport(t *testing.T) {
	st := verifkit.New("C13", "TestVerif_C13_BeaconSupport")
	defer st.Flush()
	rapid.Check(t, func(t *rapid.T) {
		sc := c13sig.Gen(t, c13sig.Options{AllowExcluded: true})
		self := sc.SelfKey()

		stub := &c13Chain{signing: self.Signing}
		dkgResult := &beaconchain.DKGResult{
			GroupPublicKey: rapid.SliceOfN(rapid.Byte(), 1, 8).Draw(t, "groupPublicKey"),
		}
		var hashes [3][32]byte
		for i := range hashes {
			r := &beaconchain.DKGResult{GroupPublicKey: dkgResult.GroupPublicKey, Misbehaved: dkgResult.Misbehaved}
			if i == 1 {
				r.GroupPublicKey = append(append([]byte{}, r.GroupPublicKey...), 0x01)
			}
			if i == 2 {
				r.Misbehaved = []byte{byte(sc.Self)}
			}
			h, _ := stub.CalculateDKGResultHash(r)
			hashes[i] = h
		}
		if err := sc.Materialize(hashes); err != nil {
			fmt.Printf("VERIF-INCONCLUSIVE: %v\n", err)
			t.Fatalf("harness: %v", err)
		}

		count := len(sc.Expect(c13sig.DropAllDuplicates, nil))
		honest := c13PickHonest(t, sc.N, count)
		stub.config = &beaconchain.Config{
			GroupSize:                  sc.N,
			HonestThreshold:            honest,
			ResultPublicationBlockStep: 3,
		}
		threshold := honest + (sc.N-honest)/2

		dkgGroup := group.NewGroup(sc.N-honest, sc.N)
		for m := 1; m <= sc.N; m++ {
			switch sc.Excluded[group.MemberIndex(m)] {
			case "inactive":
				dkgGroup.MarkMemberAsInactive(group.MemberIndex(m))
			case "disqualified":
				dkgGroup.MarkMemberAsDisqualified(group.MemberIndex(m))
			}
		}
		logger := &testutils.MockLogger{}
		validator := group.NewMembershipValidator(logger, sc.Addresses(), self.Signing)
		channel := &c13Channel{}
		blocks := verifkit.NewFakeBlockCounter(1000)

		// the real states, wired like dkg result Publish does
		signing := &resultSigningState{
			channel:                 channel,
			beaconChain:             stub,
			blockCounter:            blocks,
			member:                  NewSigningMember(logger, sc.Self, dkgGroup, validator, sc.Session),
			result:                  dkgResult,
			signatureMessages:       make([]*DKGResultHashSignatureMessage, 0),
			signingStartBlockHeight: 10,
		}
		ctx, cancel := context.WithCancel(context.Background())
		defer cancel()
		if err := signing.Initiate(ctx); err != nil {
			t.Fatalf("signing state Initiate: %v", err)
		}
		if len(channel.sent) != 1 {
			t.Fatalf("signing state broadcast %d messages", len(channel.sent))
		}
		own, ok := channel.sent[0].(*DKGResultHashSignatureMessage)
		if !ok {
			t.Fatalf("unexpected broadcast %T", channel.sent[0])
		}
		if own.resultHash != hashes[0] {
			fmt.Println("VERIF-INCONCLUSIVE: harness hash differs from the member's preferred hash")
			t.Fatalf("harness: preferred hash mismatch")
		}
		// the member's own broadcast must itself be acceptable to its peers
		if okSig, err := self.Signing.VerifyWithPublicKey(hashes[0][:], own.signature, self.Pub); err != nil || !okSig {
			t.Fatalf("own broadcast signature does not verify: %v", err)
		}
		if string(own.publicKey) != string(self.Pub) || own.senderIndex != sc.Self || own.sessionID != sc.Session {
			t.Fatalf("own broadcast carries key %x index %d session %q", own.publicKey, own.senderIndex, own.sessionID)
		}

		for _, e := range sc.Events {
			msg := &DKGResultHashSignatureMessage{
				senderIndex: e.Sender,
				resultHash:  beaconchain.DKGResultHash(e.Hash),
				signature:   e.Signature,
				publicKey:   e.Msg.Pub,
				sessionID:   e.Session,
			}
			if err := signing.Receive(&c13NetMessage{payload: msg, key: e.Net.Pub}); err != nil {
				t.Fatalf("Receive: %v", err)
			}
		}

		next, err := signing.Next()
		if err != nil {
			t.Fatalf("Next: %v", err)
		}
		verification := next.(*signaturesVerificationState)
		if err := verification.Initiate(ctx); err != nil {
			t.Fatalf("verification Initiate: %v", err)
		}
		next, err = verification.Next()
		if err != nil {
			t.Fatalf("Next: %v", err)
		}
		submission := next.(*resultSubmissionState)
		got := submission.signatures

		want := sc.Expect(c13sig.DropAllDuplicates, own.signature)
		desc := fmt.Sprintf("%s h=%d thr=%d", sc.Describe(), honest, threshold)
		if err := sc.CheckSound(got, own.signature); err != nil {
			t.Fatalf("supporting signatures unsound: %v\ncase: %s", err, desc)
		}
		if d := c13sig.Diff(got, want); d != "" {
			t.Fatalf("supporting signatures differ from the model: %s\ncase: %s", d, desc)
		}

		// threshold gate: the chain is called iff the set reaches the threshold
		submitErr := submission.Initiate(ctx)
		gate := "gate:below"
		if len(want) >= threshold {
			gate = "gate:above"
			if len(want) == threshold {
				gate = "gate:at"
			}
			if submitErr != nil {
				t.Fatalf("%d signatures reach the threshold %d but submission failed: %v\ncase: %s", len(want), threshold, submitErr, desc)
			}
			if len(stub.submits) != 1 {
				t.Fatalf("%d signatures reach the threshold %d but the chain saw %d submissions\ncase: %s", len(want), threshold, len(stub.submits), desc)
			}
			if d := c13sig.Diff(stub.submits[0], want); d != "" || stub.submitBy[0] != sc.Self {
				t.Fatalf("submitted signatures differ from the verified set: %s (by %d)\ncase: %s", d, stub.submitBy[0], desc)
			}
		} else {
			if len(want) == threshold-1 {
				gate = "gate:just-below"
			}
			if len(stub.submits) != 0 {
				t.Fatalf("submitted with %d signatures below the threshold %d\ncase: %s", len(want), threshold, desc)
			}
			if submitErr == nil {
				t.Fatalf("no error with %d signatures below the threshold %d\ncase: %s", len(want), threshold, desc)
			}
		}
		st.Case(sc.NonTrivial(), desc, append(sc.Labels(want), gate)...)
	})
}
