//go:build go1.23

package result

// C12, beacon DKG result signing: the result signing state (phase 13) is fed
// generated (claimed index, sender network key, session, member status, public
// key field) combinations through its real Receive; the signature messages it
// hands to the verification state are compared with the admission model.

import (
	"fmt"
	"testing"

	"github.com/keep-network/keep-core/internal/testutils"
	"github.com/keep-network/keep-core/internal/verifkit"
	"github.com/keep-network/keep-core/pkg/protocol/group"
	"pgregory.net/rapid"
)

// a payload that is not a result signature (the channel also carries the GJKR
// messages of the same group)
type c12Foreign struct {
	senderID  group.MemberIndex
	sessionID string
}

func (f *c12Foreign) SenderID() group.MemberIndex { return f.senderID }
func (f *c12Foreign) Type() string                { return "c12/foreign" }

func TestVerif_C12_BeaconResultSigning(t *testing.T) {
	st := verifkit.New("C12", "TestVerif_C12_BeaconResultSigning")
	defer st.Flush()
	pool, signing := c12Pool(t)
	logger := &testutils.MockLogger{}

	rapid.Check(t, func(t *rapid.T) {
		sc := c12GenScenario(t)
		threshold := rapid.IntRange(0, (sc.n-1)/2).Draw(t, "dishonestThreshold")
		validator := group.NewMembershipValidator(logger, sc.addresses(pool), signing)
		// the group as GJKR leaves it: members marked inactive/disqualified
		dkgGroup := group.NewGroup(threshold, sc.n)
		allowed := map[group.MemberIndex]bool{}
		for i := 1; i <= sc.n; i++ {
			idx := group.MemberIndex(i)
			switch {
			case sc.ia[idx]:
				dkgGroup.MarkMemberAsInactive(idx)
			case sc.dq[idx]:
				dkgGroup.MarkMemberAsDisqualified(idx)
			default:
				allowed[idx] = true
			}
		}
		member := NewSigningMember(logger, sc.receiver, dkgGroup, validator, c12Session)
		rss := &resultSigningState{channel: &c12Channel{}, member: member}

		c12Feed(t, st, sc, pool, &c12Receiver{
			name: "resultSigning", kindNames: []string{"resultSignature", "foreign"}, ownKinds: []int{0},
			allowed: allowed, note: fmt.Sprintf(" t=%d", threshold),
			build: func(t *rapid.T, m c12Msg, key []byte) (interface{}, string, bool, string) {
				if m.kind == 1 {
					p := &c12Foreign{senderID: m.idx, sessionID: m.session}
					return p, p.Type(), true, ""
				}
				p := &DKGResultHashSignatureMessage{senderIndex: m.idx, sessionID: m.session,
					signature: []byte{1, 2, 3}, publicKey: key}
				ok, tag := true, ""
				if rapid.IntRange(0, 5).Draw(t, "mutPublicKeyField") == 0 {
					// the signature's public key is not the network key:
					// documented to be rejected
					other := rapid.IntRange(0, c12PoolSize-1).Draw(t, "publicKeyField")
					p.publicKey = pool[other].key
					if string(p.publicKey) != string(key) {
						ok, tag = false, "pubkey-field:not-the-network-key"
					}
				}
				return p, p.Type(), ok, tag
			},
			receive:  rss.Receive,
			register: RegisterUnmarshallers,
			ident: func(m interface{}) string {
				if v, ok := m.(*DKGResultHashSignatureMessage); ok {
					return fmt.Sprintf("resultSignature/%d/%q/%x", v.senderIndex, v.sessionID, v.publicKey[:8])
				}
				return fmt.Sprintf("%T", m)
			},
			stored: func() map[int][]interface{} {
				out := map[int][]interface{}{}
				for _, m := range rss.signatureMessages {
					out[0] = append(out[0], m)
				}
				return out
			},
		}, map[string]bool{})
	})
}
