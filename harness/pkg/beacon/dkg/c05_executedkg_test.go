//go:build go1.23

package dkg

import (
	"bytes"
	"context"
	"fmt"
	"math/big"
	"sync"
	"testing"
	"time"

	"github.com/keep-network/keep-core/internal/testutils"
	"github.com/keep-network/keep-core/internal/verifkit"
	beaconchain "github.com/keep-network/keep-core/pkg/beacon/chain"
	"github.com/keep-network/keep-core/pkg/beacon/gjkr"
	"github.com/keep-network/keep-core/pkg/chain"
	"github.com/keep-network/keep-core/pkg/chain/local_v1"
	"github.com/keep-network/keep-core/pkg/net"
	netLocal "github.com/keep-network/keep-core/pkg/net/local"
	"github.com/keep-network/keep-core/pkg/operator"
	"github.com/keep-network/keep-core/pkg/protocol/group"
	"pgregory.net/rapid"
)

// c05LiveChain is the package's local beacon chain with the harness's block
// counter; the first accepted result is recorded.
type c05LiveChain struct {
	beaconchain.Interface
	bc *verifkit.FakeBlockCounter

	mu         sync.Mutex
	accepted   *beaconchain.DKGResult
	submitters []beaconchain.GroupMemberIndex
}

func (c *c05LiveChain) BlockCounter() (chain.BlockCounter, error) { return c.bc, nil }

func (c *c05LiveChain) SubmitDKGResult(idx beaconchain.GroupMemberIndex, r *beaconchain.DKGResult, sigs map[beaconchain.GroupMemberIndex][]byte) error {
	err := c.Interface.SubmitDKGResult(idx, r, sigs)
	if err == nil {
		c.mu.Lock()
		if c.accepted == nil {
			c.accepted = r
		}
		c.submitters = append(c.submitters, idx)
		c.mu.Unlock()
	}
	return err
}

// c05MemberChain is the chain handle of one member: the first result it
// hashes is its own (SignDKGResult), which tells the harness the member's own
// group key and misbehaved list.
type c05MemberChain struct {
	*c05LiveChain
	own *beaconchain.DKGResult

	// revertFor != 0: this member's own submission fails late - while its
	// transaction is under way the same result, submitted by member
	// revertFor, is accepted and announced; then the member's transaction
	// reverts (the event comes before the error)
	revertFor beaconchain.GroupMemberIndex

	// slowQuery: this member's chain client is slow - its "is the group
	// registered" query is answered only after another member's result was
	// accepted (schedule shaping only; bounded, never a verdict)
	slowQuery bool
}

func (c *c05MemberChain) IsGroupRegistered(groupPublicKey []byte) (bool, error) {
	if c.slowQuery {
		verifkit.Eventually(time.Second, func() bool {
			c.mu.Lock()
			defer c.mu.Unlock()
			return c.accepted != nil
		})
	}
	return c.c05LiveChain.IsGroupRegistered(groupPublicKey)
}

func (c *c05MemberChain) SubmitDKGResult(idx beaconchain.GroupMemberIndex, r *beaconchain.DKGResult, sigs map[beaconchain.GroupMemberIndex][]byte) error {
	if c.revertFor == 0 {
		return c.c05LiveChain.SubmitDKGResult(idx, r, sigs)
	}
	other := c.revertFor
	c.revertFor = 0
	if err := c.c05LiveChain.SubmitDKGResult(other, r, sigs); err != nil {
		return err
	}
	return fmt.Errorf("c05: transaction reverted, the result was submitted by member %d in the meantime", other)
}

func (c *c05MemberChain) CalculateDKGResultHash(r *beaconchain.DKGResult) (beaconchain.DKGResultHash, error) {
	c.mu.Lock()
	if c.own == nil {
		c.own = r
	}
	c.mu.Unlock()
	return c.c05LiveChain.CalculateDKGResultHash(r)
}

// c05LossyChannel is the broadcast channel as one member sees it: messages
// for which drop answers true never reach that member.
type c05LossyChannel struct {
	net.BroadcastChannel
	drop func(m net.Message) bool
}

func (lc *c05LossyChannel) Recv(ctx context.Context, handler func(m net.Message)) {
	lc.BroadcastChannel.Recv(ctx, func(m net.Message) {
		if lc.drop(m) {
			return
		}
		handler(m)
	})
}

// TestVerif_C05_ExecuteDKG runs the real ExecuteDKG of every member of a
// small group (real GJKR, real result publication, local broadcast channel,
// local chain) in lockstep with a fake block counter. For a drawn member the
// last GJKR message of another drawn member is lost, so that it alone
// considers that member inactive: same group key, different result, nobody
// supports it, its own publication fails and the chain-accepted result of the
// others decides. Whoever ends with a signer must hold exactly the selected
// operators of the members the accepted result does not list, in index
// order, the accepted key, and must not be listed; whoever is refused must
// have a reason on chain.
func TestVerif_C05_ExecuteDKG(t *testing.T) {
	st := verifkit.New("C05", "TestVerif_C05_ExecuteDKG")
	defer st.Flush()
	rapid.Check(t, func(t *rapid.T) {
		n := rapid.IntRange(3, 5).Draw(t, "groupSize")
		honest := n/2 + 1
		victim := group.MemberIndex(rapid.IntRange(1, n).Draw(t, "victim"))
		lostSender := group.MemberIndex(rapid.IntRange(1, n-1).Draw(t, "lostSender"))
		if lostSender >= victim {
			lostSender++
		}
		scenario := rapid.SampledFrom([]string{"lost-last-message", "late-revert", "lost-last-message", "late-revert", "all-agree"}).Draw(t, "scenario")
		// late-revert: everybody agrees; the first submitter's transaction
		// reverts after another member's identical result was accepted
		competitor := beaconchain.GroupMemberIndex(rapid.IntRange(2, n).Draw(t, "competitor"))
		seed := big.NewInt(int64(rapid.IntRange(1, 1<<40).Draw(t, "seed")))
		start := uint64(rapid.IntRange(2, 50).Draw(t, "start"))
		selected := c05GenSelected(t, n)
		slowVictim := rapid.Bool().Draw(t, "victimChainClientSlow")
		desc := fmt.Sprintf("N=%d honest=%d scenario=%s victim=%d lost-sender=%d competitor=%d selected=%v", n, honest, scenario, victim, lostSender, competitor, selected)

		operatorPrivateKey, operatorPublicKey, err := operator.GenerateKeyPair(local_v1.DefaultCurve)
		if err != nil {
			t.Fatal(err)
		}
		bc := verifkit.NewFakeBlockCounter(0)
		live := &c05LiveChain{Interface: local_v1.ConnectWithKey(n, honest, operatorPrivateKey), bc: bc}
		provider := netLocal.ConnectWithKey(operatorPublicKey)
		address, err := live.Signing().PublicKeyToAddress(operatorPublicKey)
		if err != nil {
			t.Fatal(err)
		}
		networkOperators := make([]chain.Address, n)
		for i := range networkOperators {
			networkOperators[i] = address
		}
		validator := group.NewMembershipValidator(&testutils.MockLogger{}, networkOperators, live.Signing())

		type outcome struct {
			signer *ThresholdSigner
			err    error
		}
		outs := make([]outcome, n+1)
		views := make([]*c05MemberChain, n+1)
		var mu sync.Mutex
		doneCount := 0
		for i := 1; i <= n; i++ {
			idx := group.MemberIndex(i)
			channel, err := provider.BroadcastChannelFor("c05-" + seed.Text(16))
			if err != nil {
				t.Fatal(err)
			}
			if scenario == "lost-last-message" && idx == victim {
				channel = &c05LossyChannel{BroadcastChannel: channel, drop: func(m net.Message) bool {
					msg, ok := m.Payload().(*gjkr.MisbehavedEphemeralKeysMessage)
					return ok && msg.SenderID() == lostSender
				}}
			}
			view := &c05MemberChain{c05LiveChain: live}
			view.slowQuery = scenario == "lost-last-message" && idx == victim && slowVictim
			if scenario == "late-revert" && i == 1 {
				view.revertFor = competitor
			}
			views[i] = view
			go func() {
				s, err := ExecuteDKG(&testutils.MockLogger{}, seed, idx, start, view, channel, validator, append([]chain.Address{}, selected...))
				mu.Lock()
				outs[idx] = outcome{s, err}
				doneCount++
				mu.Unlock()
			}()
		}
		finished := func() int {
			mu.Lock()
			defer mu.Unlock()
			return doneCount
		}
		// lockstep: a block is mined only when every member still running is
		// parked on a block waiter, plus a short pause for the broadcast
		// channel's asynchronous deliveries (a schedule, never a verdict: a
		// late message only changes which scenario unfolds)
		bound := start + gjkr.ProtocolBlocks() + 400
		for finished() < n {
			if !verifkit.Eventually(120*time.Second, func() bool {
				p, _ := bc.Pending()
				return p >= n-finished()
			}) {
				fmt.Println("VERIF-INCONCLUSIVE: ExecuteDKG members neither wait for a block nor return")
				t.Fatalf("VERIF-INCONCLUSIVE: members stuck at block %d; %s", bc.Height(), desc)
			}
			time.Sleep(4 * time.Millisecond)
			if finished() == n {
				break
			}
			if bc.Height() > bound {
				fmt.Println("VERIF-INCONCLUSIVE: ExecuteDKG did not end within the block bound")
				t.Fatalf("VERIF-INCONCLUSIVE: still running at block %d; %s", bc.Height(), desc)
			}
			bc.Advance(1)
		}

		live.mu.Lock()
		accepted := live.accepted
		submitters := append([]beaconchain.GroupMemberIndex{}, live.submitters...)
		live.mu.Unlock()
		full := desc + fmt.Sprintf(" -> submitted by %v", submitters)
		for i := 1; i <= n; i++ {
			if v := views[i].own; v != nil && len(v.Misbehaved) > 0 {
				full += fmt.Sprintf(", member %d sees misbehaved %v", i, v.Misbehaved)
			}
		}
		var want []chain.Address
		listed := map[group.MemberIndex]bool{}
		if accepted != nil {
			full += fmt.Sprintf(", accepted misbehaved=%v", accepted.Misbehaved)
			for _, m := range accepted.Misbehaved {
				listed[m] = true
			}
			for i := 1; i <= n; i++ {
				if !listed[group.MemberIndex(i)] {
					want = append(want, selected[i-1])
				}
			}
		}
		stayed, viaFate := 0, false
		var differing []group.MemberIndex // stayed with an own view that differs from the accepted result
		for i := 1; i <= n; i++ {
			idx := group.MemberIndex(i)
			o := outs[i]
			own := views[i].own
			if o.signer == nil {
				// refused: legitimate without an accepted result, when listed,
				// or when the member's own key differs from the accepted one
				if accepted != nil && !listed[idx] && own != nil && bytes.Equal(own.GroupPublicKey, accepted.GroupPublicKey) {
					t.Fatalf("member %d lost its membership (%v) although the accepted result carries its group key and does not list it (own misbehaved view %v); %s", idx, o.err, own.Misbehaved, full)
				}
				continue
			}
			if own != nil && accepted != nil && !bytes.Equal(own.Misbehaved, accepted.Misbehaved) {
				differing = append(differing, idx)
			}
			stayed++
			if accepted == nil {
				t.Fatalf("member %d holds a signer although no result was accepted on chain; %s", idx, full)
			}
			if !bytes.Equal(o.signer.GroupPublicKeyBytes(), accepted.GroupPublicKey) {
				t.Fatalf("member %d keeps its membership with a group key different from the accepted one; %s", idx, full)
			}
			if listed[idx] {
				t.Fatalf("member %d keeps its membership although the accepted result lists it as misbehaving; %s", idx, full)
			}
			if fmt.Sprint(o.signer.GroupOperators()) != fmt.Sprint(want) {
				t.Fatalf("member %d: group operators %v, expected the selected operators of the members the accepted result does not list, in index order: %v; %s",
					idx, o.signer.GroupOperators(), want, full)
			}
			if len(differing) > 0 {
				viaFate = true
			}
		}
		if scenario == "late-revert" && outs[1].signer != nil {
			viaFate = true
		}
		st.Case(viaFate, full, "scenario:"+scenario, fmt.Sprintf("accepted:%v", accepted != nil), fmt.Sprintf("stayed:%d/%d", stayed, n), fmt.Sprintf("stayed-with-differing-own-view:%v", viaFate))
	})
}
