//go:build go1.23

package dkg

import (
	"bytes"
	"fmt"
	"math/big"
	"sort"
	"strings"
	"testing"
	"time"

	bn256 "github.com/ethereum/go-ethereum/crypto/bn256/cloudflare"
	"github.com/keep-network/keep-core/internal/verifkit"
	beaconchain "github.com/keep-network/keep-core/pkg/beacon/chain"
	"github.com/keep-network/keep-core/pkg/beacon/event"
	"github.com/keep-network/keep-core/pkg/beacon/gjkr"
	"github.com/keep-network/keep-core/pkg/chain"
	"github.com/keep-network/keep-core/pkg/protocol/group"
	"pgregory.net/rapid"
)

// c05Chain is the beacon chain handle seen by decideMemberFate: only the
// configuration is consulted there (every other method would panic on the nil
// embedded interface, which would be reported as a failure of the case).
type c05Chain struct {
	beaconchain.Interface
	cfg *beaconchain.Config
}

func (c *c05Chain) GetConfig() *beaconchain.Config { return c.cfg }

const c05Wait = 20 * time.Second

// ---- generators -----------------------------------------------------------

type c05Setup struct {
	n, honest int
	step      uint64
	member    group.MemberIndex
	scalar    int64
	local     *gjkr.Result
	localKey  []byte
	// local (own) view of IA/DQ - must not influence the outcome
	localIA, localDQ []group.MemberIndex
}

func c05GenSetup(t *rapid.T) *c05Setup {
	s := &c05Setup{}
	s.n = rapid.IntRange(3, 10).Draw(t, "groupSize")
	s.honest = rapid.IntRange(s.n/2+1, s.n).Draw(t, "honestThreshold")
	if rapid.Bool().Draw(t, "majorityThreshold") {
		s.honest = s.n/2 + 1 // the production shape (33 of 64)
	}
	s.step = uint64(rapid.IntRange(1, 4).Draw(t, "step"))
	s.member = group.MemberIndex(rapid.IntRange(1, s.n).Draw(t, "member"))
	s.scalar = int64(rapid.IntRange(1, 1<<20).Draw(t, "keyScalar"))
	g := group.NewGroup(s.n-s.honest, s.n)
	// the member's own opinion on who misbehaved (the chain decides, not this)
	for i := 1; i <= s.n; i++ {
		if group.MemberIndex(i) == s.member {
			continue
		}
		switch rapid.SampledFrom([]int{0, 0, 0, 0, 1, 2}).Draw(t, "localMark") {
		case 1:
			g.MarkMemberAsInactive(group.MemberIndex(i))
			s.localIA = append(s.localIA, group.MemberIndex(i))
		case 2:
			g.MarkMemberAsDisqualified(group.MemberIndex(i))
			s.localDQ = append(s.localDQ, group.MemberIndex(i))
		}
	}
	key := new(bn256.G2).ScalarBaseMult(big.NewInt(s.scalar))
	s.local = &gjkr.Result{GroupPublicKey: key, Group: g}
	s.localKey = key.Marshal()
	return s
}

// on-chain key: equal, or one of several "almost equal" variants.
func c05GenChainKey(t *rapid.T, s *c05Setup) ([]byte, string) {
	kind := rapid.SampledFrom([]string{
		"same", "same", "same", "same", "other-scalar", "flip-last", "flip-first",
		"flip-middle", "truncated", "extended", "empty",
	}).Draw(t, "keyKind")
	k := append([]byte{}, s.localKey...)
	switch kind {
	case "other-scalar":
		d := int64(rapid.IntRange(1, 5).Draw(t, "scalarDelta"))
		k = new(bn256.G2).ScalarBaseMult(big.NewInt(s.scalar + d)).Marshal()
	case "flip-last":
		k[len(k)-1] ^= byte(1 << rapid.IntRange(0, 7).Draw(t, "bit"))
	case "flip-first":
		k[0] ^= byte(1 << rapid.IntRange(0, 7).Draw(t, "bit"))
	case "flip-middle":
		k[rapid.IntRange(1, len(k)-2).Draw(t, "pos")] ^= byte(1 << rapid.IntRange(0, 7).Draw(t, "bit"))
	case "truncated":
		k = k[:rapid.IntRange(1, len(k)-1).Draw(t, "keep")]
	case "extended":
		k = append(k, byte(rapid.IntRange(0, 255).Draw(t, "extra")))
	case "empty":
		k = []byte{}
	}
	return k, kind
}

// misbehaved list of the accepted result: drawn members (listing the member
// itself with a substantial probability), optionally with duplicates and with
// indexes that are not members of the group (0, n+1.., 255).
func c05GenMisbehaved(t *rapid.T, s *c05Setup) []uint8 {
	var list []uint8
	self := rapid.SampledFrom([]bool{false, false, true}).Draw(t, "listSelf")
	others := rapid.IntRange(0, s.n-1).Draw(t, "othersListed")
	if rapid.Bool().Draw(t, "fewOthers") {
		others = rapid.IntRange(0, 2).Draw(t, "othersListedFew")
	}
	cand := []uint8{}
	for i := 1; i <= s.n; i++ {
		if group.MemberIndex(i) != s.member {
			cand = append(cand, uint8(i))
		}
	}
	cand = rapid.Permutation(cand).Draw(t, "candOrder")
	list = append(list, cand[:others]...)
	if self {
		list = append(list, s.member)
	}
	if rapid.SampledFrom([]bool{false, false, true}).Draw(t, "junk") {
		junk := rapid.SliceOfN(rapid.SampledFrom([]uint8{0, uint8(s.n + 1), uint8(s.n + 2), 200, 255}), 1, 3).Draw(t, "junkEntries")
		list = append(list, junk...)
	}
	if len(list) > 0 && rapid.SampledFrom([]bool{false, false, true}).Draw(t, "dups") {
		k := rapid.IntRange(1, 3).Draw(t, "dupCount")
		for i := 0; i < k; i++ {
			list = append(list, list[rapid.IntRange(0, len(list)-1).Draw(t, "dupOf")])
		}
	}
	if len(list) > 1 {
		list = rapid.Permutation(list).Draw(t, "misbehavedOrder")
	}
	return list
}

// ---- reference model --------------------------------------------------------

// c05Model: the member stays iff the accepted result carries the same key and
// does not list it; the operating members are all members not listed.
func c05Model(s *c05Setup, chainKey []byte, misbehaved []uint8) (stays bool, operating []group.MemberIndex) {
	listed := map[uint8]bool{}
	for _, m := range misbehaved {
		listed[m] = true
	}
	if len(chainKey) != len(s.localKey) {
		return false, nil
	}
	for i := range chainKey {
		if chainKey[i] != s.localKey[i] {
			return false, nil
		}
	}
	if listed[s.member] {
		return false, nil
	}
	for i := 1; i <= s.n; i++ {
		if !listed[uint8(i)] {
			operating = append(operating, group.MemberIndex(i))
		}
	}
	return true, operating
}

// ---- driving decideMemberFate ---------------------------------------------

type c05FateOut struct {
	operating []group.MemberIndex
	err       error
}

// c05RunFate runs the real decideMemberFate under one of the orderings:
//
//	"prefilled"  the event is already waiting when the member starts observing
//	             (the block counter is below the timeout block),
//	"during"     the member is already waiting; the harness mines `mined` blocks
//	             (fewer than needed for the timeout) and then delivers the event,
//	"timeout"    no event before the timeout block is mined,
//	"expired"    the timeout block is already in the past when the member starts
//	             and no event is there.
//
// Orderings in which event and timeout are ready at the same time are decided
// by a Go select at random and are not generated.
func c05RunFate(t *rapid.T, s *c05Setup, ev *event.DKGResultSubmission, ordering string, startPub uint64, minedFrac int) (c05FateOut, string) {
	bc := verifkit.NewFakeBlockCounter(startPub)
	ch := &c05Chain{cfg: &beaconchain.Config{
		GroupSize: s.n, HonestThreshold: s.honest,
		ResultPublicationBlockStep: s.step, RelayEntryTimeout: s.step * uint64(s.n),
	}}
	var evCh chan *event.DKGResultSubmission
	switch ordering {
	case "prefilled":
		evCh = make(chan *event.DKGResultSubmission, 1)
		evCh <- ev
	case "expired":
		evCh = make(chan *event.DKGResultSubmission)
		bc.Advance(1000) // far beyond any timeout of this configuration
	default:
		evCh = make(chan *event.DKGResultSubmission) // unbuffered as in ExecuteDKG
	}
	done := make(chan c05FateOut, 1)
	go func() {
		op, err := decideMemberFate(s.member, s.local, evCh, startPub, ch, bc)
		done <- c05FateOut{op, err}
	}()
	detail := ordering
	switch ordering {
	case "during", "timeout":
		if !verifkit.Eventually(c05Wait, func() bool { p, _ := bc.Pending(); return p >= 1 || len(done) > 0 }) {
			fmt.Println("VERIF-INCONCLUSIVE: decideMemberFate neither registered its timeout waiter nor returned in time")
			t.Fatalf("VERIF-INCONCLUSIVE: no pending waiter")
		}
		if p, _ := bc.Pending(); p == 0 {
			out := <-done
			t.Fatalf("member decided (operating %v, error %v) at block %d without any accepted result and without waiting for the timeout", out.operating, out.err, bc.Height())
		}
		timeoutBlock := bc.MinPendingHeight()
		if timeoutBlock <= startPub {
			t.Fatalf("timeout waiter registered at block %d, not after the publication start %d", timeoutBlock, startPub)
		}
		if ordering == "during" {
			// mine a share of the distance, staying strictly below the timeout
			dist := int(timeoutBlock - startPub)
			mined := (dist - 1) * minedFrac / 100
			bc.Advance(mined)
			detail = fmt.Sprintf("during:mined=%d/%d", mined, dist)
			select {
			case out := <-done:
				t.Fatalf("member gave up at block %d, before the timeout block %d and without any event: %v", bc.Height(), timeoutBlock, out.err)
			default:
			}
			select {
			case evCh <- ev:
			case <-time.After(c05Wait):
				fmt.Println("VERIF-INCONCLUSIVE: event not taken by decideMemberFate")
				t.Fatalf("VERIF-INCONCLUSIVE: event not consumed")
			}
		} else {
			bc.AdvanceTo(timeoutBlock - 1)
			select {
			case out := <-done:
				t.Fatalf("member gave up at block %d, before the timeout block %d: %v", bc.Height(), timeoutBlock, out.err)
			default:
			}
			bc.AdvanceTo(timeoutBlock)
		}
	}
	select {
	case out := <-done:
		return out, detail
	case <-time.After(c05Wait):
		fmt.Println("VERIF-INCONCLUSIVE: decideMemberFate did not return")
		t.Fatalf("VERIF-INCONCLUSIVE: decideMemberFate did not return")
	}
	return c05FateOut{}, detail
}

func c05Idx(l []group.MemberIndex) string {
	p := make([]string, len(l))
	for i, v := range l {
		p[i] = fmt.Sprint(v)
	}
	return "[" + strings.Join(p, " ") + "]"
}

func c05EqualIdx(a, b []group.MemberIndex) bool {
	if len(a) != len(b) {
		return false
	}
	for i := range a {
		if a[i] != b[i] {
			return false
		}
	}
	return true
}

// TestVerif_C05_Fate: membership is kept iff the accepted result has the same
// group public key and does not list the member; the operating members are the
// members not listed, ascending; without an accepted result (timeout) the
// member never stays.
func TestVerif_C05_Fate(t *testing.T) {
	st := verifkit.New("C05", "TestVerif_C05_Fate")
	defer st.Flush()
	rapid.Check(t, func(t *rapid.T) {
		s := c05GenSetup(t)
		chainKey, keyKind := c05GenChainKey(t, s)
		misbehaved := c05GenMisbehaved(t, s)
		ordering := rapid.SampledFrom([]string{"prefilled", "prefilled", "during", "during", "during", "timeout", "expired"}).Draw(t, "ordering")
		startPub := uint64(rapid.IntRange(0, 5000).Draw(t, "startPublication"))
		minedFrac := rapid.SampledFrom([]int{0, 100, 100, 50, 10, 90}).Draw(t, "minedPercent")
		ev := &event.DKGResultSubmission{
			MemberIndex:    uint32(rapid.IntRange(1, s.n).Draw(t, "submitter")),
			GroupPublicKey: chainKey,
			Misbehaved:     append([]uint8{}, misbehaved...),
			BlockNumber:    startPub + uint64(rapid.IntRange(0, 80).Draw(t, "eventBlock")),
		}
		localBefore := c05Idx(s.local.Group.OperatingMemberIndexes())

		out, detail := c05RunFate(t, s, ev, ordering, startPub, minedFrac)

		eventSeen := ordering == "prefilled" || ordering == "during"
		stays, operating := c05Model(s, chainKey, misbehaved)
		stays = stays && eventSeen
		desc := fmt.Sprintf("n=%d member=%d key=%s misbehaved=%v localIA=%v localDQ=%v ordering=%s", s.n, s.member, keyKind, misbehaved, s.localIA, s.localDQ, detail)
		if stays {
			if out.err != nil {
				t.Fatalf("member must keep its membership (same key, not listed) but got error %q; %s", out.err, desc)
			}
			if !c05EqualIdx(out.operating, operating) {
				t.Fatalf("operating members %s, expected all members not listed as misbehaving in ascending order %s; %s", c05Idx(out.operating), c05Idx(operating), desc)
			}
		} else {
			if out.err == nil {
				t.Fatalf("member kept its membership (operating %s) although it must not (event seen=%v, key=%s, listed=%v); %s",
					c05Idx(out.operating), eventSeen, keyKind, bytes.IndexByte(misbehaved, s.member) >= 0, desc)
			}
			if out.operating != nil {
				t.Fatalf("error %q returned together with operating members %s; %s", out.err, c05Idx(out.operating), desc)
			}
		}
		// the member's own view is left alone by the decision
		if after := c05Idx(s.local.Group.OperatingMemberIndexes()); after != localBefore {
			t.Fatalf("local group view changed from %s to %s; %s", localBefore, after, desc)
		}
		selfListed := bytes.IndexByte(misbehaved, s.member) >= 0
		otherListed := false
		for _, m := range misbehaved {
			if m != s.member && m >= 1 && int(m) <= s.n {
				otherListed = true
			}
		}
		nt := eventSeen && (keyKind != "same" || selfListed || otherListed)
		st.Case(nt, desc,
			"ordering:"+ordering, "key:"+keyKind, fmt.Sprintf("self-listed:%v", selfListed),
			fmt.Sprintf("others-listed:%v", otherListed), fmt.Sprintf("stays:%v", stays))
	})
}

// TestVerif_C05_OperatorList: resolveGroupOperators returns exactly the
// selected operators of the operating members in member-index order, for any
// order of the operating set and any repetition of operators; it fails iff
// the selection does not have group size or fewer than the honest threshold
// of members operate.
func TestVerif_C05_OperatorList(t *testing.T) {
	st := verifkit.New("C05", "TestVerif_C05_OperatorList")
	defer st.Flush()
	rapid.Check(t, func(t *rapid.T) {
		n := rapid.IntRange(3, 10).Draw(t, "groupSize")
		honest := rapid.IntRange(n/2+1, n).Draw(t, "honestThreshold")
		selected := c05GenSelected(t, n)
		sizeKind := rapid.SampledFrom([]string{"ok", "ok", "ok", "ok", "ok", "ok", "ok", "ok", "short", "long"}).Draw(t, "selectedSize")
		switch sizeKind {
		case "short":
			selected = selected[:rapid.IntRange(0, n-1).Draw(t, "shortLen")]
		case "long":
			selected = append(selected, chain.Address("0xextra"))
		}
		// operating set: a subset of 1..n of a size biased around the threshold
		size := rapid.IntRange(honest, n).Draw(t, "operatingSize")
		switch rapid.SampledFrom([]string{"enough", "enough", "near", "any"}).Draw(t, "operatingSizeKind") {
		case "near":
			size = rapid.IntRange(max(0, honest-1), min(n, honest+1)).Draw(t, "operatingSizeNear")
		case "any":
			size = rapid.IntRange(0, n).Draw(t, "operatingSizeAny")
		}
		all := make([]group.MemberIndex, n)
		for i := range all {
			all[i] = group.MemberIndex(i + 1)
		}
		operating := append([]group.MemberIndex{}, rapid.Permutation(all).Draw(t, "operatingOrder")[:size]...)
		input := append([]group.MemberIndex{}, operating...)
		wantErr := len(selected) != n || size < honest
		if sizeKind == "short" && !wantErr {
			t.Fatalf("harness: short selection must be an error case")
		}
		cfg := &beaconchain.Config{GroupSize: n, HonestThreshold: honest, ResultPublicationBlockStep: 1, RelayEntryTimeout: uint64(n)}
		desc := fmt.Sprintf("n=%d honest=%d selected=%v operating=%s", n, honest, selected, c05Idx(input))
		var got []chain.Address
		var err error
		got, err = resolveGroupOperators(append([]chain.Address{}, selected...), operating, cfg)
		if wantErr {
			if err == nil {
				t.Fatalf("expected an error (selected=%d of group size %d, operating=%d, honest threshold %d), got %v; %s", len(selected), n, size, honest, got, desc)
			}
			st.Case(sizeKind == "ok", desc, "outcome:error", "selected:"+sizeKind)
			return
		}
		if err != nil {
			t.Fatalf("unexpected error %v; %s", err, desc)
		}
		sorted := append([]group.MemberIndex{}, input...)
		sort.Slice(sorted, func(i, j int) bool { return sorted[i] < sorted[j] })
		want := make([]chain.Address, len(sorted))
		for i, m := range sorted {
			want[i] = selected[m-1]
		}
		if fmt.Sprint(got) != fmt.Sprint(want) {
			t.Fatalf("group operators %v, expected %v; %s", got, want, desc)
		}
		shuffled := !c05EqualIdx(sorted, input)
		repeated := c05HasRepeats(selected)
		st.Case(shuffled && size < n, desc, "outcome:ok", fmt.Sprintf("shuffled:%v", shuffled), fmt.Sprintf("repeated-operators:%v", repeated), fmt.Sprintf("all-operating:%v", size == n))
	})
}

func c05HasRepeats(sel []chain.Address) bool {
	seen := map[chain.Address]bool{}
	for _, a := range sel {
		if seen[a] {
			return true
		}
		seen[a] = true
	}
	return false
}

// selected operators: operators hold several seats (repeats are the rule in
// sortition), addresses not in index order.
func c05GenSelected(t *rapid.T, n int) []chain.Address {
	pool := rapid.IntRange(1, n).Draw(t, "operatorPool")
	if rapid.SampledFrom([]bool{false, false, true}).Draw(t, "distinctOperators") {
		sel := make([]chain.Address, n)
		ids := make([]int, n)
		for i := range ids {
			ids[i] = i
		}
		ids = rapid.Permutation(ids).Draw(t, "operatorOrder")
		for i := range sel {
			sel[i] = chain.Address(fmt.Sprintf("0x%02x", 0xA0+ids[i]))
		}
		return sel
	}
	sel := make([]chain.Address, n)
	for i := range sel {
		sel[i] = chain.Address(fmt.Sprintf("0x%02x", 0xA0+rapid.IntRange(0, pool-1).Draw(t, "operator")))
	}
	return sel
}

// TestVerif_C05_FateToOperators composes the two steps the way ExecuteDKG does
// after a failed publication: the resulting ThresholdSigner group operators are
// exactly the selected operators of the members the accepted result does not
// list, in member-index order - whatever the member itself believed about
// inactive/disqualified members; a member that must not stay gets an error.
func TestVerif_C05_FateToOperators(t *testing.T) {
	st := verifkit.New("C05", "TestVerif_C05_FateToOperators")
	defer st.Flush()
	rapid.Check(t, func(t *rapid.T) {
		s := c05GenSetup(t)
		chainKey, keyKind := c05GenChainKey(t, s)
		if rapid.Bool().Draw(t, "forceSameKey") {
			chainKey, keyKind = append([]byte{}, s.localKey...), "same"
		}
		misbehaved := c05GenMisbehaved(t, s)
		selected := c05GenSelected(t, s.n)
		ordering := rapid.SampledFrom([]string{"prefilled", "during", "during", "timeout"}).Draw(t, "ordering")
		startPub := uint64(rapid.IntRange(0, 5000).Draw(t, "startPublication"))
		ev := &event.DKGResultSubmission{GroupPublicKey: chainKey, Misbehaved: append([]uint8{}, misbehaved...),
			BlockNumber: startPub + uint64(rapid.IntRange(0, 80).Draw(t, "eventBlock"))}

		out, detail := c05RunFate(t, s, ev, ordering, startPub, rapid.IntRange(0, 100).Draw(t, "minedPercent"))
		cfg := &beaconchain.Config{GroupSize: s.n, HonestThreshold: s.honest, ResultPublicationBlockStep: s.step, RelayEntryTimeout: s.step * uint64(s.n)}

		// glue of ExecuteDKG: error -> no signer; else resolve and build signer
		var signer *ThresholdSigner
		var err error = out.err
		if err == nil {
			var ops []chain.Address
			ops, err = resolveGroupOperators(selected, out.operating, cfg)
			if err == nil {
				signer = &ThresholdSigner{memberIndex: s.member, groupPublicKey: s.local.GroupPublicKey, groupOperators: ops}
			}
		}

		eventSeen := ordering != "timeout"
		stays, operating := c05Model(s, chainKey, misbehaved)
		stays = stays && eventSeen
		desc := fmt.Sprintf("n=%d honest=%d member=%d key=%s misbehaved=%v selected=%v localIA=%v localDQ=%v ordering=%s",
			s.n, s.honest, s.member, keyKind, misbehaved, selected, s.localIA, s.localDQ, detail)
		enough := len(operating) >= s.honest
		switch {
		case !stays:
			if signer != nil {
				t.Fatalf("a signer with operators %v was produced for a member that must drop its membership; %s", signer.GroupOperators(), desc)
			}
		case !enough:
			if signer != nil {
				t.Fatalf("signer produced with %d operating members below the honest threshold %d; %s", len(operating), s.honest, desc)
			}
		default:
			if signer == nil {
				t.Fatalf("no signer although the member stays and %d >= %d members operate: %v; %s", len(operating), s.honest, err, desc)
			}
			want := make([]chain.Address, 0, len(operating))
			for _, m := range operating {
				want = append(want, selected[m-1])
			}
			if fmt.Sprint(signer.GroupOperators()) != fmt.Sprint(want) {
				t.Fatalf("group operators %v, expected the selected operators of the non-misbehaving members %s in index order: %v; %s",
					signer.GroupOperators(), c05Idx(operating), want, desc)
			}
		}
		localDiffers := false
		localOp := s.local.Group.OperatingMemberIndexes()
		if stays && !c05EqualIdx(localOp, operating) {
			localDiffers = true
		}
		nt := eventSeen && (keyKind != "same" || len(operating) != s.n || !stays)
		st.Case(nt, desc, fmt.Sprintf("stays:%v", stays), fmt.Sprintf("signer:%v", signer != nil),
			fmt.Sprintf("local-view-differs:%v", localDiffers), "ordering:"+ordering, "key:"+keyKind)
	})
}
