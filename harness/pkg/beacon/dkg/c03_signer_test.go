//go:build go1.23

package dkg

// C03 through ThresholdSigner.CompleteSignature (the beacon's wrapper around
// bls.RecoverSignature): any honest-threshold number of correct shares, in any
// order and mixed with entries recovery is documented to skip, recover the
// unique group signature - also when MORE entries than the threshold are
// handed over and skipped entries sit among the first ones (seeded C03_2b).

import (
	"fmt"
	"math/big"
	"testing"

	bn256 "github.com/ethereum/go-ethereum/crypto/bn256/cloudflare"
	"github.com/keep-network/keep-core/internal/verifkit"
	"github.com/keep-network/keep-core/pkg/bls"
	"pgregory.net/rapid"
)

func TestVerif_C03_SignerCompleteSignature(t *testing.T) {
	st := verifkit.New("C03", "TestVerif_C03_SignerCompleteSignature")
	defer st.Flush()
	q := bn256.Order
	rapid.Check(t, func(t *rapid.T) {
		k := rapid.IntRange(1, 5).Draw(t, "threshold")
		coeffs := make([]*big.Int, k)
		for i := range coeffs {
			coeffs[i] = new(big.Int).Add(big.NewInt(1), new(big.Int).Mod(new(big.Int).SetUint64(rapid.Uint64().Draw(t, "coeff")), new(big.Int).Sub(q, big.NewInt(1))))
		}
		eval := func(x int) *big.Int {
			r := new(big.Int)
			for i := len(coeffs) - 1; i >= 0; i-- {
				r.Mul(r, big.NewInt(int64(x)))
				r.Add(r, coeffs[i])
				r.Mod(r, q)
			}
			return r
		}
		msg := new(bn256.G1).ScalarBaseMult(new(big.Int).SetUint64(rapid.Uint64Range(1, 1<<62).Draw(t, "message")))
		want := new(bn256.G1).ScalarMult(msg, coeffs[0])

		// valid shares: k..k+3 distinct indices
		nValid := rapid.IntRange(k, k+3).Draw(t, "validShares")
		idx := rapid.Permutation([]int{1, 2, 3, 5, 8, 13, 21, 34, 64, 100, 200, 255}).Draw(t, "indices")[:nValid]
		var list []*bls.SignatureShare
		for _, i := range idx {
			list = append(list, &bls.SignatureShare{I: i, V: new(bn256.G1).ScalarMult(msg, eval(i))})
		}
		// skipped entries at drawn positions (biased to the front)
		nSkip := rapid.IntRange(0, 3).Draw(t, "skipped")
		skipFront := false
		for s := 0; s < nSkip; s++ {
			var e *bls.SignatureShare
			switch rapid.IntRange(0, 2).Draw(t, "skipKind") {
			case 0:
				e = nil
			case 1:
				e = &bls.SignatureShare{I: rapid.IntRange(1, 255).Draw(t, "skipI"), V: nil}
			default:
				e = &bls.SignatureShare{I: -rapid.IntRange(1, 255).Draw(t, "negI"), V: new(bn256.G1).ScalarBaseMult(big.NewInt(7))}
			}
			pos := rapid.IntRange(0, len(list)).Draw(t, "skipPos")
			if rapid.Bool().Draw(t, "front") {
				pos = rapid.IntRange(0, min(k-1, len(list))).Draw(t, "frontPos")
			}
			if pos < k {
				skipFront = true
			}
			list = append(list[:pos], append([]*bls.SignatureShare{e}, list[pos:]...)...)
		}
		ts := &ThresholdSigner{}
		got, err := ts.CompleteSignature(list, k)
		desc := fmt.Sprintf("threshold=%d valid=%v skipped=%d len=%d skipAmongFirst=%v", k, idx, nSkip, len(list), skipFront)
		if err != nil {
			t.Fatalf("CompleteSignature failed although %d >= %d correct shares with distinct indices were supplied: %v; %s", nValid, k, err, desc)
		}
		if got.String() != want.String() {
			t.Fatalf("CompleteSignature recovered a signature different from message*secret; %s", desc)
		}
		st.Case(skipFront && len(list) > k, desc, fmt.Sprintf("threshold:%d", k), fmt.Sprintf("skip-among-first:%v", skipFront), fmt.Sprintf("surplus:%v", len(list) > k))
	})
}
