//go:build go1.23

package event

import (
	"encoding/hex"
	"fmt"
	"math/big"
	"strings"
	"sync"
	"testing"

	"github.com/keep-network/keep-core/internal/verifkit"
	"pgregory.net/rapid"
)

// c06Chain is the on-chain view consulted by the deduplicator. The harness
// sets the answers before each notification (or concurrent batch); reads are
// synchronised because the deduplicator may be called from many goroutines.
type c06Chain struct {
	mu        sync.Mutex
	entry     []byte
	block     uint64
	errEntry  bool
	errBlock  bool
	consulted int
}

func (c *c06Chain) set(a c06Answer) {
	c.mu.Lock()
	c.entry, c.block, c.errEntry, c.errBlock = a.entry, a.block, a.errEntry, a.errBlock
	c.mu.Unlock()
}

func (c *c06Chain) CurrentRequestStartBlock() (*big.Int, error) {
	c.mu.Lock()
	defer c.mu.Unlock()
	c.consulted++
	if c.errBlock {
		return nil, fmt.Errorf("c06: start block unavailable")
	}
	return new(big.Int).SetUint64(c.block), nil
}

func (c *c06Chain) CurrentRequestPreviousEntry() ([]byte, error) {
	c.mu.Lock()
	defer c.mu.Unlock()
	c.consulted++
	if c.errEntry {
		return nil, fmt.Errorf("c06: previous entry unavailable")
	}
	return append([]byte{}, c.entry...), nil
}

type c06Answer struct {
	entry    []byte
	block    uint64
	errEntry bool
	errBlock bool
}

func (a c06Answer) failing() bool { return a.errEntry || a.errBlock }

func (a c06Answer) String() string {
	if a.errEntry {
		return "chain=err(entry)"
	}
	if a.errBlock {
		return "chain=err(block)"
	}
	return fmt.Sprintf("chain=(%d,%x)", a.block, a.entry)
}

// ---- reference model of the documented rule --------------------------------

type c06Model struct {
	block uint64 // 0 = nothing processed yet
	entry string
}

type c06Result struct {
	ok     bool
	failed bool
}

// step returns the verdict for a notification (b, e) given the chain answers.
func (m *c06Model) step(b uint64, e string, a c06Answer) c06Result {
	accept := false
	switch {
	case m.block == 0:
		accept = true
	case b > m.block && e != m.entry:
		// genuinely new request: processed, the chain is not needed
		accept = true
	case b > m.block && e == m.entry:
		// retry of a timed out request or a small reorg: the chain decides
		if a.failing() {
			return c06Result{false, true}
		}
		accept = hex.EncodeToString(a.entry) == e && a.block == b
	}
	if accept {
		m.block, m.entry = b, e
	}
	return c06Result{accept, false}
}

// ---- generators -------------------------------------------------------------

var c06Entries = [][]byte{{0xaa}, {0xbb}, {0xcc}, {0xaa, 0xaa}, {0xaa, 0xbb, 0xcc, 0xdd}}

type c06Note struct {
	b    uint64
	e    []byte
	kind string
}

func (n c06Note) hex() string { return hex.EncodeToString(n.e) }

func c06OtherEntry(t *rapid.T, cur string) []byte {
	for {
		e := rapid.SampledFrom(c06Entries).Draw(t, "entry")
		if hex.EncodeToString(e) != cur {
			return e
		}
	}
}

func c06EntryFromHex(h string) []byte {
	b, _ := hex.DecodeString(h)
	return b
}

// c06GenNote draws the next notification relative to the model state so that
// duplicates, regressions, retries and new requests are all frequent.
func c06GenNote(t *rapid.T, m *c06Model, history []c06Note) c06Note {
	kinds := []string{"new", "new", "retry", "retry", "dup", "dup", "regress", "regress", "same-block", "random"}
	if m.block == 0 {
		kinds = []string{"random"}
	}
	kind := rapid.SampledFrom(kinds).Draw(t, "kind")
	switch kind {
	case "new":
		return c06Note{m.block + uint64(rapid.IntRange(1, 3).Draw(t, "ahead")), c06OtherEntry(t, m.entry), kind}
	case "retry":
		return c06Note{m.block + uint64(rapid.IntRange(1, 3).Draw(t, "ahead")), c06EntryFromHex(m.entry), kind}
	case "dup":
		if len(history) > 0 {
			h := history[rapid.IntRange(0, len(history)-1).Draw(t, "dupOf")]
			if rapid.Bool().Draw(t, "dupOfCurrent") {
				return c06Note{m.block, c06EntryFromHex(m.entry), kind}
			}
			return c06Note{h.b, h.e, kind}
		}
		return c06Note{m.block, c06EntryFromHex(m.entry), kind}
	case "regress":
		if m.block <= 1 {
			return c06Note{m.block, c06OtherEntry(t, m.entry), "same-block"}
		}
		return c06Note{uint64(rapid.IntRange(1, int(m.block)-1).Draw(t, "older")), rapid.SampledFrom(c06Entries).Draw(t, "entry"), kind}
	case "same-block":
		return c06Note{m.block, c06OtherEntry(t, m.entry), kind}
	}
	return c06Note{uint64(rapid.IntRange(1, int(m.block)+6).Draw(t, "block")), rapid.SampledFrom(c06Entries).Draw(t, "entry"), "random"}
}

// c06GenAnswer draws what the chain would say while the notification (b, e)
// is handled: confirmation, a stale start block, another entry, or a failure.
func c06GenAnswer(t *rapid.T, m *c06Model, n c06Note) c06Answer {
	switch rapid.SampledFrom([]string{"confirm", "confirm", "confirm", "stale-block", "other-block", "other-entry", "both-differ", "err-entry", "err-block"}).Draw(t, "answer") {
	case "confirm":
		return c06Answer{entry: n.e, block: n.b}
	case "stale-block":
		return c06Answer{entry: n.e, block: m.block}
	case "other-block":
		return c06Answer{entry: n.e, block: n.b + uint64(rapid.IntRange(1, 2).Draw(t, "off"))}
	case "other-entry":
		return c06Answer{entry: c06OtherEntry(t, n.hex()), block: n.b}
	case "both-differ":
		return c06Answer{entry: c06OtherEntry(t, n.hex()), block: m.block}
	case "err-entry":
		return c06Answer{entry: n.e, block: n.b, errEntry: true}
	}
	return c06Answer{entry: n.e, block: n.b, errBlock: true}
}

func c06State(d *Deduplicator) c06Model {
	d.relayEntryMutex.Lock()
	defer d.relayEntryMutex.Unlock()
	return c06Model{d.currentRequestStartBlock, d.currentRequestPreviousEntry}
}

func c06Permutations(n int) [][]int {
	var out [][]int
	var rec func(cur []int, used []bool)
	rec = func(cur []int, used []bool) {
		if len(cur) == n {
			out = append(out, append([]int{}, cur...))
			return
		}
		for i := 0; i < n; i++ {
			if !used[i] {
				used[i] = true
				rec(append(cur, i), used)
				used[i] = false
			}
		}
	}
	rec(nil, make([]bool, n))
	return out
}

// c06Invariants are the history invariants of the property, kept apart from
// the reference model: accepted start blocks strictly increase and no
// (block, entry) request is processed twice.
type c06Invariants struct {
	lastAccepted uint64
	accepted     map[string]bool
}

func (iv *c06Invariants) accept(t *rapid.T, b uint64, e string, trace string) {
	if iv.accepted == nil {
		iv.accepted = map[string]bool{}
	}
	key := fmt.Sprintf("%d/%s", b, e)
	if iv.accepted[key] {
		t.Fatalf("request (%d,%s) processed twice; history: %s", b, e, trace)
	}
	if iv.lastAccepted != 0 && b <= iv.lastAccepted {
		t.Fatalf("request (%d,%s) processed after a request with start block %d was processed (must be strictly newer); history: %s", b, e, iv.lastAccepted, trace)
	}
	iv.accepted[key] = true
	iv.lastAccepted = b
}

// TestVerif_C06_Sequence drives one deduplicator through a generated history
// of sequential notifications, concurrent identical deliveries and concurrent
// mixed deliveries and compares every verdict with the reference model.
func TestVerif_C06_Sequence(t *testing.T) {
	st := verifkit.New("C06", "TestVerif_C06_Sequence")
	defer st.Flush()
	perms := map[int][][]int{2: c06Permutations(2), 3: c06Permutations(3), 4: c06Permutations(4)}
	rapid.Check(t, func(t *rapid.T) {
		ch := &c06Chain{}
		d := NewDeduplicator(ch)
		m := &c06Model{}
		iv := &c06Invariants{}
		var history []c06Note
		var trace []string
		steps := rapid.IntRange(6, 36).Draw(t, "steps")
		seen := map[string]int{}
		for i := 0; i < steps; i++ {
			mode := rapid.SampledFrom([]string{"one", "one", "one", "one", "one", "same8", "mixed"}).Draw(t, "mode")
			switch mode {
			case "one":
				n := c06GenNote(t, m, history)
				a := c06GenAnswer(t, m, n)
				ch.set(a)
				before := *m
				want := m.step(n.b, n.hex(), a)
				ok, err := d.NotifyRelayEntryStarted(n.b, n.hex())
				tr := fmt.Sprintf("(%d,%s %s %s)->%v", n.b, n.hex(), n.kind, a, ok)
				if err != nil {
					tr += "!err"
				}
				trace = append(trace, tr)
				if (err != nil) != want.failed {
					t.Fatalf("notification (%d,%s) with %s after state (%d,%s): error=%v, expected failure=%v; history: %s", n.b, n.hex(), a, before.block, before.entry, err, want.failed, strings.Join(trace, " "))
				}
				if err != nil && ok {
					t.Fatalf("error %v returned together with a positive verdict", err)
				}
				if ok != want.ok {
					t.Fatalf("notification (%d,%s) [%s] with %s after state (%d,%s): processed=%v, expected %v; history: %s", n.b, n.hex(), n.kind, a, before.block, before.entry, ok, want.ok, strings.Join(trace, " "))
				}
				if ok {
					iv.accept(t, n.b, n.hex(), strings.Join(trace, " "))
				}
				history = append(history, n)
				seen[c06Class(n, before, a, ok)]++
			case "same8":
				// the same event delivered by 8 subscriptions at once
				n := c06GenNote(t, m, history)
				a := c06GenAnswer(t, m, n)
				ch.set(a)
				before := *m
				want := m.step(n.b, n.hex(), a)
				const workers = 8
				oks := make([]bool, workers)
				errs := make([]error, workers)
				var wg sync.WaitGroup
				start := make(chan struct{})
				for w := 0; w < workers; w++ {
					wg.Add(1)
					go func(w int) {
						defer wg.Done()
						<-start
						oks[w], errs[w] = d.NotifyRelayEntryStarted(n.b, n.hex())
					}(w)
				}
				close(start)
				wg.Wait()
				trues, failures := 0, 0
				for w := 0; w < workers; w++ {
					if oks[w] {
						trues++
					}
					if errs[w] != nil {
						failures++
					}
				}
				tr := fmt.Sprintf("8x(%d,%s %s %s)->%d", n.b, n.hex(), n.kind, a, trues)
				trace = append(trace, tr)
				wantTrue := 0
				if want.ok {
					wantTrue = 1
				}
				if trues != wantTrue {
					t.Fatalf("8 concurrent deliveries of (%d,%s) with %s after state (%d,%s): %d processed, expected exactly %d; history: %s", n.b, n.hex(), a, before.block, before.entry, trues, wantTrue, strings.Join(trace, " "))
				}
				if want.failed && failures != workers {
					t.Fatalf("8 concurrent deliveries with failing chain: %d errors, expected %d; history: %s", failures, workers, strings.Join(trace, " "))
				}
				if !want.failed && failures != 0 {
					t.Fatalf("8 concurrent deliveries: %d unexpected errors; history: %s", failures, strings.Join(trace, " "))
				}
				if want.ok {
					iv.accept(t, n.b, n.hex(), strings.Join(trace, " "))
				}
				history = append(history, n)
				seen["concurrent-same"]++
				seen[c06Class(n, before, a, want.ok)]++
			case "mixed":
				// 2..4 different notifications race; the chain answer is the
				// same for all. The verdicts and the resulting state must be
				// explained by some sequential order.
				k := rapid.IntRange(2, 4).Draw(t, "batch")
				notes := make([]c06Note, k)
				for j := range notes {
					notes[j] = c06GenNote(t, m, history)
				}
				a := c06GenAnswer(t, m, notes[rapid.IntRange(0, k-1).Draw(t, "answerFor")])
				ch.set(a)
				before := *m
				oks := make([]bool, k)
				errs := make([]error, k)
				var wg sync.WaitGroup
				start := make(chan struct{})
				for w := 0; w < k; w++ {
					wg.Add(1)
					go func(w int) {
						defer wg.Done()
						<-start
						oks[w], errs[w] = d.NotifyRelayEntryStarted(notes[w].b, notes[w].hex())
					}(w)
				}
				close(start)
				wg.Wait()
				after := c06State(d)
				var parts []string
				for w := range notes {
					parts = append(parts, fmt.Sprintf("(%d,%s)->%v", notes[w].b, notes[w].hex(), oks[w]))
				}
				trace = append(trace, fmt.Sprintf("race[%s %s]", strings.Join(parts, " "), a))
				var order []int
				for _, p := range perms[k] {
					sim := before
					match := true
					for _, w := range p {
						r := sim.step(notes[w].b, notes[w].hex(), a)
						if r.ok != oks[w] || r.failed != (errs[w] != nil) {
							match = false
							break
						}
					}
					if match && sim == after {
						order = p
						break
					}
				}
				if order == nil {
					t.Fatalf("concurrent notifications %v with %s after state (%d,%s) ended in state (%d,%s): no sequential order explains the verdicts; history: %s",
						parts, a, before.block, before.entry, after.block, after.entry, strings.Join(trace, " "))
				}
				// replay the explaining order on the model and the invariants
				for _, w := range order {
					if r := m.step(notes[w].b, notes[w].hex(), a); r.ok {
						iv.accept(t, notes[w].b, notes[w].hex(), strings.Join(trace, " "))
					}
				}
				history = append(history, notes...)
				seen["concurrent-mixed"]++
			}
			// the implementation's memory is what the model says
			if got := c06State(d); got != *m {
				t.Fatalf("deduplicator remembers (%d,%s), expected (%d,%s); history: %s", got.block, got.entry, m.block, m.entry, strings.Join(trace, " "))
			}
		}
		nt := seen["duplicate"] > 0 && seen["regression"] > 0 && (seen["retry-confirmed"]+seen["retry-refused"]) > 0
		labels := []string{fmt.Sprintf("nontrivial:%v", nt)}
		for k := range seen {
			labels = append(labels, "has:"+k)
		}
		st.Case(nt, strings.Join(trace, " "), labels...)
	})
}

// c06Class names the class of a single notification for the statistics.
func c06Class(n c06Note, before c06Model, a c06Answer, ok bool) string {
	switch {
	case before.block == 0:
		return "first"
	case n.b == before.block && n.hex() == before.entry:
		return "duplicate"
	case n.b < before.block:
		return "regression"
	case n.b == before.block:
		return "same-block-other-entry"
	case n.hex() != before.entry:
		return "new-entry"
	case a.failing():
		return "retry-chain-error"
	case ok:
		return "retry-confirmed"
	}
	return "retry-refused"
}

// TestVerif_C06_NewEntryNeedsNoChain: a later request with a new previous
// entry is processed whatever the chain says (even when it cannot be reached),
// and a later request reusing the previous entry is processed iff the chain
// reports exactly this request as current. Both directions, one step each,
// from a generated prior state.
func TestVerif_C06_NewEntryNeedsNoChain(t *testing.T) {
	st := verifkit.New("C06", "TestVerif_C06_NewEntryNeedsNoChain")
	defer st.Flush()
	rapid.Check(t, func(t *rapid.T) {
		ch := &c06Chain{}
		d := NewDeduplicator(ch)
		curB := uint64(rapid.IntRange(1, 1_000_000).Draw(t, "currentBlock"))
		curE := rapid.SampledFrom(c06Entries).Draw(t, "currentEntry")
		ch.set(c06Answer{errEntry: true, errBlock: true})
		if ok, err := d.NotifyRelayEntryStarted(curB, hex.EncodeToString(curE)); !ok || err != nil {
			t.Fatalf("the first request (%d,%x) of a fresh node must be processed, got %v %v", curB, curE, ok, err)
		}
		m := &c06Model{curB, hex.EncodeToString(curE)}
		newB := curB + uint64(rapid.IntRange(1, 1000).Draw(t, "ahead"))
		reuse := rapid.Bool().Draw(t, "reuseEntry")
		var n c06Note
		if reuse {
			n = c06Note{newB, curE, "retry"}
		} else {
			n = c06Note{newB, c06OtherEntry(t, m.entry), "new"}
		}
		a := c06GenAnswer(t, m, n)
		ch.set(a)
		ok, err := d.NotifyRelayEntryStarted(n.b, n.hex())
		desc := fmt.Sprintf("cur=(%d,%x) new=(%d,%s) %s -> %v err=%v", curB, curE, n.b, n.hex(), a, ok, err != nil)
		if !reuse {
			if !ok || err != nil {
				t.Fatalf("a later request with a new previous entry must always be processed: %s", desc)
			}
		} else {
			confirmed := !a.failing() && a.block == n.b && hex.EncodeToString(a.entry) == n.hex()
			if a.failing() {
				if err == nil || ok {
					t.Fatalf("chain unavailable while a reused entry needs confirmation: expected an error and no processing: %s", desc)
				}
			} else if ok != confirmed || err != nil {
				t.Fatalf("a later request reusing the previous entry is processed iff the chain confirms it as current (confirmed=%v): %s", confirmed, desc)
			}
		}
		// redelivery of what was just decided is never processed (again)
		ch.set(c06Answer{entry: n.e, block: n.b})
		if ok {
			if again, _ := d.NotifyRelayEntryStarted(n.b, n.hex()); again {
				t.Fatalf("redelivery of the processed request processed again: %s", desc)
			}
		}
		if again, _ := d.NotifyRelayEntryStarted(curB, hex.EncodeToString(curE)); again {
			t.Fatalf("stale redelivery of the first request (%d,%x) processed again: %s", curB, curE, desc)
		}
		st.Case(reuse || a.failing(), desc, fmt.Sprintf("reuse:%v", reuse), fmt.Sprintf("chain-failing:%v", a.failing()), fmt.Sprintf("processed:%v", ok))
	})
}
