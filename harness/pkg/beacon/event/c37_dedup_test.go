//go:build go1.23

package event

import (
	"fmt"
	"math/big"
	"runtime"
	"strings"
	"sync"
	"sync/atomic"
	"testing"

	"github.com/keep-network/keep-core/internal/verifkit"
	"pgregory.net/rapid"
)

// C37 for the beacon deduplicator: NotifyDKGStarted. Model: the event is the
// seed value; a delivery is handled iff that value was not delivered before.

const c37BeaconKeyRace = "D8-check-then-add"

func c37BeaconGenSeed(t *rapid.T, label string) *big.Int {
	switch rapid.IntRange(0, 2).Draw(t, label+"kind") {
	case 0:
		return big.NewInt(int64(rapid.IntRange(0, 300).Draw(t, label+"small")))
	default:
		n := rapid.IntRange(1, 32).Draw(t, label+"len")
		b := rapid.SliceOfN(rapid.Byte(), n, n).Draw(t, label+"bytes")
		return new(big.Int).SetBytes(b)
	}
}

func TestVerif_C37_BeaconSequential(t *testing.T) {
	st := verifkit.New("C37", "TestVerif_C37_BeaconSequential")
	defer st.Flush()
	rapid.Check(t, func(t *rapid.T) {
		nSeeds := rapid.IntRange(1, 5).Draw(t, "nSeeds")
		seeds := make([]*big.Int, nSeeds)
		for i := range seeds {
			seeds[i] = c37BeaconGenSeed(t, "seed")
		}
		// near twins: the last seed differs from the first only in one high bit
		// (64..255), one low bit, or by a multiple of 2^64
		if nSeeds > 1 && rapid.Bool().Draw(t, "nearTwin") {
			r := new(big.Int).Set(seeds[0])
			switch rapid.SampledFrom([]string{"high-bit", "low-bit", "add-2^64", "low-64-only", "times-16"}).Draw(t, "near") {
			case "high-bit":
				r.Xor(r, new(big.Int).Lsh(big.NewInt(1), uint(rapid.IntRange(64, 255).Draw(t, "highBit"))))
			case "low-bit":
				r.Xor(r, new(big.Int).Lsh(big.NewInt(1), uint(rapid.IntRange(0, 63).Draw(t, "lowBit"))))
			case "add-2^64":
				r.Add(r, new(big.Int).Lsh(big.NewInt(int64(rapid.IntRange(1, 1000).Draw(t, "k"))), 64))
			case "low-64-only":
				r.SetUint64(r.Uint64())
			default:
				r.Lsh(r, 4)
			}
			if r.BitLen() <= 256 {
				seeds[nSeeds-1] = r
			}
		}
		d := NewDeduplicator(nil)
		var seen []*big.Int
		var hist []string
		repeats := 0
		steps := rapid.IntRange(2, 30).Draw(t, "steps")
		for i := 0; i < steps; i++ {
			s := seeds[rapid.IntRange(0, nSeeds-1).Draw(t, "si")]
			dup := false
			for _, o := range seen {
				if o.Cmp(s) == 0 {
					dup = true
				}
			}
			got := d.NotifyDKGStarted(new(big.Int).Set(s))
			if got == dup {
				t.Fatalf("step %d: NotifyDKGStarted(0x%s) = %v, the seed was delivered before: %v; history: %v", i, s.Text(16), got, dup, hist)
			}
			seen = append(seen, s)
			hist = append(hist, fmt.Sprintf("0x%s=%v", s.Text(16), got))
			if dup {
				repeats++
			}
		}
		st.Case(repeats > 0 && nSeeds > 1, strings.Join(hist, " "), fmt.Sprintf("seeds:%d", nSeeds))
	})
}

type c37BeaconBarrier struct {
	ready atomic.Int32
	goFlg atomic.Bool
}

func (b *c37BeaconBarrier) wait() {
	b.ready.Add(1)
	for i := 0; !b.goFlg.Load(); i++ {
		if i%2000 == 1999 {
			runtime.Gosched()
		}
	}
}

func (b *c37BeaconBarrier) release(k int) {
	for int(b.ready.Load()) < k {
		runtime.Gosched()
	}
	b.goFlg.Store(true)
}

// TestVerif_C37_BeaconConcurrent: k = 2..16 handlers deliver the same
// DKG-started event at once (fresh seed per round); exactly one is handled.
func TestVerif_C37_BeaconConcurrent(t *testing.T) {
	st := verifkit.New("C37", "TestVerif_C37_BeaconConcurrent")
	defer st.Flush()
	if verifkit.Known(c37BeaconKeyRace) {
		st.Excluded(c37BeaconKeyRace)
		t.Skip("known finding " + c37BeaconKeyRace)
	}
	rapid.Check(t, func(t *rapid.T) {
		k := rapid.IntRange(2, 16).Draw(t, "handlers")
		rounds := rapid.IntRange(10, 40).Draw(t, "rounds")
		base := c37BeaconGenSeed(t, "seed")
		d := NewDeduplicator(nil)
		for r := 0; r < rounds; r++ {
			seed := new(big.Int).Add(base, big.NewInt(int64(r)))
			var bar c37BeaconBarrier
			var wg sync.WaitGroup
			var handled atomic.Int32
			wg.Add(k)
			for g := 0; g < k; g++ {
				go func() {
					defer wg.Done()
					bar.wait()
					if d.NotifyDKGStarted(seed) {
						handled.Add(1)
					}
				}()
			}
			bar.release(k)
			wg.Wait()
			if handled.Load() != 1 {
				key := ""
				if handled.Load() > 1 {
					key = " [finding-key=" + c37BeaconKeyRace + "]"
				}
				t.Fatalf("round %d: %d parallel deliveries of DKG started seed=0x%s: %d were handled, exactly 1 expected%s",
					r, k, seed.Text(16), handled.Load(), key)
			}
			if d.NotifyDKGStarted(seed) {
				t.Fatalf("round %d: sequential re-delivery of seed 0x%s handled again", r, seed.Text(16))
			}
		}
		st.Case(true, fmt.Sprintf("handlers=%d rounds=%d base=0x%s", k, rounds, base.Text(16)), fmt.Sprintf("handlers:%d", (k+3)/4*4))
	})
}
