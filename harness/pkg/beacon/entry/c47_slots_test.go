//go:build go1.23

package entry

import (
	"fmt"
	"math/big"
	"sort"
	"sync"
	"testing"
	"time"

	"github.com/keep-network/keep-core/internal/testutils"
	"github.com/keep-network/keep-core/internal/verifkit"
	beaconchain "github.com/keep-network/keep-core/pkg/beacon/chain"
	"github.com/keep-network/keep-core/pkg/protocol/group"
	"pgregory.net/rapid"
)

const c47Wait = 20 * time.Second

// finding key of D10 (see /verif/notes/C47.md)
const c47KeyD10 = "D10-relay-entry-last-slot"

// c47Counter is the kit's fake block counter with the waiter semantics of the
// production counters: a waiter delivers its height exactly once and is never
// closed (the kit closes the channel, which a for/select loop such as
// submitRelayEntry would see as "always ready").
type c47Counter struct {
	*verifkit.FakeBlockCounter
}

func (c c47Counter) BlockHeightWaiter(h uint64) (<-chan uint64, error) {
	w, err := c.FakeBlockCounter.BlockHeightWaiter(h)
	if err != nil {
		return nil, err
	}
	out := make(chan uint64, 1)
	go func() {
		if v, ok := <-w; ok {
			out <- v
		}
	}()
	return out, nil
}

// c47Chain records relay entry submissions with the block they happen at.
type c47Chain struct {
	beaconchain.Interface
	cfg *beaconchain.Config
	bc  *verifkit.FakeBlockCounter

	mu            sync.Mutex
	submitBlocks  []uint64
	submitErr     error
	entryProgress bool
	submitted     chan struct{}

	// landOn: the accepted entry of another member is announced while this
	// chain call of the member is in flight ("submit" | "status")
	landOn string
	landCh chan<- uint64
}

// land announces the competing entry from the chain's own routine (it stays
// parked if the member never listens again, like a late chain event).
func (c *c47Chain) land(call string) {
	if c.landOn != call {
		return
	}
	c.landOn = ""
	h := c.bc.Height()
	go func() { c.landCh <- h }()
}

func (c *c47Chain) GetConfig() *beaconchain.Config { return c.cfg }

func (c *c47Chain) SubmitRelayEntry(entry []byte) error {
	c.mu.Lock()
	c.submitBlocks = append(c.submitBlocks, c.bc.Height())
	err := c.submitErr
	c.land("submit")
	c.mu.Unlock()
	c.submitted <- struct{}{}
	return err
}

func (c *c47Chain) IsEntryInProgress() (bool, error) {
	c.mu.Lock()
	defer c.mu.Unlock()
	answer := c.entryProgress
	c.land("status")
	return answer, nil
}

func (c *c47Chain) submits() []uint64 {
	c.mu.Lock()
	defer c.mu.Unlock()
	return append([]uint64{}, c.submitBlocks...)
}

// c47GenEntry draws an entry value as bytes: k*N + r with the residue biased
// to 0 (the class named by the property), 1 and N-1, from one byte up to the
// 64 bytes of a marshalled G1 point.
func c47GenEntry(t *rapid.T, n int, avoidZeroResidue bool) ([]byte, int) {
	size := rapid.SampledFrom([]int{1, 2, 8, 32, 64}).Draw(t, "entryBytes")
	raw := rapid.SliceOfN(rapid.Byte(), size, size).Draw(t, "entryRaw")
	v := new(big.Int).SetBytes(raw)
	N := big.NewInt(int64(n))
	v.Sub(v, new(big.Int).Mod(v, N)) // multiple of N
	var r int
	switch rapid.SampledFrom([]string{"zero", "zero", "one", "last", "any"}).Draw(t, "residue") {
	case "zero":
		r = 0
	case "one":
		r = 1 % n
	case "last":
		r = n - 1
	default:
		r = rapid.IntRange(0, n-1).Draw(t, "residueValue")
	}
	if avoidZeroResidue && r == 0 {
		if n == 1 {
			return nil, -1
		}
		r = rapid.IntRange(1, n-1).Draw(t, "residueNonZero")
	}
	v.Add(v, big.NewInt(int64(r)))
	b := v.Bytes()
	if len(b) == 0 {
		b = []byte{0}
	}
	// independent re-computation of the residue from the bytes
	r = int(new(big.Int).Mod(new(big.Int).SetBytes(b), N).Int64())
	return b, r
}

func c47GenGroupSize(t *rapid.T) int {
	// (the degenerate single-member group comes last so that shrinking ends
	// at a group of two)
	switch rapid.SampledFrom([]string{"small", "small", "small", "mid", "mid", "64", "64", "one"}).Draw(t, "sizeKind") {
	case "small":
		return rapid.IntRange(2, 6).Draw(t, "groupSize")
	case "mid":
		return rapid.IntRange(7, 63).Draw(t, "groupSizeMid")
	case "one":
		return 1
	}
	return 64
}

// c47Slot asks the real waitForSubmissionEligibility which block the member
// waits for (the waiter it registers on a counter standing at block 0).
func c47Slot(t *rapid.T, index group.MemberIndex, entry []byte, start uint64, n int, step uint64) uint64 {
	bc := verifkit.NewFakeBlockCounter(0)
	s := &relayEntrySubmitter{logger: &testutils.MockLogger{}, blockCounter: bc, index: index}
	if _, err := s.waitForSubmissionEligibility(entry, start, n, step); err != nil {
		t.Fatalf("waitForSubmissionEligibility failed: %v", err)
	}
	if p, regs := bc.Pending(); p != 1 || regs != 1 {
		t.Fatalf("member %d registered %d waiters (%d pending) for start block %d, expected exactly one", index, regs, p, start)
	}
	return bc.MinPendingHeight()
}

// TestVerif_C47_RelayEntrySlots: for one (group size, step, entry, start) all
// members' slots are pairwise different, none is before the start block and
// every one is strictly before start + relay entry timeout; together they are
// {0..N-1}*step after the start block.
func TestVerif_C47_RelayEntrySlots(t *testing.T) {
	st := verifkit.New("C47", "TestVerif_C47_RelayEntrySlots")
	defer st.Flush()
	knownD10 := verifkit.Known(c47KeyD10)
	rapid.Check(t, func(t *rapid.T) {
		n := c47GenGroupSize(t)
		step := uint64(rapid.IntRange(1, 5).Draw(t, "step"))
		start := uint64(rapid.IntRange(1, 10_000_000).Draw(t, "start"))
		entry, residue := c47GenEntry(t, n, knownD10)
		if residue < 0 {
			st.Excluded(c47KeyD10)
			return
		}
		if knownD10 {
			st.Excluded(c47KeyD10)
		}
		// both chain implementations configure the timeout as size * step
		timeout := uint64(n) * step
		desc := fmt.Sprintf("N=%d step=%d start=%d entry=0x%x (entry mod N = %d)", n, step, start, entry, residue)

		slots := make([]uint64, n+1)
		owner := map[uint64]int{}
		for i := 1; i <= n; i++ {
			slot := c47Slot(t, group.MemberIndex(i), entry, start, n, step)
			slots[i] = slot
			if slot < start {
				t.Fatalf("member %d waits for block %d, before the start block %d; %s", i, slot, start, desc)
			}
			if j, dup := owner[slot]; dup {
				t.Fatalf("members %d and %d share the slot at block %d; %s", j, i, slot, desc)
			}
			owner[slot] = i
		}
		for i := 1; i <= n; i++ {
			if slots[i] >= start+timeout {
				key := ""
				if residue == 0 && i == n && slots[i] == start+timeout {
					key = " [finding-key=" + c47KeyD10 + "]"
				}
				t.Fatalf("member %d waits for block %d = start+%d which is not strictly before the relay entry timeout block %d (start+%d); %s%s",
					i, slots[i], slots[i]-start, start+timeout, timeout, desc, key)
			}
		}
		offs := make([]uint64, 0, n)
		for i := 1; i <= n; i++ {
			offs = append(offs, slots[i]-start)
		}
		sort.Slice(offs, func(a, b int) bool { return offs[a] < offs[b] })
		for k, o := range offs {
			if o != uint64(k)*step {
				t.Fatalf("slot offsets %v are not {0..N-1}*step; %s", offs, desc)
			}
		}
		st.Case(residue == 0, desc, fmt.Sprintf("residue-zero:%v", residue == 0), fmt.Sprintf("residue-last:%v", residue == n-1),
			fmt.Sprintf("entry-bytes:%d", len(entry)), c47SizeLabel(n))
	})
}

func c47SizeLabel(n int) string {
	switch {
	case n == 1:
		return "size:1"
	case n <= 6:
		return "size:2-6"
	case n < 64:
		return "size:7-63"
	}
	return "size:64"
}

// TestVerif_C47_RelayEntrySubmitHistory: one member runs the real
// submitRelayEntry against a block counter and a chain owned by the harness.
// The member submits at the block of its slot (or at once when the slot has
// passed when it gets there) - never earlier -, submits once, and never
// submits when it learnt before its slot that somebody else's entry was
// accepted; after its own submission it keeps watching and leaves on the
// submission event or on the timeout.
func TestVerif_C47_RelayEntrySubmitHistory(t *testing.T) {
	st := verifkit.New("C47", "TestVerif_C47_RelayEntrySubmitHistory")
	defer st.Flush()
	rapid.Check(t, func(t *rapid.T) {
		n := rapid.SampledFrom([]int{1, 2, 3, 3, 4, 5, 8, 16, 64}).Draw(t, "groupSize")
		step := uint64(rapid.IntRange(1, 3).Draw(t, "step"))
		start := uint64(rapid.IntRange(5, 100_000).Draw(t, "start"))
		index := group.MemberIndex(rapid.IntRange(1, n).Draw(t, "member"))
		entry, residue := c47GenEntry(t, n, false)
		timeout := uint64(n) * step
		timeoutBlock := start + timeout
		slot := c47Slot(t, index, entry, start, n, step)
		desc := fmt.Sprintf("N=%d step=%d start=%d member=%d entry=0x%x (mod N = %d) slot=start+%d", n, step, start, index, entry, residue, int64(slot)-int64(start))
		if slot >= timeoutBlock {
			// slot and timeout become ready together and the implementation's
			// select picks one at random; the slot clause is decided by
			// TestVerif_C47_RelayEntrySlots, nothing to assert here.
			st.Case(false, desc+" (slot not before timeout: history not driven)", "history:skipped-slot-at-timeout")
			return
		}
		// the member reaches the submission step at some block in
		// [start-2, timeoutBlock-1] (threshold signing took that long)
		arrive := uint64(rapid.IntRange(int(start)-2, int(timeoutBlock)-1).Draw(t, "arriveBlock"))
		if rapid.Bool().Draw(t, "arriveEarly") {
			arrive = uint64(rapid.IntRange(int(start)-2, int(start)).Draw(t, "arriveBlockEarly"))
		}
		due := slot // the block at which the member is expected to submit
		if arrive > due {
			due = arrive
		}
		// competing accepted entry: none, at a block before the member is due,
		// or at/after the block of the member's own submission
		var kinds []string
		kinds = append(kinds, "none", "after", "after", "during-submit", "during-status")
		if arrive < slot {
			kinds = append(kinds, "before", "before", "before", "just-before")
		}
		kind := rapid.SampledFrom(kinds).Draw(t, "competing")
		var eventBlock uint64
		switch kind {
		case "before":
			eventBlock = uint64(rapid.IntRange(int(arrive), int(slot)-1).Draw(t, "eventBlock"))
		case "just-before":
			eventBlock = slot - 1
		case "after":
			eventBlock = uint64(rapid.IntRange(int(due), int(timeoutBlock)-1).Draw(t, "eventBlock"))
		}
		outcome := rapid.SampledFrom([]string{"accepted", "accepted", "accepted", "rejected-not-in-progress", "rejected-in-progress"}).Draw(t, "ownSubmission")
		if kind == "during-status" && outcome == "accepted" {
			// the status is only asked after a failed submission
			outcome = rapid.SampledFrom([]string{"rejected-not-in-progress", "rejected-in-progress"}).Draw(t, "ownSubmissionFailed")
		}
		if kind == "during-submit" || kind == "during-status" {
			eventBlock = due
		}

		bc := verifkit.NewFakeBlockCounter(arrive)
		counter := c47Counter{bc}
		ch := &c47Chain{cfg: &beaconchain.Config{GroupSize: n, HonestThreshold: n/2 + 1, ResultPublicationBlockStep: step, RelayEntryTimeout: timeout},
			bc: bc, submitted: make(chan struct{}, 16)}
		switch outcome {
		case "rejected-not-in-progress":
			ch.submitErr = fmt.Errorf("c47: transaction reverted")
		case "rejected-in-progress":
			ch.submitErr, ch.entryProgress = fmt.Errorf("c47: transaction failed"), true
		}
		submittedCh := make(chan uint64)
		if kind == "during-submit" {
			ch.landOn, ch.landCh = "submit", submittedCh
		} else if kind == "during-status" {
			ch.landOn, ch.landCh = "status", submittedCh
		}
		timeoutCh, _ := counter.BlockHeightWaiter(timeoutBlock)
		s := &relayEntrySubmitter{logger: &testutils.MockLogger{}, chain: ch, blockCounter: counter, index: index}
		done := make(chan error, 1)
		go func() {
			done <- s.submitRelayEntry(entry, []byte{1, 2, 3}, start, submittedCh, timeoutCh)
		}()
		defer bc.AdvanceTo(timeoutBlock + 1) // releases every forwarding goroutine

		var result error
		finished := false
		submits := 0
		// waitReaction: the member reacted to what just happened by submitting
		// or by leaving; a silent member is inconclusive (never a verdict)
		waitReaction := func(what string) {
			select {
			case <-ch.submitted:
				submits++
			case result = <-done:
				finished = true
			case <-time.After(c47Wait):
				fmt.Println("VERIF-INCONCLUSIVE: relay entry submitter did not react to " + what)
				t.Fatalf("VERIF-INCONCLUSIVE: no reaction to %s; %s", what, desc)
			}
		}
		if arrive >= slot {
			waitReaction("a slot that has already passed")
		} else if !verifkit.Eventually(c47Wait, func() bool { p, _ := bc.Pending(); return p >= 2 || len(done) > 0 || len(ch.submitted) > 0 }) {
			fmt.Println("VERIF-INCONCLUSIVE: relay entry submitter did not start waiting")
			t.Fatalf("VERIF-INCONCLUSIVE: submitter did not register its waiter; %s", desc)
		}
		eventSent, ignoredEvent := false, false
		during := kind == "during-submit" || kind == "during-status"
		for !finished {
			h := bc.Height()
			if during && submits > 0 && !eventSent {
				// the competing entry was announced while the member's own
				// chain call was in flight: it leaves - or, if it ignores
				// the announcement, takes a second copy of it as well
				eventSent = true
				select {
				case result = <-done:
					finished = true
				case submittedCh <- h:
					select {
					case result = <-done:
						finished = true
					case submittedCh <- h:
						ignoredEvent = true
					case <-time.After(c47Wait):
						fmt.Println("VERIF-INCONCLUSIVE: submitter neither left nor kept listening after the announcement")
						t.Fatalf("VERIF-INCONCLUSIVE: submitter stuck; %s", desc)
					}
				case <-time.After(c47Wait):
					fmt.Println("VERIF-INCONCLUSIVE: submitter neither left nor listened after its own submission")
					t.Fatalf("VERIF-INCONCLUSIVE: submitter stuck; %s", desc)
				}
				continue
			}
			if kind != "none" && !during && !eventSent && h == eventBlock && (kind != "after" || submits > 0 || outcome != "accepted") {
				select {
				case submittedCh <- h:
				case result = <-done:
					finished = true
					continue
				case <-time.After(c47Wait):
					fmt.Println("VERIF-INCONCLUSIVE: submission event not taken")
					t.Fatalf("VERIF-INCONCLUSIVE: event not consumed; %s", desc)
				}
				eventSent = true
				// the member leaves - or, if it ignores the event, comes back
				// to its select and takes a second copy of it
				select {
				case result = <-done:
					finished = true
				case submittedCh <- h:
					ignoredEvent = true
				case <-time.After(c47Wait):
					fmt.Println("VERIF-INCONCLUSIVE: submitter neither left nor kept listening after the submission event")
					t.Fatalf("VERIF-INCONCLUSIVE: submitter stuck; %s", desc)
				}
				continue
			}
			if h > timeoutBlock {
				t.Fatalf("submitter still running after the timeout block %d; %s", timeoutBlock, desc)
			}
			before, _ := bc.Pending()
			bc.Advance(1)
			after, _ := bc.Pending()
			if after < before {
				waitReaction(fmt.Sprintf("block %d", h+1))
			}
			// an early submission (before the waiter fired) shows up here
			select {
			case <-ch.submitted:
				submits++
			default:
			}
		}
		blocks := ch.submits()
		full := fmt.Sprintf("%s arrive=%d competing=%s@%d own=%s -> submits at %v, result %v", desc, arrive, kind, eventBlock, outcome, blocks, result)

		for _, b := range blocks {
			if b < slot {
				t.Fatalf("member submitted at block %d, before its slot at block %d; %s", b, slot, full)
			}
			if eventSent && b > eventBlock {
				t.Fatalf("member submitted at block %d, after it was told at block %d that an entry was accepted; %s", b, eventBlock, full)
			}
		}
		if ignoredEvent {
			t.Fatalf("member kept running after the event that an entry was accepted (block %d): it must stop once someone succeeded; %s", eventBlock, full)
		}
		switch kind {
		case "before", "just-before":
			if len(blocks) != 0 {
				t.Fatalf("member submitted although the accepted entry of another member was delivered at block %d, before its slot %d; %s", eventBlock, slot, full)
			}
			if result != nil {
				t.Fatalf("member left with error %v after the submission event; %s", result, full)
			}
		default:
			if len(blocks) != 1 {
				t.Fatalf("member submitted %d times, expected once at block %d; %s", len(blocks), due, full)
			}
			if blocks[0] != due {
				t.Fatalf("member submitted at block %d, expected block %d (slot %d, arrived %d); %s", blocks[0], due, slot, arrive, full)
			}
			switch {
			case outcome == "rejected-not-in-progress":
				if result != nil {
					t.Fatalf("own submission rejected because the entry is no longer in progress: expected a clean exit, got %v; %s", result, full)
				}
			case outcome == "rejected-in-progress":
				if result == nil {
					t.Fatalf("own submission failed while the entry is still in progress: expected the error; %s", full)
				}
			case kind == "after" || during:
				if result != nil {
					t.Fatalf("member left with error %v after the submission event; %s", result, full)
				}
			default:
				if result == nil {
					t.Fatalf("no entry accepted until the timeout block %d but the member reports success; %s", timeoutBlock, full)
				}
			}
		}
		nt := kind == "just-before" || residue == 0 || during
		st.Case(nt, full, "competing:"+kind, "own:"+outcome, fmt.Sprintf("arrived-late:%v", arrive > slot), fmt.Sprintf("residue-zero:%v", residue == 0), "history:driven")
	})
}
