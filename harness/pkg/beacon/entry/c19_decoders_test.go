//go:build go1.23

package entry

import (
	"testing"

	"github.com/keep-network/keep-core/internal/c19wire"
	"pgregory.net/rapid"
)

// C19 - pkg/beacon/entry: relay entry signature share message.

func c19Codecs() []c19wire.Codec {
	return []c19wire.Codec{
		c19wire.Codec{
			Name: "entry.SignatureShareMessage",
			New:  func() c19wire.Msg { return &SignatureShareMessage{} },
			Gen: func(t *rapid.T) c19wire.Msg {
				return &SignatureShareMessage{
					senderID:   c19wire.GenIndex(t, "sender"),
					shareBytes: c19wire.GenPayload(t, "share"),
					sessionID:  c19wire.GenText(t, "session"),
				}
			},
			Touch: func(m c19wire.Msg) { _ = m.(*SignatureShareMessage).Type() },
		}.WithSender(func(m c19wire.Msg) uint64 { return uint64(m.(*SignatureShareMessage).SenderID()) }),
	}
}

func TestVerif_C19_BeaconEntryRoundTrip(t *testing.T) {
	c19wire.RunRoundTrip(t, "TestVerif_C19_BeaconEntryRoundTrip", c19Codecs())
}

func TestVerif_C19_BeaconEntryHostile(t *testing.T) {
	c19wire.RunHostile(t, "TestVerif_C19_BeaconEntryHostile", c19Codecs())
}

func FuzzVerif_C19_BeaconEntry(f *testing.F) { c19wire.RunFuzz(f, c19Codecs()) }
