//go:build go1.23

package entry

import (
	"bytes"
	"context"
	"encoding/hex"
	"fmt"
	"math/big"
	"sort"
	"strings"
	"sync"
	"testing"
	"time"

	bn256 "github.com/ethereum/go-ethereum/crypto/bn256/cloudflare"
	"github.com/keep-network/keep-core/internal/testutils"
	"github.com/keep-network/keep-core/internal/verifkit"
	beaconchain "github.com/keep-network/keep-core/pkg/beacon/chain"
	"github.com/keep-network/keep-core/pkg/beacon/dkg"
	"github.com/keep-network/keep-core/pkg/beacon/event"
	"github.com/keep-network/keep-core/pkg/net"
	"github.com/keep-network/keep-core/pkg/protocol/group"
	"github.com/keep-network/keep-core/pkg/subscription"
	"pgregory.net/rapid"
)

var c03eR, _ = new(big.Int).SetString("21888242871839275222246405745257275088548364400416034343698204186575808495617", 10)

func c03eScalar(t *rapid.T, label string) *big.Int {
	switch rapid.IntRange(0, 5).Draw(t, label+"Class") {
	case 0:
		return big.NewInt(int64(rapid.IntRange(1, 9).Draw(t, label+"Small")))
	case 1:
		return new(big.Int).Sub(c03eR, big.NewInt(int64(rapid.IntRange(1, 9).Draw(t, label+"NearR"))))
	default:
		b := rapid.SliceOfN(rapid.Byte(), 32, 32).Draw(t, label+"Bytes")
		v := new(big.Int).SetBytes(b)
		v.Mod(v, new(big.Int).Sub(c03eR, big.NewInt(1)))
		return v.Add(v, big.NewInt(1))
	}
}

// independent evaluation of the sharing polynomial (mod r)
func c03eEval(coeffs []*big.Int, x int) *big.Int {
	acc := new(big.Int)
	xp := big.NewInt(1)
	bx := big.NewInt(int64(x))
	for _, c := range coeffs {
		acc.Add(acc, new(big.Int).Mul(c, xp))
		acc.Mod(acc, c03eR)
		xp = new(big.Int).Mul(xp, bx)
		xp.Mod(xp, c03eR)
	}
	return acc
}

// a group as the beacon DKG leaves it: every member i holds f(i), everybody
// knows G2*f(i) of the members that were not disqualified, and G2*f(0).
type c03eGroup struct {
	coeffs    []*big.Int
	threshold int
	members   []int                           // member indices, ascending
	inMap     map[int]bool                    // members with a known public key share
	pkShares  map[group.MemberIndex]*bn256.G2 // what signers carry
	prev      *bn256.G1                       // previous entry = the message
	prevBytes []byte
}

func c03eGenGroup(t *rapid.T) *c03eGroup {
	g := &c03eGroup{inMap: map[int]bool{}, pkShares: map[group.MemberIndex]*bn256.G2{}}
	degree := rapid.IntRange(0, 4).Draw(t, "degree")
	for i := 0; i <= degree; i++ {
		g.coeffs = append(g.coeffs, c03eScalar(t, fmt.Sprintf("coeff%d", i)))
	}
	g.threshold = degree + 1
	n := g.threshold + rapid.IntRange(1, 3).Draw(t, "membersAboveThreshold")
	switch rapid.IntRange(0, 2).Draw(t, "memberIndices") {
	case 0:
		for i := 1; i <= n; i++ {
			g.members = append(g.members, i)
		}
	case 1:
		for i := 0; i < n; i++ {
			g.members = append(g.members, 255-i)
		}
	default:
		g.members = rapid.SliceOfNDistinct(rapid.IntRange(1, 255), n, n, rapid.ID[int]).Draw(t, "members")
	}
	sort.Ints(g.members)
	for _, i := range g.members {
		g.inMap[i] = true
		g.pkShares[group.MemberIndex(i)] = new(bn256.G2).ScalarBaseMult(c03eEval(g.coeffs, i))
	}
	g.prev = new(bn256.G1).ScalarBaseMult(c03eScalar(t, "previousEntry"))
	g.prevBytes = g.prev.Marshal()
	return g
}

func (g *c03eGroup) share(i int) *bn256.G1 {
	return new(bn256.G1).ScalarMult(g.prev, c03eEval(g.coeffs, i))
}

func (g *c03eGroup) signer(i int) *dkg.ThresholdSigner {
	return dkg.NewThresholdSigner(
		group.MemberIndex(i),
		new(bn256.G2).ScalarBaseMult(g.coeffs[0]),
		c03eEval(g.coeffs, i),
		g.pkShares,
		nil,
	)
}

// kinds of share messages
const (
	c03eRight = iota
	c03eOtherMember
	c03eOtherMessage
	c03eNegated
	c03eShifted
	c03eIdentity
	c03eGarbage
	c03eWrongLength
	c03eUnknownSender
	c03eKinds
)

var c03eKindNames = []string{"right", "other-members-share", "share-over-other-message", "negated", "plus-generator", "identity", "garbage-bytes", "wrong-length", "unknown-sender"}

// builds the share bytes of the given kind claimed by sender; returns the
// bytes and whether the model says it must be accepted: it decodes to exactly
// message*f(sender) and the sender's public key share is known.
func (g *c03eGroup) shareBytes(t *rapid.T, label string, sender, kind int) ([]byte, bool) {
	right := g.share(sender)
	var out []byte
	switch kind {
	case c03eRight, c03eUnknownSender:
		out = right.Marshal()
	case c03eOtherMember:
		other := rapid.SampledFrom(g.members).Draw(t, label+"OtherMember")
		out = g.share(other).Marshal()
	case c03eOtherMessage:
		k := c03eScalar(t, label+"OtherMessage")
		other := new(bn256.G1).ScalarBaseMult(k)
		out = new(bn256.G1).ScalarMult(other, c03eEval(g.coeffs, sender)).Marshal()
	case c03eNegated:
		out = new(bn256.G1).Neg(right).Marshal()
	case c03eShifted:
		out = new(bn256.G1).Add(right, new(bn256.G1).ScalarBaseMult(big.NewInt(1))).Marshal()
	case c03eIdentity:
		out = make([]byte, 64)
	case c03eGarbage:
		out = rapid.SliceOfN(rapid.Byte(), 64, 64).Draw(t, label+"Garbage")
	case c03eWrongLength:
		n := rapid.SampledFrom([]int{0, 1, 32, 63}).Draw(t, label+"Length")
		out = right.Marshal()[:n]
	}
	// the model: decodes to the right point? (longer inputs are cut by the
	// decoder, shorter ones are refused; garbage is almost never a point, and
	// if it is one it is judged by comparison like everything else)
	accept := false
	if len(out) >= 64 && g.inMap[sender] {
		p := new(bn256.G1)
		if _, err := p.Unmarshal(out); err == nil && bytes.Equal(p.Marshal(), right.Marshal()) {
			accept = true
		}
	}
	return out, accept
}

// TestVerif_C03_ShareValidation: extractAndValidateShare accepts a share iff it
// is the sender's correct share over the previous entry and the sender's
// public key share is known; the accepted shares alone complete to the group
// signature.
func TestVerif_C03_ShareValidation(t *testing.T) {
	st := verifkit.New("C03", "TestVerif_C03_ShareValidation")
	defer st.Flush()
	rapid.Check(t, func(t *rapid.T) {
		g := c03eGenGroup(t)
		// some members lost their public key share (disqualified in DKG)
		unknown := map[int]bool{}
		if rapid.Bool().Draw(t, "someUnknown") {
			i := rapid.SampledFrom(g.members).Draw(t, "unknownMember")
			unknown[i] = true
			delete(g.pkShares, group.MemberIndex(i))
			g.inMap[i] = false
		}
		sessionID := hex.EncodeToString(g.prevBytes)
		accepted := map[group.MemberIndex]*bn256.G1{}
		var descs []string
		rejected := 0
		nMsgs := rapid.IntRange(len(g.members), len(g.members)+6).Draw(t, "messages")
		for m := 0; m < nMsgs; m++ {
			label := fmt.Sprintf("m%d", m)
			sender := g.members[m%len(g.members)]
			if m >= len(g.members) {
				sender = rapid.SampledFrom(g.members).Draw(t, label+"Sender")
			}
			kind := c03eRight
			if rapid.IntRange(0, 2).Draw(t, label+"Bad") != 0 {
				kind = rapid.IntRange(1, c03eKinds-2).Draw(t, label+"Kind")
			}
			if unknown[sender] {
				kind = c03eUnknownSender
			} else if rapid.IntRange(0, 9).Draw(t, label+"Stranger") == 0 {
				// an index outside the group
				for cand := 1; cand <= 255; cand++ {
					if _, ok := g.pkShares[group.MemberIndex(cand)]; !ok && !unknown[cand] {
						sender, kind = cand, c03eUnknownSender
						break
					}
				}
			}
			raw, want := g.shareBytes(t, label, sender, kind)
			msg := NewSignatureShareMessage(group.MemberIndex(sender), raw, sessionID)
			// through the wire like every real message
			wire, err := msg.Marshal()
			if err != nil {
				t.Fatalf("Marshal: %v", err)
			}
			recv := &SignatureShareMessage{}
			if err := recv.Unmarshal(wire); err != nil {
				t.Fatalf("Unmarshal of a marshalled share message failed: %v", err)
			}
			share, err := extractAndValidateShare(recv, g.pkShares, g.prev)
			if (err == nil) != want {
				t.Fatalf("extractAndValidateShare(sender %d, %s): err=%v, expected accept=%v; members=%v coeffs=%d", sender, c03eKindNames[kind], err, want, g.members, len(g.coeffs))
			}
			if err == nil {
				if share == nil || !bytes.Equal(share.Marshal(), g.share(sender).Marshal()) {
					t.Fatalf("accepted share of member %d is not the member's share", sender)
				}
				accepted[group.MemberIndex(sender)] = share
			} else {
				rejected++
				if share != nil {
					t.Fatalf("rejected share returned together with the error")
				}
			}
			descs = append(descs, fmt.Sprintf("%d:%s", sender, c03eKindNames[kind]))
			st.Label("kind:" + c03eKindNames[kind])
		}
		// completion from the accepted shares only
		completed := "too-few"
		if len(accepted) >= g.threshold {
			self := int(0)
			for id := range accepted {
				if int(id) > self {
					self = int(id)
				}
			}
			sig, err := completeSignature(&testutils.MockLogger{}, g.signer(self), accepted, g.threshold)
			if err != nil {
				t.Fatalf("completeSignature failed with %d accepted shares, threshold %d: %v", len(accepted), g.threshold, err)
			}
			want := new(bn256.G1).ScalarMult(g.prev, g.coeffs[0])
			if !bytes.Equal(sig.Marshal(), want.Marshal()) {
				t.Fatalf("signature completed from accepted shares %v is not previousEntry*f(0)", c03eKeys(accepted))
			}
			completed = "completed"
		}
		st.Case(rejected > 0, fmt.Sprintf("members=%v th=%d msgs=%v -> accepted %v %s", g.members, g.threshold, descs, c03eKeys(accepted), completed),
			"completion:"+completed, fmt.Sprintf("unknown-member:%v", len(unknown) > 0))
	})
}

func c03eKeys(m map[group.MemberIndex]*bn256.G1) []int {
	var k []int
	for id := range m {
		k = append(k, int(id))
	}
	sort.Ints(k)
	return k
}

// ---- fakes for the end-to-end run of SignAndSubmit ---------------------------

type c03eChain struct {
	beaconchain.Interface // every method the run is not expected to call panics
	cfg                   *beaconchain.Config
	mu                    sync.Mutex
	handlers              map[int]func(*event.RelayEntrySubmitted)
	nextID                int
	submitted             [][]byte
	counter               *verifkit.FakeBlockCounter
}

func (c *c03eChain) GetConfig() *beaconchain.Config { return c.cfg }

func (c *c03eChain) OnRelayEntrySubmitted(h func(*event.RelayEntrySubmitted)) subscription.EventSubscription {
	c.mu.Lock()
	defer c.mu.Unlock()
	id := c.nextID
	c.nextID++
	c.handlers[id] = h
	return subscription.NewEventSubscription(func() {
		c.mu.Lock()
		defer c.mu.Unlock()
		delete(c.handlers, id)
	})
}

func (c *c03eChain) SubmitRelayEntry(entry []byte) error {
	c.mu.Lock()
	c.submitted = append(c.submitted, append([]byte{}, entry...))
	hs := make([]func(*event.RelayEntrySubmitted), 0, len(c.handlers))
	for _, h := range c.handlers {
		hs = append(hs, h)
	}
	c.mu.Unlock()
	ev := &event.RelayEntrySubmitted{BlockNumber: c.counter.Height()}
	for _, h := range hs {
		go h(ev)
	}
	return nil
}

func (c *c03eChain) IsEntryInProgress() (bool, error) { return true, nil }

// c03eCounter adapts the kit's fake block counter to the emission semantics of
// the production counters: a waiter channel receives its height once and is
// never closed (a closed channel would be permanently ready in the submitter's
// select loop).
type c03eCounter struct{ *verifkit.FakeBlockCounter }

func (c c03eCounter) BlockHeightWaiter(h uint64) (<-chan uint64, error) {
	in, err := c.FakeBlockCounter.BlockHeightWaiter(h)
	if err != nil {
		return nil, err
	}
	out := make(chan uint64, 1)
	go func() {
		if v, ok := <-in; ok {
			out <- v
		}
	}()
	return out, nil
}

func (c c03eCounter) WaitForBlockHeight(h uint64) error {
	w, _ := c.BlockHeightWaiter(h)
	<-w
	return nil
}

type c03eID string

func (i c03eID) String() string { return string(i) }

type c03eNetMsg struct {
	payload interface{}
	seq     uint64
}

func (m *c03eNetMsg) TransportSenderID() net.TransportIdentifier { return c03eID("peer") }
func (m *c03eNetMsg) SenderPublicKey() []byte                    { return []byte{4} }
func (m *c03eNetMsg) Payload() interface{}                       { return m.payload }
func (m *c03eNetMsg) Type() string                               { return "relay/signature/share" }
func (m *c03eNetMsg) Seqno() uint64                              { return m.seq }

type c03eChannel struct {
	mu       sync.Mutex
	handlers []func(net.Message)
	sent     []*SignatureShareMessage
	seq      uint64
}

func (c *c03eChannel) Name() string { return "c03" }
func (c *c03eChannel) Send(ctx context.Context, m net.TaggedMarshaler, _ ...net.RetransmissionStrategy) error {
	raw, err := m.Marshal()
	if err != nil {
		return err
	}
	got := &SignatureShareMessage{}
	if err := got.Unmarshal(raw); err != nil {
		return err
	}
	c.mu.Lock()
	c.sent = append(c.sent, got)
	c.mu.Unlock()
	return nil
}
func (c *c03eChannel) Recv(ctx context.Context, h func(net.Message)) {
	c.mu.Lock()
	c.handlers = append(c.handlers, h)
	c.mu.Unlock()
}
func (c *c03eChannel) SetUnmarshaler(func() net.TaggedUnmarshaler) {}
func (c *c03eChannel) SetFilter(net.BroadcastChannelFilter) error  { return nil }
func (c *c03eChannel) handler() func(net.Message) {
	c.mu.Lock()
	defer c.mu.Unlock()
	if len(c.handlers) == 0 {
		return nil
	}
	return c.handlers[0]
}
func (c *c03eChannel) sentCount() int {
	c.mu.Lock()
	defer c.mu.Unlock()
	return len(c.sent)
}

// TestVerif_C03_RelayEntry runs the real SignAndSubmit of one member against a
// scripted channel: invalid shares (of every kind) arrive before and between
// the valid ones. Whatever arrives, the entry the member submits is the group
// signature over the previous entry - an unverified share is never used.
func TestVerif_C03_RelayEntry(t *testing.T) {
	st := verifkit.New("C03", "TestVerif_C03_RelayEntry")
	defer st.Flush()
	rapid.Check(t, func(t *rapid.T) {
		g := c03eGenGroup(t)
		self := rapid.SampledFrom(g.members).Draw(t, "self")
		var others []int
		for _, i := range g.members {
			if i != self {
				others = append(others, i)
			}
		}
		others = rapid.Permutation(others).Draw(t, "arrivalOrder")
		// the members whose valid share arrives (threshold-1 others are needed;
		// sometimes more are sent), the rest only ever send bad shares
		nValid := g.threshold - 1
		if nValid < len(others) && rapid.Bool().Draw(t, "moreValidThanNeeded") {
			nValid++
		}
		validSenders := others[:nValid]
		badOnly := others[nValid:]

		sessionID := hex.EncodeToString(g.prevBytes)
		type scripted struct {
			sender, kind int
			raw          []byte
			session      string
		}
		var script []scripted
		addBad := func(label string, sender int) {
			kind := rapid.IntRange(1, c03eKinds-2).Draw(t, label+"Kind")
			raw, accept := g.shareBytes(t, label, sender, kind)
			if accept {
				// e.g. "share of another member" that drew the sender itself
				kind = c03eRight
			}
			script = append(script, scripted{sender, kind, raw, sessionID})
		}
		// bad shares of members that never send a good one come first
		for k, s := range badOnly {
			for r := rapid.IntRange(1, 2).Draw(t, fmt.Sprintf("bad%dRepeat", k)); r > 0; r-- {
				addBad(fmt.Sprintf("bad%d_%d", k, r), s)
			}
		}
		// strangers and the member's own id
		if rapid.Bool().Draw(t, "stranger") {
			for cand := 1; cand <= 255; cand++ {
				if !g.inMap[cand] {
					raw, _ := g.shareBytes(t, "stranger", cand, c03eUnknownSender)
					script = append(script, scripted{cand, c03eUnknownSender, raw, sessionID})
					break
				}
			}
		}
		if rapid.Bool().Draw(t, "echoOfSelf") {
			raw, _ := g.shareBytes(t, "selfEcho", self, c03eGarbage)
			script = append(script, scripted{self, c03eGarbage, raw, sessionID})
		}
		// valid senders: optionally a bad share first, then the right one; a
		// right share under another session id is ignored
		for k, s := range validSenders {
			if rapid.IntRange(0, 2).Draw(t, fmt.Sprintf("valid%dBadFirst", k)) == 0 {
				addBad(fmt.Sprintf("valid%dBad", k), s)
			}
			raw, _ := g.shareBytes(t, "right", s, c03eRight)
			if rapid.IntRange(0, 4).Draw(t, fmt.Sprintf("valid%dOtherSessionFirst", k)) == 0 {
				script = append(script, scripted{s, c03eRight, raw, sessionID + "00"})
			}
			script = append(script, scripted{s, c03eRight, raw, sessionID})
		}

		start := uint64(100)
		counter := verifkit.NewFakeBlockCounter(start)
		groupSize := len(g.members)
		chain := &c03eChain{
			cfg: &beaconchain.Config{
				GroupSize: groupSize, HonestThreshold: g.threshold, ResultPublicationBlockStep: 3,
				// far behind every submission slot (member indices go up to 255)
				RelayEntryTimeout: 3*300 + 1000,
			},
			handlers: map[int]func(*event.RelayEntrySubmitted){},
			counter:  counter,
		}
		timeoutHeight := start + chain.cfg.RelayEntryTimeout
		channel := &c03eChannel{}
		done := make(chan error, 1)
		go func() {
			done <- SignAndSubmit(&testutils.MockLogger{}, c03eCounter{counter}, channel, chain, g.prevBytes, g.threshold, g.signer(self), start)
		}()
		// whatever happens, release every forwarding goroutine of the adapter
		defer counter.AdvanceTo(timeoutHeight)
		inconclusive := func(why string) {
			// release the goroutine: the timeout block ends the run
			counter.AdvanceTo(timeoutHeight)
			select {
			case <-done:
			case <-time.After(20 * time.Second):
			}
			fmt.Printf("VERIF-INCONCLUSIVE: %s\n", why)
			t.Fatalf("VERIF-INCONCLUSIVE: %s", why)
		}
		if !verifkit.Eventually(60*time.Second, func() bool { return channel.handler() != nil }) {
			inconclusive("SignAndSubmit did not start receiving within 60 s")
		}
		deliver := channel.handler()
		var descs []string
		for n, sc := range script {
			msg := NewSignatureShareMessage(group.MemberIndex(sc.sender), sc.raw, sc.session)
			wire, err := msg.Marshal()
			if err != nil {
				t.Fatalf("Marshal: %v", err)
			}
			recv := &SignatureShareMessage{}
			if err := recv.Unmarshal(wire); err != nil {
				t.Fatalf("Unmarshal: %v", err)
			}
			deliver(&c03eNetMsg{payload: recv, seq: uint64(n + 1)})
			d := fmt.Sprintf("%d:%s", sc.sender, c03eKindNames[sc.kind])
			if sc.session != sessionID {
				d += "(other-session)"
			}
			descs = append(descs, d)
			st.Label("kind:" + c03eKindNames[sc.kind])
		}
		// mine up to the member's submission slot (never to the timeout block)
		var runErr error
		finished := false
		ok := verifkit.Eventually(90*time.Second, func() bool {
			select {
			case runErr = <-done:
				finished = true
				return true
			default:
			}
			if h := counter.MinPendingHeight(); h != 0 && h < timeoutHeight {
				counter.AdvanceTo(h)
			}
			return false
		})
		if !ok || !finished {
			inconclusive("SignAndSubmit did not finish within 90 s")
		}
		if runErr != nil {
			t.Fatalf("SignAndSubmit failed although %d valid shares (threshold %d) were delivered: %v; script=%v", nValid+1, g.threshold, runErr, descs)
		}
		// the member's own broadcast share is its correct share
		if !verifkit.Eventually(30*time.Second, func() bool { return channel.sentCount() > 0 }) {
			inconclusive("own share was not broadcast")
		}
		channel.mu.Lock()
		own := channel.sent[0]
		channel.mu.Unlock()
		if int(own.senderID) != self || own.sessionID != sessionID || !bytes.Equal(own.shareBytes, g.share(self).Marshal()) {
			t.Fatalf("member %d broadcast {sender %d, session %.16s.., share %x}, its share over the previous entry is %x", self, own.senderID, own.sessionID, own.shareBytes, g.share(self).Marshal())
		}
		chain.mu.Lock()
		submitted := chain.submitted
		chain.mu.Unlock()
		if len(submitted) != 1 {
			t.Fatalf("%d relay entries submitted, expected 1", len(submitted))
		}
		want := new(bn256.G1).ScalarMult(g.prev, g.coeffs[0]).Marshal()
		if !bytes.Equal(submitted[0], want) {
			t.Fatalf("submitted relay entry is not the group signature over the previous entry; members=%v self=%d th=%d script=%v", g.members, self, g.threshold, descs)
		}
		bad := 0
		for _, sc := range script {
			if sc.kind != c03eRight || sc.session != sessionID {
				bad++
			}
		}
		st.Case(bad > 0, fmt.Sprintf("members=%v self=%d th=%d script=[%s]", g.members, self, g.threshold, strings.Join(descs, " ")),
			fmt.Sprintf("bad-messages:%d", c03eCap(bad, 6)), fmt.Sprintf("threshold:%d", g.threshold))
	})
}

func c03eCap(v, max int) int {
	if v > max {
		return max
	}
	return v
}
