//go:build go1.23

package tbtcpg

import (
	"encoding/hex"
	"fmt"
	"sort"
	"strings"
	"sync"
	"testing"
	"time"

	golog "github.com/ipfs/go-log/v2"
	"github.com/keep-network/keep-core/internal/testutils"
	"github.com/keep-network/keep-core/internal/verifkit"
	"github.com/keep-network/keep-core/pkg/bitcoin"
	"github.com/keep-network/keep-core/pkg/tbtc"
	"pgregory.net/rapid"
)

// ages are kept at least this far from every boundary the code compares with
// time.Now() (minimum age, delay, timeout)
const c33Margin = 10 * time.Minute

var c33ErrInjected = fmt.Errorf("c33: injected chain failure")

// ---------------------------------------------------------------------------
// chain double: LocalChain of the package plus real event filtering, the two
// size limits LocalChain does not support, and accepting proposal validators.

type c33Chain struct {
	*LocalChain

	depositEvents    []*tbtc.DepositRevealedEvent
	redemptionEvents []*tbtc.RedemptionRequestedEvent
	sweepMaxSize     uint16
	redemptionMax    uint16
	failSweepMax     bool
	failRedemptionMx bool

	validatedSweeps      []*tbtc.DepositSweepProposal
	validatedRedemptions []*tbtc.RedemptionProposal
}

func c33HasWallet(list [][20]byte, w [20]byte) bool {
	if len(list) == 0 {
		return true
	}
	for _, e := range list {
		if e == w {
			return true
		}
	}
	return false
}

// events of the whole bridge, filtered like the host chain does; returned in
// the stored (generated, unsorted) order, as a fresh slice
func (c *c33Chain) PastDepositRevealedEvents(filter *tbtc.DepositRevealedEventFilter) ([]*tbtc.DepositRevealedEvent, error) {
	var out []*tbtc.DepositRevealedEvent
	for _, e := range c.depositEvents {
		if filter != nil {
			if e.BlockNumber < filter.StartBlock || (filter.EndBlock != nil && e.BlockNumber > *filter.EndBlock) {
				continue
			}
			if !c33HasWallet(filter.WalletPublicKeyHash, e.WalletPublicKeyHash) {
				continue
			}
		}
		out = append(out, e)
	}
	return out, nil
}

func (c *c33Chain) PastRedemptionRequestedEvents(filter *tbtc.RedemptionRequestedEventFilter) ([]*tbtc.RedemptionRequestedEvent, error) {
	var out []*tbtc.RedemptionRequestedEvent
	for _, e := range c.redemptionEvents {
		if filter != nil {
			if e.BlockNumber < filter.StartBlock || (filter.EndBlock != nil && e.BlockNumber > *filter.EndBlock) {
				continue
			}
			if !c33HasWallet(filter.WalletPublicKeyHash, e.WalletPublicKeyHash) {
				continue
			}
		}
		out = append(out, e)
	}
	return out, nil
}

func (c *c33Chain) GetDepositSweepMaxSize() (uint16, error) {
	if c.failSweepMax {
		return 0, c33ErrInjected
	}
	return c.sweepMaxSize, nil
}

func (c *c33Chain) GetRedemptionMaxSize() (uint16, error) {
	if c.failRedemptionMx {
		return 0, c33ErrInjected
	}
	return c.redemptionMax, nil
}

func (c *c33Chain) ValidateDepositSweepProposal(
	walletPublicKeyHash [20]byte,
	proposal *tbtc.DepositSweepProposal,
	depositsExtraInfo []struct {
		*tbtc.Deposit
		FundingTx *bitcoin.Transaction
	},
) error {
	c.validatedSweeps = append(c.validatedSweeps, proposal)
	return nil
}

func (c *c33Chain) ValidateRedemptionProposal(walletPublicKeyHash [20]byte, proposal *tbtc.RedemptionProposal) error {
	c.validatedRedemptions = append(c.validatedRedemptions, proposal)
	return nil
}

// ---------------------------------------------------------------------------
// generic validity predicate (several right answers exist on ties)

type c33Item struct {
	key      string
	order    int64 // reveal block / request time
	eligible bool
	why      string // why not eligible
	render   string
}

// c33CheckSelection: returned = keys in the returned order.
func c33CheckSelection(t *rapid.T, what string, items map[string]*c33Item, returned []string, limit int) {
	seen := map[string]bool{}
	nEligible := 0
	for _, it := range items {
		if it.eligible {
			nEligible++
		}
	}
	var prev *c33Item
	for i, k := range returned {
		it, ok := items[k]
		if !ok {
			t.Fatalf("%s: returned item #%d (%s) is not among the wallet's requests at all", what, i, k)
		}
		if !it.eligible {
			t.Fatalf("%s: returned item #%d is not eligible (%s): %s", what, i, it.why, it.render)
		}
		if seen[k] {
			t.Fatalf("%s: item returned twice: %s", what, it.render)
		}
		seen[k] = true
		if prev != nil && it.order < prev.order {
			t.Fatalf("%s: not oldest first: #%d %s comes after %s", what, i, it.render, prev.render)
		}
		prev = it
	}
	want := nEligible
	if limit > 0 && limit < want {
		want = limit
	}
	if len(returned) != want {
		t.Fatalf("%s: %d items returned, %d are eligible and the limit is %d (0 = none): expected %d; returned %v",
			what, len(returned), nEligible, limit, want, returned)
	}
	for _, o := range items {
		if !o.eligible || seen[o.key] {
			continue
		}
		for _, k := range returned {
			if o.order < items[k].order {
				t.Fatalf("%s: eligible %s was left out although it is older than the returned %s", what, o.render, items[k].render)
			}
		}
	}
}

// non-trivial rule of the design: the limit cuts the eligible set and at least
// one ineligible item precedes an eligible one
func c33NonTrivial(items map[string]*c33Item, limit int) (bool, int, int) {
	nEligible, nIneligible := 0, 0
	minIneligible, maxEligible := int64(1<<62), int64(-1<<62)
	for _, it := range items {
		if it.eligible {
			nEligible++
			if it.order > maxEligible {
				maxEligible = it.order
			}
		} else {
			nIneligible++
			if it.order < minIneligible {
				minIneligible = it.order
			}
		}
	}
	cut := limit > 0 && limit < nEligible
	return cut && nIneligible > 0 && nEligible > 0 && minIneligible < maxEligible, nEligible, nIneligible
}

// ---------------------------------------------------------------------------
// world

var (
	c33Wallet = [20]byte{0xc3, 0x03, 1, 2, 3, 4, 5, 6, 7, 8, 9, 10, 11, 12, 13, 14, 15, 16, 17, 18}
	c33Other1 = [20]byte{0x01, 0xee}
	c33Other2 = [20]byte{0x02, 0xee}
)

type c33World struct {
	now      time.Time
	chain    *c33Chain
	btc      *LocalBitcoinChain
	deposits map[string]*c33Item
	redempts map[string]*c33Item
	depDesc  []string
	redDesc  []string
	labels   map[string]bool
}

var c33QuietOnce sync.Once

func c33NewWorld() *c33World {
	// the tasks log every skipped deposit through the package logger
	c33QuietOnce.Do(func() { _ = golog.SetLogLevel("keep-tbtcpg", "fatal") })
	w := &c33World{
		now:      time.Now().Truncate(time.Second),
		chain:    &c33Chain{LocalChain: NewLocalChain()},
		btc:      NewLocalBitcoinChain(),
		deposits: map[string]*c33Item{},
		redempts: map[string]*c33Item{},
		labels:   map[string]bool{},
	}
	w.btc.SetEstimateSatPerVByteFee(1, 11)
	w.chain.SetDepositParameters(0, 0, 1_000_000, 0)
	return w
}

func c33DepositKey(h bitcoin.Hash, idx uint32) string {
	return fmt.Sprintf("%s:%d", hex.EncodeToString(h[:]), idx)
}

// an age of the given class relative to [lo, hi]: "young" < lo, "ok" within,
// "late" > hi (hi < 0 = no upper bound); at least c33Margin away from both
func c33GenAge(t *rapid.T, class string, lo, hi time.Duration) (time.Duration, string) {
	mins := func(d time.Duration) int { return int(d / time.Minute) }
	m := mins(c33Margin)
	switch class {
	case "young":
		if mins(lo) < m {
			class = "ok"
		} else {
			return time.Duration(rapid.IntRange(0, mins(lo)-m).Draw(t, "ageYoung")) * time.Minute, "young"
		}
	case "late":
		if hi < 0 {
			class = "ok"
		} else {
			return time.Duration(rapid.IntRange(mins(hi)+m, mins(hi)+m+7*24*60).Draw(t, "ageLate")) * time.Minute, "late"
		}
	}
	if class == "ok" {
		top := mins(lo) + m + 30*24*60
		if hi >= 0 {
			top = mins(hi) - m
		}
		if mins(lo)+m > top {
			// the window is empty (minimum age/delay beyond the timeout)
			if hi >= 0 {
				return time.Duration(rapid.IntRange(mins(hi)+m, mins(hi)+m+24*60).Draw(t, "ageLate2")) * time.Minute, "late"
			}
		}
		// biased to the edges of the window
		switch rapid.IntRange(0, 3).Draw(t, "ageEdge") {
		case 0:
			return time.Duration(mins(lo)+m) * time.Minute, "ok"
		case 1:
			return time.Duration(top) * time.Minute, "ok"
		}
		return time.Duration(rapid.IntRange(mins(lo)+m, top).Draw(t, "ageOk")) * time.Minute, "ok"
	}
	panic("unreachable")
}

func (w *c33World) genDeposits(t *rapid.T) {
	minAge := time.Duration(rapid.SampledFrom([]int{0, 0, 5, 60, 120, 600, 24 * 60, 48 * 60}).Draw(t, "depositMinAgeMinutes")) * time.Minute
	w.chain.SetDepositMinAge(uint32(minAge / time.Second))
	n := max(rapid.IntRange(0, 14).Draw(t, "deposits"), rapid.IntRange(0, 10).Draw(t, "depositsAtLeast"))
	baseBlock := uint64(rapid.IntRange(1, 20_000_000).Draw(t, "baseBlock"))
	spread := rapid.SampledFrom([]int{0, 2, 5, 40, 5000}).Draw(t, "blockSpread")
	var events []*tbtc.DepositRevealedEvent
	for i := 0; i < n; i++ {
		wallet := c33Wallet
		switch rapid.IntRange(0, 11).Draw(t, "depositWallet") {
		case 0:
			wallet = c33Other1
		case 1:
			wallet = c33Other2
		}
		var h bitcoin.Hash
		copy(h[:], rapid.SliceOfN(rapid.Byte(), 30, 30).Draw(t, "fundingTx"))
		h[30], h[31] = byte(i), 0xd0 // distinct
		outIdx := uint32(rapid.IntRange(0, 3).Draw(t, "outputIndex"))
		block := baseBlock + uint64(rapid.IntRange(0, spread).Draw(t, "revealBlockOffset"))
		class := rapid.SampledFrom([]string{"ok", "ok", "ok", "ok", "ok", "young"}).Draw(t, "depositAgeClass")
		age, class := c33GenAge(t, class, minAge, -1)
		swept := rapid.IntRange(0, 6).Draw(t, "swept") == 0
		conf := rapid.SampledFrom([]int{-1, 0, 1, 5, 5, 6, 6, 6, 6, 7, 7, 7, 8, 20, 144, 144, 1000}).Draw(t, "confirmations")
		revealedAt := w.now.Add(-age)
		sweptAt := time.Unix(0, 0)
		if swept {
			sweptAt = revealedAt.Add(time.Duration(rapid.IntRange(1, 600).Draw(t, "sweptAfterMinutes")) * time.Minute)
		}
		ev := &tbtc.DepositRevealedEvent{FundingTxHash: h, FundingOutputIndex: outIdx, WalletPublicKeyHash: wallet, BlockNumber: block, Amount: 100000}
		events = append(events, ev)
		w.chain.SetDepositRequest(h, outIdx, &tbtc.DepositChainRequest{Amount: 100000, RevealedAt: revealedAt, SweptAt: sweptAt})
		w.btc.SetTransaction(h, &bitcoin.Transaction{})
		if conf >= 0 {
			w.btc.SetTransactionConfirmations(h, uint(conf))
		}
		var why []string
		if class == "young" {
			why = append(why, "not old enough")
			w.labels["deposit:young"] = true
		}
		if swept {
			why = append(why, "already swept")
			w.labels["deposit:swept"] = true
		}
		if conf < 0 {
			why = append(why, "confirmations unknown")
			w.labels["deposit:conf-unknown"] = true
		} else if conf < 6 {
			why = append(why, fmt.Sprintf("%d confirmations", conf))
			w.labels["deposit:unconfirmed"] = true
		}
		render := fmt.Sprintf("dep%d{blk+%d age=%v swept=%v conf=%d}", i, block-baseBlock, age, swept, conf)
		if wallet != c33Wallet {
			w.labels["deposit:other-wallet"] = true
			w.depDesc = append(w.depDesc, render+"@other")
			// deposits of other wallets are not items of this wallet at all;
			// remember them to name them if they are returned
			w.deposits["other/"+c33DepositKey(h, outIdx)] = &c33Item{key: "other/" + c33DepositKey(h, outIdx), order: int64(block), why: "revealed for another wallet", render: render}
			continue
		}
		w.depDesc = append(w.depDesc, render)
		key := c33DepositKey(h, outIdx)
		w.deposits[key] = &c33Item{key: key, order: int64(block), eligible: len(why) == 0, why: strings.Join(why, ", "), render: render}
	}
	// out-of-order event list
	if len(events) > 1 {
		events = rapid.Permutation(events).Draw(t, "depositEventOrder")
	}
	w.chain.depositEvents = events
}

func (w *c33World) depositKeyOf(h bitcoin.Hash, idx uint32) string {
	k := c33DepositKey(h, idx)
	if _, ok := w.deposits[k]; ok {
		return k
	}
	return "other/" + k
}

func c33GenScript(t *rapid.T, i int) bitcoin.Script {
	body := rapid.SliceOfN(rapid.Byte(), 32, 32).Draw(t, "scriptHash")
	body[0] = byte(i) // distinct
	switch rapid.IntRange(0, 3).Draw(t, "scriptType") {
	case 0: // P2PKH
		return append(append([]byte{0x76, 0xa9, 0x14}, body[:20]...), 0x88, 0xac)
	case 1: // P2WPKH
		return append([]byte{0x00, 0x14}, body[:20]...)
	case 2: // P2SH
		return append(append([]byte{0xa9, 0x14}, body[:20]...), 0x87)
	default: // P2WSH
		return append([]byte{0x00, 0x20}, body...)
	}
}

func (w *c33World) genRedemptions(t *rapid.T) {
	minAge := time.Duration(rapid.SampledFrom([]int{0, 0, 30, 120, 600, 24 * 60, 48 * 60}).Draw(t, "requestMinAgeMinutes")) * time.Minute
	timeout := time.Duration(rapid.SampledFrom([]int{1, 2, 5, 5, 10}).Draw(t, "timeoutDays")) * 24 * time.Hour
	avgBlockTime := time.Duration(rapid.SampledFrom([]int{10, 12, 12, 15}).Draw(t, "avgBlockTime")) * time.Second
	currentBlock := uint64(rapid.IntRange(500, 30_000_000).Draw(t, "currentBlock"))
	w.chain.SetRedemptionRequestMinAge(uint32(minAge / time.Second))
	w.chain.SetRedemptionParameters(0, 0, 0, 0, uint32(timeout/time.Second), nil, 0)
	w.chain.SetAverageBlockTime(avgBlockTime)
	bc := NewMockBlockCounter()
	bc.SetCurrentBlock(currentBlock)
	w.chain.SetBlockCounter(bc)

	blockOf := func(age time.Duration, jitter int) uint64 {
		b := int64(currentBlock) - int64(age/avgBlockTime) + int64(jitter)
		if b < 0 {
			b = 0
		}
		if b > int64(currentBlock) {
			b = int64(currentBlock)
		}
		return uint64(b)
	}

	n := max(rapid.IntRange(0, 12).Draw(t, "redemptions"), rapid.IntRange(0, 9).Draw(t, "redemptionsAtLeast"))
	var events []*tbtc.RedemptionRequestedEvent
	var prevAges []time.Duration
	var sharedScript bitcoin.Script
	for i := 0; i < n; i++ {
		wallet := c33Wallet
		switch rapid.IntRange(0, 11).Draw(t, "redemptionWallet") {
		case 0:
			wallet = c33Other1
		case 1:
			wallet = c33Other2
		}
		script := c33GenScript(t, i)
		if wallet != c33Wallet && sharedScript != nil && rapid.Bool().Draw(t, "sameScriptOtherWallet") {
			script = sharedScript // same redeemer script requested from another wallet
		}
		if wallet == c33Wallet {
			sharedScript = script
		}
		delay := time.Duration(0)
		if rapid.IntRange(0, 2).Draw(t, "hasDelay") == 0 {
			delay = time.Duration(rapid.SampledFrom([]int{1, 30, 120, 24 * 60, 72 * 60}).Draw(t, "delayMinutes")) * time.Minute
		}
		lo := minAge
		if delay > lo {
			lo = delay
		}
		class := rapid.SampledFrom([]string{"ok", "ok", "ok", "ok", "ok", "ok", "young", "late"}).Draw(t, "requestAgeClass")
		age, class := c33GenAge(t, class, lo, timeout)
		// ties: reuse the age of an earlier request when it falls into the same class
		if len(prevAges) > 0 && rapid.IntRange(0, 3).Draw(t, "tie") == 0 {
			cand := prevAges[rapid.IntRange(0, len(prevAges)-1).Draw(t, "tieWith")]
			inClass := (class == "young" && cand <= lo-c33Margin) || (class == "ok" && cand >= lo+c33Margin && cand <= timeout-c33Margin) || (class == "late" && cand >= timeout+c33Margin)
			if inClass {
				age = cand
				w.labels["redemption:tie"] = true
			}
		}
		prevAges = append(prevAges, age)
		pending := rapid.IntRange(0, 6).Draw(t, "pending") != 0
		requestedAt := w.now.Add(-age)
		ev := &tbtc.RedemptionRequestedEvent{WalletPublicKeyHash: wallet, RedeemerOutputScript: script, RequestedAmount: 50000,
			BlockNumber: blockOf(age, rapid.IntRange(-20, 20).Draw(t, "blockJitter"))}
		events = append(events, ev)
		// earlier requests with the same key (handled or timed out long ago)
		dups := rapid.SampledFrom([]int{0, 0, 0, 1, 2}).Draw(t, "olderEventsSameKey")
		for d := 0; d < dups; d++ {
			older := age + time.Duration(rapid.IntRange(1, 20*24*60).Draw(t, "olderByMinutes"))*time.Minute
			events = append(events, &tbtc.RedemptionRequestedEvent{WalletPublicKeyHash: wallet, RedeemerOutputScript: script, RequestedAmount: 40000, BlockNumber: blockOf(older, 0)})
			w.labels["redemption:duplicate-key-events"] = true
		}
		if pending {
			w.chain.SetPendingRedemptionRequest(wallet, &tbtc.RedemptionRequest{RedeemerOutputScript: script, RequestedAmount: 50000, RequestedAt: requestedAt})
		}
		w.chain.SetRedemptionDelay(wallet, script, delay)
		var why []string
		if !pending {
			why = append(why, "no longer pending")
			w.labels["redemption:gone"] = true
		}
		switch class {
		case "young":
			why = append(why, fmt.Sprintf("younger than max(min age %v, delay %v)", minAge, delay))
			w.labels["redemption:young"] = true
			if delay > minAge {
				w.labels["redemption:young-by-delay"] = true
			}
		case "late":
			why = append(why, "timed out")
			w.labels["redemption:timed-out"] = true
		}
		render := fmt.Sprintf("red%d{age=%v delay=%v pending=%v dups=%d}", i, age, delay, pending, dups)
		key := hex.EncodeToString(script)
		if wallet != c33Wallet {
			w.labels["redemption:other-wallet"] = true
			w.redDesc = append(w.redDesc, render+"@other")
			if _, mine := w.redempts[key]; !mine {
				w.redempts["other/"+key] = &c33Item{key: "other/" + key, order: requestedAt.UnixNano(), why: "requested from another wallet", render: render}
			}
			continue
		}
		w.redDesc = append(w.redDesc, render)
		delete(w.redempts, "other/"+key)
		w.redempts[key] = &c33Item{key: key, order: requestedAt.UnixNano(), eligible: len(why) == 0, why: strings.Join(why, ", "), render: render}
	}
	if len(events) > 1 {
		events = rapid.Permutation(events).Draw(t, "redemptionEventOrder")
	}
	w.chain.redemptionEvents = events
	w.redDesc = append([]string{fmt.Sprintf("minAge=%v timeout=%v", minAge, timeout)}, w.redDesc...)
}

func (w *c33World) redemptionKeyOf(script bitcoin.Script) string {
	k := hex.EncodeToString(script)
	if _, ok := w.redempts[k]; ok {
		return k
	}
	return "other/" + k
}

// limit: 0 (= no limit), at least the eligible count, or cutting it
func c33GenLimit(t *rapid.T, label string, items map[string]*c33Item) int {
	_, nEligible, _ := c33NonTrivial(items, 0)
	class := rapid.IntRange(0, 9).Draw(t, label+"Class")
	switch {
	case class == 0:
		return 0
	case class <= 2 || nEligible < 2:
		return rapid.IntRange(max(nEligible, 1), nEligible+3).Draw(t, label+"Large")
	default:
		return rapid.IntRange(1, nEligible-1).Draw(t, label)
	}
}

func (w *c33World) sortedLabels(extra ...string) []string {
	var out []string
	for l := range w.labels {
		out = append(out, l)
	}
	out = append(out, extra...)
	sort.Strings(out)
	return out
}

// ---------------------------------------------------------------------------

func (w *c33World) checkSweepProposal(t *rapid.T, what string, p *tbtc.DepositSweepProposal, limit int) {
	if len(p.DepositsKeys) != len(p.DepositsRevealBlocks) {
		t.Fatalf("%s: proposal has %d keys and %d reveal blocks", what, len(p.DepositsKeys), len(p.DepositsRevealBlocks))
	}
	var keys []string
	for i, k := range p.DepositsKeys {
		key := w.depositKeyOf(k.FundingTxHash, k.FundingOutputIndex)
		keys = append(keys, key)
		if it, ok := w.deposits[key]; ok && p.DepositsRevealBlocks[i].Int64() != it.order {
			t.Fatalf("%s: proposal gives reveal block %v for %s", what, p.DepositsRevealBlocks[i], it.render)
		}
	}
	c33CheckSelection(t, what, w.deposits, keys, limit)
}

// TestVerif_C33_Deposits: FindDepositsToSweep and DepositSweepTask.Run on a
// generated bridge history.
func TestVerif_C33_Deposits(t *testing.T) {
	st := verifkit.New("C33", "TestVerif_C33_Deposits")
	defer st.Flush()
	rapid.Check(t, func(t *rapid.T) {
		w := c33NewWorld()
		w.genDeposits(t)
		limit := c33GenLimit(t, "depositLimit", w.deposits)
		task := NewDepositSweepTask(w.chain, w.btc)

		refs, err := task.FindDepositsToSweep(&testutils.MockLogger{}, c33Wallet, uint16(limit))
		if err != nil {
			t.Fatalf("FindDepositsToSweep failed: %v\n%v", err, w.depDesc)
		}
		var keys []string
		for _, r := range refs {
			key := w.depositKeyOf(r.FundingTxHash, r.FundingOutputIndex)
			keys = append(keys, key)
			if it, ok := w.deposits[key]; ok && int64(r.RevealBlock) != it.order {
				t.Fatalf("reference of %s carries reveal block %d", it.render, r.RevealBlock)
			}
		}
		what := fmt.Sprintf("FindDepositsToSweep(limit %d) over %v", limit, w.depDesc)
		c33CheckSelection(t, what, w.deposits, keys, limit)

		// the task proposes exactly such a list, bounded by the chain's limit
		w.chain.sweepMaxSize = uint16(limit)
		proposal, ok, err := task.Run(&tbtc.CoordinationProposalRequest{WalletPublicKeyHash: c33Wallet, ActionsChecklist: []tbtc.WalletActionType{tbtc.ActionDepositSweep}})
		if err != nil {
			t.Fatalf("DepositSweepTask.Run failed: %v\n%v", err, w.depDesc)
		}
		nt, nEligible, nIneligible := c33NonTrivial(w.deposits, limit)
		if ok != (nEligible > 0) {
			t.Fatalf("DepositSweepTask.Run: proposal generated = %v with %d eligible deposits; %v", ok, nEligible, w.depDesc)
		}
		if ok {
			sp, isSweep := proposal.(*tbtc.DepositSweepProposal)
			if !isSweep {
				t.Fatalf("DepositSweepTask.Run returned a %T", proposal)
			}
			w.checkSweepProposal(t, fmt.Sprintf("DepositSweepTask.Run(max size %d) over %v", limit, w.depDesc), sp, limit)
			if len(w.chain.validatedSweeps) != 1 || w.chain.validatedSweeps[0] != sp {
				t.Fatalf("the returned proposal is not the one validated against the chain")
			}
		}
		labels := w.sortedLabels(fmt.Sprintf("eligible:%d", min(nEligible, 5)), fmt.Sprintf("limit-cuts:%v", limit > 0 && limit < nEligible), fmt.Sprintf("limit-zero:%v", limit == 0))
		_ = nIneligible
		short := make([]string, len(keys))
		for i, k := range keys {
			short[i] = w.deposits[k].render[:strings.Index(w.deposits[k].render, "{")]
		}
		st.Case(nt, fmt.Sprintf("limit=%d %s -> %v", limit, strings.Join(w.depDesc, " "), short), labels...)
	})
}

func (w *c33World) checkRedemptionScripts(t *rapid.T, what string, scripts []bitcoin.Script, limit int) []string {
	var keys []string
	for _, s := range scripts {
		keys = append(keys, w.redemptionKeyOf(s))
	}
	c33CheckSelection(t, what, w.redempts, keys, limit)
	return keys
}

// TestVerif_C33_Redemptions: FindPendingRedemptions and RedemptionTask.Run.
func TestVerif_C33_Redemptions(t *testing.T) {
	st := verifkit.New("C33", "TestVerif_C33_Redemptions")
	defer st.Flush()
	rapid.Check(t, func(t *rapid.T) {
		w := c33NewWorld()
		w.genRedemptions(t)
		limit := c33GenLimit(t, "redemptionLimit", w.redempts)
		task := NewRedemptionTask(w.chain, w.btc)

		scripts, err := task.FindPendingRedemptions(&testutils.MockLogger{}, c33Wallet, uint16(limit))
		if err != nil {
			t.Fatalf("FindPendingRedemptions failed: %v\n%v", err, w.redDesc)
		}
		what := fmt.Sprintf("FindPendingRedemptions(limit %d) over %v", limit, w.redDesc)
		keys := w.checkRedemptionScripts(t, what, scripts, limit)

		w.chain.redemptionMax = uint16(limit)
		proposal, ok, err := task.Run(&tbtc.CoordinationProposalRequest{WalletPublicKeyHash: c33Wallet, ActionsChecklist: []tbtc.WalletActionType{tbtc.ActionRedemption}})
		if err != nil {
			t.Fatalf("RedemptionTask.Run failed: %v\n%v", err, w.redDesc)
		}
		nt, nEligible, _ := c33NonTrivial(w.redempts, limit)
		if ok != (nEligible > 0) {
			t.Fatalf("RedemptionTask.Run: proposal generated = %v with %d eligible requests; %v", ok, nEligible, w.redDesc)
		}
		if ok {
			rp, isRed := proposal.(*tbtc.RedemptionProposal)
			if !isRed {
				t.Fatalf("RedemptionTask.Run returned a %T", proposal)
			}
			w.checkRedemptionScripts(t, fmt.Sprintf("RedemptionTask.Run(max size %d) over %v", limit, w.redDesc), rp.RedeemersOutputScripts, limit)
			if len(w.chain.validatedRedemptions) != 1 || w.chain.validatedRedemptions[0] != rp {
				t.Fatalf("the returned proposal is not the one validated against the chain")
			}
		}
		labels := w.sortedLabels(fmt.Sprintf("eligible:%d", min(nEligible, 5)), fmt.Sprintf("limit-cuts:%v", limit > 0 && limit < nEligible), fmt.Sprintf("limit-zero:%v", limit == 0))
		short := make([]string, len(keys))
		for i, k := range keys {
			short[i] = w.redempts[k].render[:strings.Index(w.redempts[k].render, "{")]
		}
		st.Case(nt, fmt.Sprintf("limit=%d %s -> %v", limit, strings.Join(w.redDesc, " "), short), labels...)
	})
}

// ---------------------------------------------------------------------------
// Generate: checklist dispatch

type c33Proposal struct {
	action tbtc.WalletActionType
	serial int
}

func (p *c33Proposal) ActionType() tbtc.WalletActionType { return p.action }
func (p *c33Proposal) ValidityBlocks() uint64            { return 1 }
func (p *c33Proposal) Marshal() ([]byte, error)          { return nil, nil }
func (p *c33Proposal) Unmarshal([]byte) error            { return nil }

type c33Task struct {
	action  tbtc.WalletActionType
	outcome int // 0 no proposal, 1 proposal, 2 error
	runs    int
	made    []*c33Proposal
	wallets [][20]byte
}

func (k *c33Task) ActionType() tbtc.WalletActionType { return k.action }

func (k *c33Task) Run(request *tbtc.CoordinationProposalRequest) (tbtc.CoordinationProposal, bool, error) {
	k.runs++
	k.wallets = append(k.wallets, request.WalletPublicKeyHash)
	switch k.outcome {
	case 1:
		p := &c33Proposal{action: k.action, serial: k.runs}
		k.made = append(k.made, p)
		return p, true, nil
	case 2:
		// an error result also carries a proposal that must not be used
		return &c33Proposal{action: k.action, serial: -1}, true, c33ErrInjected
	}
	return nil, false, nil
}

// TestVerif_C33_GenerateChecklist: ProposalGenerator.Generate over generated
// task sets and checklists (with unsupported and repeated actions).
func TestVerif_C33_GenerateChecklist(t *testing.T) {
	st := verifkit.New("C33", "TestVerif_C33_GenerateChecklist")
	defer st.Flush()
	rapid.Check(t, func(t *rapid.T) {
		allActions := []tbtc.WalletActionType{tbtc.ActionNoop, tbtc.ActionHeartbeat, tbtc.ActionDepositSweep, tbtc.ActionRedemption, tbtc.ActionMovingFunds, tbtc.ActionMovedFundsSweep}
		// tasks: a subset of the actions in a drawn order, one task per action
		taskActions := rapid.Permutation(allActions[1:6]).Draw(t, "taskOrder")
		taskActions = taskActions[:rapid.IntRange(0, len(taskActions)).Draw(t, "taskCount")]
		var tasks []ProposalTask
		byAction := map[tbtc.WalletActionType]*c33Task{}
		var desc []string
		for _, a := range taskActions {
			// mostly "no proposal" so that the walk reaches later entries
			k := &c33Task{action: a, outcome: rapid.SampledFrom([]int{0, 0, 0, 1, 1, 2}).Draw(t, "taskOutcome")}
			tasks = append(tasks, k)
			byAction[a] = k
			desc = append(desc, fmt.Sprintf("%v:%s", a, []string{"none", "proposal", "error"}[k.outcome]))
		}
		checklist := rapid.SliceOfN(rapid.SampledFrom(allActions), 0, 7).Draw(t, "checklist")
		wallet := c33Wallet
		wallet[19] = rapid.Byte().Draw(t, "walletByte")

		pg := &ProposalGenerator{tasks: tasks}
		got, err := pg.Generate(&tbtc.CoordinationProposalRequest{WalletPublicKeyHash: wallet, ActionsChecklist: checklist})

		// model: walk the checklist
		decidedAt, decision := -1, "noop"
		var decider *c33Task
		for i, a := range checklist {
			k := byAction[a]
			if k == nil {
				continue
			}
			if k.outcome == 2 {
				decidedAt, decision, decider = i, "error", k
				break
			}
			if k.outcome == 1 {
				decidedAt, decision, decider = i, "proposal", k
				break
			}
		}
		ctx := fmt.Sprintf("tasks [%s], checklist %v", strings.Join(desc, " "), checklist)
		switch decision {
		case "error":
			if err == nil {
				t.Fatalf("%s: task %v (checklist position %d) failed but Generate returned %v without error", ctx, decider.action, decidedAt, got)
			}
			if got != nil {
				t.Fatalf("%s: Generate returned a proposal together with an error", ctx)
			}
		case "proposal":
			if err != nil {
				t.Fatalf("%s: unexpected error %v; task %v at position %d yields a proposal", ctx, err, decider.action, decidedAt)
			}
			if len(decider.made) == 0 || got != tbtc.CoordinationProposal(decider.made[0]) {
				t.Fatalf("%s: returned %#v, want the proposal of the first yielding checklist action %v (position %d)", ctx, got, decider.action, decidedAt)
			}
		default:
			if err != nil {
				t.Fatalf("%s: unexpected error %v; no task yields anything", ctx, err)
			}
			if _, isNoop := got.(*tbtc.NoopProposal); !isNoop {
				t.Fatalf("%s: returned %#v, want the no-op proposal", ctx, got)
			}
		}
		for _, k := range byAction {
			for _, wl := range k.wallets {
				if wl != wallet {
					t.Fatalf("%s: task %v ran for wallet %x, request was for %x", ctx, k.action, wl, wallet)
				}
			}
		}
		skippedBefore := 0
		for i, a := range checklist {
			if decidedAt >= 0 && i >= decidedAt {
				break
			}
			if byAction[a] == nil {
				skippedBefore++
			}
		}
		// non-trivial: the decision is taken after at least one entry that did
		// not decide (no proposal or unsupported)
		nt := decidedAt > 0 || (decision == "noop" && len(checklist) > 0)
		st.Case(nt, ctx+" -> "+decision, "decision:"+decision, fmt.Sprintf("unsupported-before:%v", skippedBefore > 0), fmt.Sprintf("decided-at:%d", min(max(decidedAt, -1), 4)))
	})
}

// TestVerif_C33_GenerateRealTasks: the real generator (real deposit sweep and
// redemption tasks) over a generated bridge history and checklist.
func TestVerif_C33_GenerateRealTasks(t *testing.T) {
	st := verifkit.New("C33", "TestVerif_C33_GenerateRealTasks")
	defer st.Flush()
	rapid.Check(t, func(t *rapid.T) {
		w := c33NewWorld()
		w.genDeposits(t)
		w.genRedemptions(t)
		depLimit := rapid.IntRange(1, 4).Draw(t, "sweepMaxSize")
		redLimit := rapid.IntRange(1, 4).Draw(t, "redemptionMaxSize")
		w.chain.sweepMaxSize, w.chain.redemptionMax = uint16(depLimit), uint16(redLimit)
		w.chain.failSweepMax = rapid.IntRange(0, 7).Draw(t, "failSweep") == 0
		w.chain.failRedemptionMx = rapid.IntRange(0, 7).Draw(t, "failRedemption") == 0
		checklist := rapid.SliceOfN(rapid.SampledFrom([]tbtc.WalletActionType{tbtc.ActionDepositSweep, tbtc.ActionRedemption, tbtc.ActionDepositSweep, tbtc.ActionRedemption, tbtc.ActionNoop}), rapid.SampledFrom([]int{0, 1, 2, 2, 2}).Draw(t, "checklistMin"), 4).Draw(t, "checklist")

		_, depEligible, _ := c33NonTrivial(w.deposits, depLimit)
		_, redEligible, _ := c33NonTrivial(w.redempts, redLimit)
		decision := "noop"
		for _, a := range checklist {
			if a == tbtc.ActionDepositSweep {
				if w.chain.failSweepMax {
					decision = "error"
					break
				}
				if depEligible > 0 {
					decision = "sweep"
					break
				}
			}
			if a == tbtc.ActionRedemption {
				if w.chain.failRedemptionMx {
					decision = "error"
					break
				}
				if redEligible > 0 {
					decision = "redemption"
					break
				}
			}
		}
		pg := NewProposalGenerator(w.chain, w.btc)
		got, err := pg.Generate(&tbtc.CoordinationProposalRequest{WalletPublicKeyHash: c33Wallet, ActionsChecklist: checklist})
		ctx := fmt.Sprintf("checklist %v, %d eligible deposits (max %d, limit query fails %v), %d eligible redemptions (max %d, fails %v)",
			checklist, depEligible, depLimit, w.chain.failSweepMax, redEligible, redLimit, w.chain.failRedemptionMx)
		switch decision {
		case "error":
			if err == nil || got != nil {
				t.Fatalf("%s: expected the task error, got proposal %#v err %v", ctx, got, err)
			}
		case "sweep":
			sp, ok := got.(*tbtc.DepositSweepProposal)
			if err != nil || !ok {
				t.Fatalf("%s: expected a deposit sweep proposal, got %#v err %v\n%v", ctx, got, err, w.depDesc)
			}
			w.checkSweepProposal(t, ctx+" over "+fmt.Sprint(w.depDesc), sp, depLimit)
		case "redemption":
			rp, ok := got.(*tbtc.RedemptionProposal)
			if err != nil || !ok {
				t.Fatalf("%s: expected a redemption proposal, got %#v err %v\n%v", ctx, got, err, w.redDesc)
			}
			w.checkRedemptionScripts(t, ctx+" over "+fmt.Sprint(w.redDesc), rp.RedeemersOutputScripts, redLimit)
		default:
			if _, isNoop := got.(*tbtc.NoopProposal); err != nil || !isNoop {
				t.Fatalf("%s: expected the no-op proposal, got %#v err %v", ctx, got, err)
			}
		}
		// non-trivial: an earlier checklist action had nothing to propose
		nt := len(checklist) >= 2 && decision != "noop" && ((decision == "sweep" && checklist[0] != tbtc.ActionDepositSweep) || (decision == "redemption" && checklist[0] != tbtc.ActionRedemption) || (decision == "error" && len(checklist) > 1 && !((checklist[0] == tbtc.ActionDepositSweep && w.chain.failSweepMax) || (checklist[0] == tbtc.ActionRedemption && w.chain.failRedemptionMx))))
		st.Case(nt, fmt.Sprintf("%s deps=%v reds=%v -> %s", ctx, w.depDesc, w.redDesc, decision), "decision:"+decision, fmt.Sprintf("checklist-len:%d", len(checklist)))
	})
}
