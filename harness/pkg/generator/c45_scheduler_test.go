//go:build go1.23

package generator

import (
	"context"
	"fmt"
	"os"
	"regexp"
	"runtime"
	"strings"
	"sync"
	"sync/atomic"
	"testing"
	"time"

	"github.com/keep-network/keep-core/internal/verifkit"
	"pgregory.net/rapid"
)

// C45 - background generation pauses while a protocol runs.
//
// The harness owns the scheduler tick: it calls checkProtocols() itself, so the
// happens-before order "check returned -> observation" is forced. Workers are
// harness functions that report every iteration (the context they were given
// and whether it was live on entry) and then block until the harness releases
// them or their context is cancelled.

const (
	c45PhaseTransition int32 = iota // a check (or a concurrent burst) is in flight: nothing is asserted
	c45PhaseWorking                 // last completed check saw no registered protocol executing
	c45PhaseStopped                 // last completed check saw >= 1 registered protocol executing
)

const c45WaitTimeout = 30 * time.Second
const c45HintWait = 2 * time.Second

type c45Inv struct {
	worker  int
	ctx     context.Context
	release chan struct{}
	done    bool
}

type c45World struct {
	phase atomic.Int32

	mu        sync.Mutex
	invs      []*c45Inv
	entries   []int // per worker: iterations started so far
	violation string
}

func (w *c45World) worker(k int) func(context.Context) {
	return func(ctx context.Context) {
		// order matters: phase first, then liveness (see notes/C45.md)
		ph := w.phase.Load()
		live := ctx.Err() == nil
		inv := &c45Inv{worker: k, ctx: ctx, release: make(chan struct{})}
		w.mu.Lock()
		w.invs = append(w.invs, inv)
		w.entries[k]++
		if ph == c45PhaseStopped && live && w.violation == "" {
			w.violation = fmt.Sprintf("worker %d started an iteration with a live context although the last scheduler check saw a protocol executing", k)
		}
		w.mu.Unlock()
		select {
		case <-inv.release:
		case <-ctx.Done():
		}
		w.mu.Lock()
		inv.done = true
		w.mu.Unlock()
	}
}

// liveActive returns per worker the number of iterations currently running
// with a live context, and the number of iterations still running at all.
func (w *c45World) liveActive(n int) (live []int, running int) {
	live = make([]int, n)
	w.mu.Lock()
	defer w.mu.Unlock()
	for _, inv := range w.invs {
		if inv.done {
			continue
		}
		running++
		if inv.ctx.Err() == nil {
			live[inv.worker]++
		}
	}
	return
}

func (w *c45World) getViolation() string {
	w.mu.Lock()
	defer w.mu.Unlock()
	return w.violation
}

func c45Settle() {
	for i := 0; i < 20; i++ {
		runtime.Gosched()
	}
	time.Sleep(100 * time.Microsecond)
	for i := 0; i < 20; i++ {
		runtime.Gosched()
	}
}

type c45Machine struct {
	t  *rapid.T
	s  *Scheduler
	w  *c45World
	tr []string // rendered history

	latches    []*ProtocolLatch
	cnt        []int
	registered []bool
	nWorkers   int
	working    bool // model: scheduler state after the last check

	// statistics
	heldSinceStop     bool
	unlockSinceStop   bool
	nestedCheck       bool
	twoLatchCheck     bool
	partialUnlockStop bool
	resumed           bool
	stoppedOnce       bool
	bursts            int
	iterations        int
	computeStopped    bool
}

func (m *c45Machine) logf(format string, a ...any) { m.tr = append(m.tr, fmt.Sprintf(format, a...)) }

func (m *c45Machine) executing() (sum int, latchesHeld int, holds int) {
	for i := range m.latches {
		if m.registered[i] && m.cnt[i] > 0 {
			sum += m.cnt[i]
			latchesHeld++
		}
		holds += m.cnt[i]
	}
	return
}

func (m *c45Machine) anyRegistered() bool {
	for _, r := range m.registered {
		if r {
			return true
		}
	}
	return false
}

func (m *c45Machine) inconclusive(why string) {
	m.t.Fatalf("VERIF-INCONCLUSIVE: %s", why)
}

func (m *c45Machine) fail(format string, a ...any) {
	m.t.Fatalf("%s\nhistory: %s", fmt.Sprintf(format, a...), strings.Join(m.tr, " "))
}

// invariants that hold between any two harness steps.
func (m *c45Machine) invariants() {
	if v := m.w.getViolation(); v != "" {
		m.fail("%s", v)
	}
	for i, l := range m.latches {
		if got, want := l.IsExecuting(), m.cnt[i] > 0; got != want {
			m.fail("latch %d: IsExecuting()=%v after %d more Lock than Unlock calls", i, got, m.cnt[i])
		}
	}
	live, _ := m.w.liveActive(m.nWorkers)
	for k, n := range live {
		if n > 1 {
			m.fail("worker %d has %d loops running with a live context at the same time", k, n)
		}
		if !m.working && n > 0 {
			m.fail("worker %d runs with a live context although the last scheduler check saw a protocol executing", k)
		}
	}
}

// issuedContexts is a white-box hint (never a verdict): the number of cancel
// functions the scheduler currently keeps.
func (m *c45Machine) issuedContexts() int {
	m.s.workMutex.Lock()
	defer m.s.workMutex.Unlock()
	return len(m.s.stops)
}

// waitWorking waits until every registered worker runs exactly one iteration
// with a live context (the scheduler resumed / keeps working).
func (m *c45Machine) waitWorking(what string, issuedBefore, expectedGrowth int) {
	ok := verifkit.Eventually(c45WaitTimeout, func() bool {
		live, _ := m.w.liveActive(m.nWorkers)
		for _, n := range live {
			if n < 1 {
				return false
			}
		}
		return true
	})
	if !ok {
		// decide without the clock: did the scheduler issue the contexts at all?
		m.s.workMutex.Lock()
		st, issued := m.s.state, len(m.s.stops)
		m.s.workMutex.Unlock()
		if st != working || issued < m.nWorkers {
			m.fail("%s: no protocol is executing but generation did not resume (scheduler state=%d, %d live contexts for %d workers)", what, st, issued, m.nWorkers)
		}
		m.inconclusive(what + ": resumed workers did not get scheduled in time")
	}
	if issuedBefore >= 0 && m.issuedContexts()-issuedBefore > expectedGrowth {
		// hint only: more contexts were issued than this step should have
		// started loops; wait a moment for a second loop of some worker to
		// show up (if there is one)
		verifkit.Eventually(c45HintWait, func() bool {
			live, _ := m.w.liveActive(m.nWorkers)
			for _, n := range live {
				if n > 1 {
					return true
				}
			}
			return false
		})
	}
	c45Settle()
	m.invariants()
}

// verifyCheck is called right after a checkProtocols() call made by the
// harness goroutine returned, with no other scheduler call in flight.
func (m *c45Machine) verifyCheck(what string, issuedBefore int) {
	sum, held, holds := m.executing()
	if !m.anyRegistered() {
		// nothing can stop the scheduler: it keeps working
		sum = 0
	}
	if sum > 0 {
		// every context ever handed to a worker is cancelled now - cancel is
		// synchronous, so this is checked without waiting
		m.w.mu.Lock()
		for _, inv := range m.w.invs {
			if inv.ctx.Err() == nil {
				m.w.mu.Unlock()
				m.fail("%s: %d registered protocol execution(s) in progress but the context of worker %d is still live after the check", what, sum, inv.worker)
			}
		}
		m.w.mu.Unlock()
		m.working = false
		m.w.phase.Store(c45PhaseStopped)
		ok := verifkit.Eventually(c45WaitTimeout, func() bool {
			_, running := m.w.liveActive(m.nWorkers)
			return running == 0
		})
		if !ok {
			m.inconclusive(what + ": cancelled workers did not return in time")
		}
		m.stoppedOnce = true
		if holds >= 2 {
			m.nestedCheck = true
		}
		if held >= 2 {
			m.twoLatchCheck = true
		}
		if m.unlockSinceStop {
			m.partialUnlockStop = true
		}
		m.heldSinceStop = true
		c45Settle()
		m.invariants()
		return
	}
	if !m.working && m.stoppedOnce {
		m.resumed = true
	}
	growth := 0
	if !m.working {
		growth = m.nWorkers
	}
	m.working = true
	m.heldSinceStop = false
	m.unlockSinceStop = false
	m.w.phase.Store(c45PhaseWorking)
	m.waitWorking(what, issuedBefore, growth)
}

func (m *c45Machine) check() {
	m.w.phase.Store(c45PhaseTransition)
	before := m.issuedContexts()
	m.s.checkProtocols()
	sum, _, _ := m.executing()
	m.logf("check(%d)", sum)
	m.verifyCheck("check", before)
}

func (m *c45Machine) addWorker() {
	k := m.nWorkers
	m.nWorkers++
	m.w.mu.Lock()
	m.w.entries = append(m.w.entries, 0)
	m.w.mu.Unlock()
	before := m.issuedContexts()
	m.s.compute(m.w.worker(k))
	m.logf("compute(w%d)", k)
	if m.working {
		m.waitWorking("compute", before, 1)
	} else {
		m.computeStopped = true
		if m.issuedContexts() > before {
			// hint only: a context was issued while stopped, so give the new
			// loop the time to show up; the verdict is the worker's own report
			verifkit.Eventually(c45HintWait, func() bool {
				live, _ := m.w.liveActive(m.nWorkers)
				return live[k] > 0 || m.w.getViolation() != ""
			})
		}
		c45Settle()
		m.invariants()
	}
}

// iterate lets the running iteration of one worker return and waits for the
// loop to call the worker again with the same live context.
func (m *c45Machine) iterate(k int) {
	m.w.mu.Lock()
	var cur *c45Inv
	for _, inv := range m.w.invs {
		if inv.worker == k && !inv.done && inv.ctx.Err() == nil {
			cur = inv
		}
	}
	before := m.w.entries[k]
	m.w.mu.Unlock()
	if cur == nil {
		m.fail("iterate: worker %d has no running iteration while the scheduler is working", k)
	}
	close(cur.release)
	ok := verifkit.Eventually(c45WaitTimeout, func() bool {
		m.w.mu.Lock()
		defer m.w.mu.Unlock()
		return m.w.entries[k] > before
	})
	if !ok {
		m.inconclusive("iterate: worker loop did not call the worker again in time")
	}
	m.w.mu.Lock()
	last := m.w.invs[len(m.w.invs)-1]
	for i := len(m.w.invs) - 1; i >= 0; i-- {
		if m.w.invs[i].worker == k {
			last = m.w.invs[i]
			break
		}
	}
	m.w.mu.Unlock()
	if last.ctx != cur.ctx {
		m.fail("iterate: worker %d was called again with a different context although the scheduler was not stopped in between", k)
	}
	m.iterations++
	m.logf("iter(w%d)", k)
	c45Settle()
	m.invariants()
}

// burst runs generated lock/unlock/check/compute programs on several
// goroutines at once. Nothing about stop/resume is asserted while they overlap
// (racy by nature); the race detector watches, and the deterministic check
// that follows must bring the scheduler to the state the model predicts.
func (m *c45Machine) burst(t *rapid.T) {
	n := rapid.IntRange(2, 4).Draw(t, "burstGoroutines")
	type op struct {
		kind  byte // l u c w
		latch int
		fn    func(context.Context)
	}
	progs := make([][]op, n)
	var render []string
	for g := 0; g < n; g++ {
		held := make([]int, len(m.latches))
		ln := rapid.IntRange(1, 6).Draw(t, "burstLen")
		var sb strings.Builder
		for i := 0; i < ln; i++ {
			switch c := rapid.SampledFrom([]byte{'l', 'l', 'u', 'u', 'c', 'c', 'w'}).Draw(t, "burstOp"); c {
			case 'l':
				li := rapid.IntRange(0, len(m.latches)-1).Draw(t, "latch")
				held[li]++
				progs[g] = append(progs[g], op{kind: 'l', latch: li})
				fmt.Fprintf(&sb, "l%d", li)
			case 'u':
				// a goroutine only releases what it locked itself, so the
				// counter never goes below zero in any interleaving
				var cands []int
				for li, h := range held {
					if h > 0 {
						cands = append(cands, li)
					}
				}
				if len(cands) == 0 {
					continue
				}
				li := rapid.SampledFrom(cands).Draw(t, "latch")
				held[li]--
				progs[g] = append(progs[g], op{kind: 'u', latch: li})
				fmt.Fprintf(&sb, "u%d", li)
			case 'c':
				progs[g] = append(progs[g], op{kind: 'c'})
				sb.WriteString("c")
			case 'w':
				if m.nWorkers >= 4 {
					continue
				}
				k := m.nWorkers
				m.nWorkers++
				m.w.mu.Lock()
				m.w.entries = append(m.w.entries, 0)
				m.w.mu.Unlock()
				progs[g] = append(progs[g], op{kind: 'w', fn: m.w.worker(k)})
				fmt.Fprintf(&sb, "w%d", k)
			}
		}
		for li, h := range held {
			m.cnt[li] += h
		}
		render = append(render, sb.String())
	}
	m.w.phase.Store(c45PhaseTransition)
	start := make(chan struct{})
	var wg sync.WaitGroup
	for g := 0; g < n; g++ {
		wg.Add(1)
		go func(p []op) {
			defer wg.Done()
			<-start
			for _, o := range p {
				switch o.kind {
				case 'l':
					m.latches[o.latch].Lock()
				case 'u':
					m.latches[o.latch].Unlock()
				case 'c':
					m.s.checkProtocols()
				case 'w':
					m.s.compute(o.fn)
				}
			}
		}(progs[g])
	}
	close(start)
	wg.Wait()
	m.bursts++
	m.logf("burst{%s}", strings.Join(render, "|"))
	// the tick after the overlap decides
	m.s.checkProtocols()
	sum, _, _ := m.executing()
	m.logf("check(%d)", sum)
	m.verifyCheck("check after concurrent burst", -1)
}

func TestVerif_C45_PauseResume(t *testing.T) {
	st := verifkit.New("C45", "TestVerif_C45_PauseResume")
	defer st.Flush()
	rapid.Check(t, func(t *rapid.T) {
		m := &c45Machine{t: t, s: &Scheduler{}, w: &c45World{}, working: true}
		m.w.phase.Store(c45PhaseWorking)
		defer func() {
			// join everything the case started
			// (iterations whose context a broken scheduler never cancels stay
			// parked on that context; they are not waited for)
			m.w.phase.Store(c45PhaseTransition)
			m.s.stop()
			verifkit.Eventually(5*time.Second, func() bool {
				live, running := m.w.liveActive(m.nWorkers)
				for _, n := range live {
					running -= n
				}
				return running == 0
			})
		}()
		nLatches := rapid.IntRange(1, 3).Draw(t, "latches")
		regMode := rapid.SampledFrom([]string{"all", "all", "all", "some", "none"}).Draw(t, "registeredAtStart")
		for i := 0; i < nLatches; i++ {
			m.latches = append(m.latches, NewProtocolLatch())
			m.cnt = append(m.cnt, 0)
			reg := regMode == "all" || (regMode == "some" && rapid.Bool().Draw(t, "registered"))
			m.registered = append(m.registered, reg)
			if reg {
				m.s.RegisterProtocol(m.latches[i])
			}
		}
		m.logf("latches=%d reg=%v", nLatches, m.registered)
		for i, n := 0, rapid.IntRange(0, 2).Draw(t, "initialWorkers"); i < n; i++ {
			m.addWorker()
		}
		ops := []string{"lock", "lock", "lock", "unlock", "unlock", "unlock", "check", "check", "check", "check",
			"compute", "iterate", "iterate", "register", "burst"}
		steps := rapid.IntRange(4, 36).Draw(t, "steps")
		for i := 0; i < steps; i++ {
			switch rapid.SampledFrom(ops).Draw(t, "op") {
			case "lock":
				li := rapid.IntRange(0, nLatches-1).Draw(t, "latch")
				m.latches[li].Lock()
				m.cnt[li]++
				m.logf("lock(%d)", li)
			case "unlock":
				var cands []int
				for li, c := range m.cnt {
					if c > 0 {
						cands = append(cands, li)
					}
				}
				if len(cands) == 0 {
					continue
				}
				li := rapid.SampledFrom(cands).Draw(t, "latch")
				m.latches[li].Unlock()
				m.cnt[li]--
				if m.heldSinceStop {
					m.unlockSinceStop = true
				}
				m.logf("unlock(%d)", li)
			case "check":
				m.check()
			case "compute":
				if m.nWorkers >= 4 {
					continue
				}
				m.addWorker()
			case "iterate":
				if !m.working || m.nWorkers == 0 {
					continue
				}
				m.iterate(rapid.IntRange(0, m.nWorkers-1).Draw(t, "worker"))
			case "register":
				var cands []int
				for li, r := range m.registered {
					if !r {
						cands = append(cands, li)
					}
				}
				if len(cands) == 0 {
					continue
				}
				li := rapid.SampledFrom(cands).Draw(t, "latch")
				m.s.RegisterProtocol(m.latches[li])
				m.registered[li] = true
				m.logf("register(%d)", li)
			case "burst":
				m.burst(t)
			}
			m.invariants()
		}
		// a final tick, then release everything and tick again: generation
		// must be running at the end of every history
		m.check()
		for li := range m.cnt {
			for m.cnt[li] > 0 {
				m.latches[li].Unlock()
				m.cnt[li]--
				m.logf("unlock(%d)", li)
			}
		}
		m.check()
		if !m.working {
			m.fail("model error: scheduler expected to work at the end")
		}

		nt := m.nestedCheck && m.resumed && m.nWorkers > 0
		st.Case(nt, strings.Join(m.tr, " "),
			fmt.Sprintf("nested-holds-at-check:%v", m.nestedCheck),
			fmt.Sprintf("two-latches-at-check:%v", m.twoLatchCheck),
			fmt.Sprintf("check-after-partial-unlock-still-stopped:%v", m.partialUnlockStop),
			fmt.Sprintf("resumed-after-stop:%v", m.resumed),
			fmt.Sprintf("compute-while-stopped:%v", m.computeStopped),
			fmt.Sprintf("bursts:%d", min(m.bursts, 3)),
			fmt.Sprintf("workers:%d", m.nWorkers),
			fmt.Sprintf("iterations:%v", m.iterations > 0),
			"registered-at-start:"+regMode)
	})
}

// The latch counts executions: it reports "executing" exactly while more Lock
// than Unlock calls were made, and Unlock without a matching Lock panics (as
// documented) without corrupting the counter.
func TestVerif_C45_LatchCounts(t *testing.T) {
	st := verifkit.New("C45", "TestVerif_C45_LatchCounts")
	defer st.Flush()
	rapid.Check(t, func(t *rapid.T) {
		l := NewProtocolLatch()
		cnt, maxCnt, panics := 0, 0, 0
		var sb strings.Builder
		n := rapid.IntRange(1, 40).Draw(t, "ops")
		for i := 0; i < n; i++ {
			if rapid.IntRange(0, 99).Draw(t, "lockPct") < 45 {
				l.Lock()
				cnt++
				sb.WriteByte('L')
			} else {
				panicked := func() (p bool) {
					defer func() {
						if r := recover(); r != nil {
							p = true
						}
					}()
					l.Unlock()
					return false
				}()
				sb.WriteByte('U')
				if cnt == 0 {
					if !panicked {
						t.Fatalf("Unlock without Lock did not panic; ops=%s", sb.String())
					}
					panics++
					sb.WriteByte('!')
				} else {
					if panicked {
						t.Fatalf("Unlock after %d outstanding Lock calls panicked; ops=%s", cnt, sb.String())
					}
					cnt--
				}
			}
			if cnt > maxCnt {
				maxCnt = cnt
			}
			if got := l.IsExecuting(); got != (cnt > 0) {
				t.Fatalf("IsExecuting()=%v with %d executions outstanding; ops=%s", got, cnt, sb.String())
			}
		}
		st.Case(maxCnt >= 2, sb.String(), fmt.Sprintf("max-nesting:%d", min(maxCnt, 4)), fmt.Sprintf("unlock-panics:%v", panics > 0))
	})
}

// compute() racing with the scheduler check that stops the scheduler: 2..32
// compute calls and one checkProtocols() are released together (spin barrier)
// while a registered latch is held. Whatever the interleaving, once all calls
// returned the check has seen the protocol executing, so every context handed
// to a worker must be cancelled and no worker may run with a live context -
// also not one whose compute() overlapped the check - until the latch is
// released and a later check resumes generation.
func TestVerif_C45_ComputeRacesCheck(t *testing.T) {
	st := verifkit.New("C45", "TestVerif_C45_ComputeRacesCheck")
	defer st.Flush()
	if c45MeasureHits {
		// measurement mode (manual runs against a seeded tree): count the rounds
		// in which a violation is seen instead of stopping at the first one
		defer func() { fmt.Printf("C45-HITRATE rounds=%d hits=%d\n", c45Rounds.Load(), c45Hits.Load()) }()
	}
	rapid.Check(t, func(t *rapid.T) {
		rounds := rapid.IntRange(4, 12).Draw(t, "rounds")
		var render []string
		split, allBefore, allAfter := 0, 0, 0
		for r := 0; r < rounds; r++ {
			n := rapid.IntRange(2, 32).Draw(t, "computes")
			pre := rapid.IntRange(0, 2).Draw(t, "workersBefore")
			nested := rapid.IntRange(1, 2).Draw(t, "holds")
			delay := rapid.IntRange(0, 300).Draw(t, "checkDelaySpins")
			render = append(render, fmt.Sprintf("%d+%dx%d/%d", pre, n, nested, delay))
			total := pre + n

			s := &Scheduler{}
			latch := NewProtocolLatch()
			s.RegisterProtocol(latch)
			w := &c45World{entries: make([]int, total)}
			w.phase.Store(c45PhaseWorking)
			fail := func(format string, a ...any) {
				if c45MeasureHits {
					panic(c45Hit{})
				}
				t.Logf("round %d: "+format, append([]any{r}, a...)...)
				t.Fatalf("round of %s: %s", render[len(render)-1], c45Verb.ReplaceAllString(format, "_"))
			}
			cleanup := func() {
				w.phase.Store(c45PhaseTransition)
				s.stop()
				verifkit.Eventually(5*time.Second, func() bool {
					live, running := w.liveActive(total)
					for _, l := range live {
						running -= l
					}
					return running == 0
				})
			}
			liveNow := func() int {
				live, _ := w.liveActive(total)
				sum := 0
				for _, l := range live {
					sum += l
				}
				return sum
			}
			issued := func() int {
				s.workMutex.Lock()
				defer s.workMutex.Unlock()
				return len(s.stops)
			}
			c45Rounds.Add(1)
			func() {
				defer cleanup()
				defer func() {
					if x := recover(); x != nil {
						if _, ok := x.(c45Hit); !ok {
							panic(x)
						}
						c45Hits.Add(1)
					}
				}()
				for k := 0; k < pre; k++ {
					s.compute(w.worker(k))
				}
				if !verifkit.Eventually(c45WaitTimeout, func() bool { return liveNow() == pre }) {
					t.Fatalf("VERIF-INCONCLUSIVE: workers did not get scheduled in time")
				}
				for i := 0; i < nested; i++ {
					latch.Lock()
				}
				// the overlap
				w.phase.Store(c45PhaseTransition)
				var ready atomic.Int32
				var gate atomic.Bool
				var wg sync.WaitGroup
				for k := pre; k < total; k++ {
					wg.Add(1)
					go func(fn func(context.Context)) {
						defer wg.Done()
						ready.Add(1)
						for !gate.Load() {
							runtime.Gosched()
						}
						s.compute(fn)
					}(w.worker(k))
				}
				wg.Add(1)
				go func() {
					defer wg.Done()
					ready.Add(1)
					for !gate.Load() {
						runtime.Gosched()
					}
					for i := 0; i < delay; i++ {
						_ = gate.Load()
					}
					s.checkProtocols()
				}()
				for ready.Load() != int32(n+1) {
					runtime.Gosched()
				}
				gate.Store(true)
				wg.Wait()

				// statistics: how many computes got their worker going before the stop
				w.mu.Lock()
				startedBefore := len(w.invs) - pre
				w.mu.Unlock()
				switch {
				case startedBefore <= 0:
					allAfter++
				case startedBefore >= n:
					allBefore++
				default:
					split++
				}

				stoppedChecks := func(what string) {
					w.mu.Lock()
					for _, inv := range w.invs {
						if inv.ctx.Err() == nil {
							w.mu.Unlock()
							fail("%s: a protocol is executing but the context of worker %d is still live", what, inv.worker)
						}
					}
					w.mu.Unlock()
					w.phase.Store(c45PhaseStopped)
					if issued() > 0 {
						// hint only: the scheduler keeps a cancel function although it
						// is stopped; give that loop the time to report itself
						verifkit.Eventually(c45HintWait, func() bool { return liveNow() > 0 || w.getViolation() != "" })
					}
					c45Settle()
					if v := w.getViolation(); v != "" {
						fail("%s: %s", what, v)
					}
					if l := liveNow(); l > 0 {
						fail("%s: %d worker iteration(s) run with a live context although the last scheduler check saw a protocol executing", what, l)
					}
				}
				stoppedChecks("after compute() calls overlapping the check")
				// later checks of the same protocol execution
				w.phase.Store(c45PhaseTransition)
				s.checkProtocols()
				stoppedChecks("second check of the same execution")
				for i := 1; i < nested; i++ {
					latch.Unlock()
				}
				if nested > 1 {
					w.phase.Store(c45PhaseTransition)
					s.checkProtocols()
					stoppedChecks("check with one of two nested executions finished")
				}
				// the protocol finishes: every worker (also those submitted
				// during the overlap) runs exactly once
				latch.Unlock()
				w.phase.Store(c45PhaseTransition)
				s.checkProtocols()
				w.phase.Store(c45PhaseWorking)
				if !verifkit.Eventually(c45WaitTimeout, func() bool {
					live, _ := w.liveActive(total)
					for _, l := range live {
						if l < 1 {
							return false
						}
					}
					return true
				}) {
					s.workMutex.Lock()
					state, iss := s.state, len(s.stops)
					s.workMutex.Unlock()
					if state != working || iss < total {
						fail("no protocol is executing but generation did not resume for every worker (scheduler state=%d, %d live contexts for %d workers)", state, iss, total)
					}
					t.Fatalf("VERIF-INCONCLUSIVE: resumed workers did not get scheduled in time")
				}
				if issued() > total {
					verifkit.Eventually(c45HintWait, func() bool {
						live, _ := w.liveActive(total)
						for _, l := range live {
							if l > 1 {
								return true
							}
						}
						return false
					})
				}
				c45Settle()
				live, _ := w.liveActive(total)
				for k, l := range live {
					if l != 1 {
						fail("after resume worker %d has %d loops running with a live context", k, l)
					}
				}
			}()
		}
		st.Case(true, strings.Join(render, " "), fmt.Sprintf("rounds:%d", rounds),
			fmt.Sprintf("rounds-with-computes-on-both-sides-of-the-stop:%d", min(split, 6)),
			fmt.Sprintf("rounds-all-computes-before-stop:%d", min(allBefore, 6)),
			fmt.Sprintf("rounds-all-computes-after-stop:%d", min(allAfter, 6)))
	})
}

type c45Hit struct{}

var c45MeasureHits = os.Getenv("VERIF_C45_HITRATE") != ""
var c45Rounds, c45Hits atomic.Int64

var c45Verb = regexp.MustCompile(`%[+#]?[a-zA-Z]`)
