//go:build go1.23

package generator

import (
	"context"
	"errors"
	"fmt"
	"regexp"
	"sort"
	"strings"
	"sync"
	"sync/atomic"
	"testing"
	"time"

	"github.com/keep-network/keep-core/internal/verifkit"
	"pgregory.net/rapid"
)

// C39 - the parameter pool never serves a parameter twice or an invalid one.
//
// The harness owns everything around the real ParameterPool: the generation
// function (numbered parameters, handed out only when the harness grants a
// permit), the persistence ("disk" shared by all pool instances of a case,
// with a drawn outcome for every Save / Delete / ReadAll call) and the
// scheduler (zero value, stopped/resumed through its own methods). Step
// completion is observed through events (generateFn entry, Save return), not
// sleeps.

type c39Param struct{ N int } // N > 0 for every generated parameter

const (
	c39WaitTimeout  = 30 * time.Second
	c39ShortTimeout = 3 * time.Second
)

const c39KeyD9 = "D9-nil-after-save-failure"

var errC39Injected = errors.New("injected storage failure")
var errC39Dead = errors.New("instance was abandoned")

// c39Store is the "disk": it outlives pool instances.
type c39Store struct {
	mu    sync.Mutex
	seq   int
	order []string
	data  map[string]c39Param
}

func (s *c39Store) put(p c39Param) string {
	s.mu.Lock()
	defer s.mu.Unlock()
	s.seq++
	id := fmt.Sprintf("pp_%05d_%d", s.seq, p.N)
	s.order = append(s.order, id)
	s.data[id] = p
	return id
}

func (s *c39Store) remove(id string) bool {
	s.mu.Lock()
	defer s.mu.Unlock()
	if _, ok := s.data[id]; !ok {
		return false
	}
	delete(s.data, id)
	for i, o := range s.order {
		if o == id {
			s.order = append(s.order[:i:i], s.order[i+1:]...)
			break
		}
	}
	return true
}

func (s *c39Store) has(id string) bool {
	s.mu.Lock()
	defer s.mu.Unlock()
	_, ok := s.data[id]
	return ok
}

func (s *c39Store) list() []*Persisted[c39Param] {
	s.mu.Lock()
	defer s.mu.Unlock()
	out := make([]*Persisted[c39Param], 0, len(s.order))
	for _, id := range s.order {
		out = append(out, &Persisted[c39Param]{Data: s.data[id], ID: id})
	}
	return out
}

func (s *c39Store) values() []int {
	s.mu.Lock()
	defer s.mu.Unlock()
	out := make([]int, 0, len(s.order))
	for _, id := range s.order {
		out = append(out, s.data[id].N)
	}
	return out
}

// c39View is the Persistence handed to one pool instance.
type c39View struct {
	store *c39Store
	dead  atomic.Bool
	gate  chan struct{} // closed when the instance is abandoned

	mu            sync.Mutex
	saveOutcome   string // one-shot: ok fail fail-applied crash-before crash-after
	deleteOutcome string // one-shot: ok fail fail-applied
	readAllFails  bool
	saveReturned  int
	saveBlocked   int
	nilDeletes    int
	nilSaves      int
	deleteArgs    []string // IDs passed to Delete (in call order)
	deleteApplied map[string]bool
}

func (v *c39View) Save(p *c39Param) (*Persisted[c39Param], error) {
	if v.dead.Load() {
		return nil, errC39Dead
	}
	v.mu.Lock()
	outcome := v.saveOutcome
	v.saveOutcome = "ok"
	if p == nil {
		v.nilSaves++
	}
	v.mu.Unlock()
	done := func() {
		v.mu.Lock()
		v.saveReturned++
		v.mu.Unlock()
	}
	if p == nil {
		done()
		return nil, errors.New("nil parameter")
	}
	switch outcome {
	case "fail":
		done()
		return nil, errC39Injected
	case "fail-applied":
		v.store.put(*p)
		done()
		return nil, errC39Injected
	case "crash-before", "crash-after":
		if outcome == "crash-after" {
			v.store.put(*p)
		}
		v.mu.Lock()
		v.saveBlocked++
		v.mu.Unlock()
		<-v.gate // the process "died" here; released only for clean-up
		return nil, errC39Dead
	}
	id := v.store.put(*p)
	done()
	return &Persisted[c39Param]{Data: *p, ID: id}, nil
}

func (v *c39View) Delete(p *Persisted[c39Param]) error {
	if p == nil {
		// the real storage (preParamsStorage.Delete) dereferences the entry
		v.mu.Lock()
		v.nilDeletes++
		v.mu.Unlock()
		return errors.New("nil entry")
	}
	if v.dead.Load() {
		return errC39Dead
	}
	v.mu.Lock()
	outcome := v.deleteOutcome
	v.deleteOutcome = "ok"
	v.deleteArgs = append(v.deleteArgs, p.ID)
	v.mu.Unlock()
	switch outcome {
	case "fail":
		return errC39Injected
	case "fail-applied":
		if v.store.remove(p.ID) {
			v.mu.Lock()
			v.deleteApplied[p.ID] = true
			v.mu.Unlock()
		}
		return errC39Injected
	}
	if !v.store.remove(p.ID) {
		return fmt.Errorf("no such file %q", p.ID) // like os.Remove
	}
	v.mu.Lock()
	v.deleteApplied[p.ID] = true
	v.mu.Unlock()
	return nil
}

func (v *c39View) ReadAll() ([]*Persisted[c39Param], error) {
	if v.dead.Load() {
		return nil, errC39Dead
	}
	v.mu.Lock()
	fails := v.readAllFails
	v.mu.Unlock()
	if fails {
		return nil, errC39Injected
	}
	return v.store.list(), nil
}

func (v *c39View) counters() (saveReturned, saveBlocked, nilDeletes int) {
	v.mu.Lock()
	defer v.mu.Unlock()
	return v.saveReturned, v.saveBlocked, v.nilDeletes
}

type c39NopLogger struct{}

func (c39NopLogger) Debug(args ...interface{})                   {}
func (c39NopLogger) Debugf(format string, args ...interface{})   {}
func (c39NopLogger) Error(args ...interface{})                   {}
func (c39NopLogger) Errorf(format string, args ...interface{})   {}
func (c39NopLogger) Fatal(args ...interface{})                   {}
func (c39NopLogger) Fatalf(format string, args ...interface{})   {}
func (c39NopLogger) Info(args ...interface{})                    {}
func (c39NopLogger) Infof(format string, args ...interface{})    {}
func (c39NopLogger) Panic(args ...interface{})                   {}
func (c39NopLogger) Panicf(format string, args ...interface{})   {}
func (c39NopLogger) Warn(args ...interface{})                    {}
func (c39NopLogger) Warnf(format string, args ...interface{})    {}
func (c39NopLogger) Warning(args ...interface{})                 {}
func (c39NopLogger) Warningf(format string, args ...interface{}) {}

// c39Instance is one life of the node: scheduler + pool + persistence view.
type c39Instance struct {
	size      int
	view      *c39View
	scheduler *Scheduler
	pool      *ParameterPool[c39Param]
	permit    chan int
	entries   atomic.Int64 // generateFn entries
	nilExits  atomic.Int64 // generateFn returned nil (context cancelled)
	grants    int64        // permits consumed

	// model
	content        []int // values the pool holds (model, FIFO as pushed)
	pending        int   // value saved (or not) that the worker is blocked pushing; 0 = none
	paused         bool
	saveFailedHere bool
}

type c39Machine struct {
	t      *rapid.T
	store  *c39Store
	cur    *c39Instance
	old    []*c39Instance
	next   int
	tr     []string // case rendering (deterministic part)
	detail []string // full trace with outcomes

	generated map[int]bool
	handed    map[int]bool
	idOf      map[int][]string // value -> storage IDs it was saved under

	// statistics
	saveFailures, deleteFailures, restarts, crashes, readAllFailures  int
	blockedPushes, bursts, gets, emptyGets, pauses                    int
	saveFailThenGet, handedAfterRestart, saveFailFull, restartBlocked bool
	instanceOf                                                        map[int]int
}

// logf records a step: m.tr is the case rendering used for the statistics,
// m.detail the trace printed on failure (it may carry timing-dependent extras).
func (m *c39Machine) logf(format string, a ...any) {
	m.detail = append(m.detail, fmt.Sprintf(format, a...))
	m.tr = append(m.tr, fmt.Sprintf(format, a...))
}

var c39Verb = regexp.MustCompile(`%[+#]?[a-zA-Z]`)

// fail reports a violation. The Fatalf text is kept free of run-dependent
// values (rapid compares it when it reproduces and shrinks a failure); the
// concrete values and the history go to the test log.
func (m *c39Machine) fail(format string, a ...any) {
	m.t.Logf("violation: "+format, a...)
	m.t.Logf("history: %s", strings.Join(m.detail, " "))
	m.t.Logf("storage: %v  model pool: %v  blocked push: %d", m.store.values(), m.cur.content, m.cur.pending)
	m.t.Fatalf("%s", c39Verb.ReplaceAllString(format, "_"))
}

func (m *c39Machine) inconclusive(why string) {
	m.t.Fatalf("VERIF-INCONCLUSIVE: %s", why)
}

func (m *c39Machine) newInstance(size int, readAllFails bool) {
	inst := &c39Instance{size: size, permit: make(chan int), scheduler: &Scheduler{}}
	inst.view = &c39View{store: m.store, gate: make(chan struct{}), saveOutcome: "ok", deleteOutcome: "ok",
		readAllFails: readAllFails, deleteApplied: map[string]bool{}}
	generateFn := func(ctx context.Context) *c39Param {
		inst.entries.Add(1)
		select {
		case n := <-inst.permit:
			return &c39Param{N: n}
		case <-ctx.Done():
			inst.nilExits.Add(1)
			return nil
		}
	}
	stored := m.store.values()
	built := make(chan *ParameterPool[c39Param], 1)
	go func() {
		built <- NewParameterPool[c39Param](c39NopLogger{}, inst.scheduler, inst.view, size, generateFn, 0)
	}()
	select {
	case inst.pool = <-built:
	case <-time.After(c39WaitTimeout / 3):
		m.inconclusive(fmt.Sprintf("NewParameterPool(size %d) did not return with %d parameters in storage", size, len(stored)))
	}
	inst.view.mu.Lock()
	inst.view.readAllFails = false
	inst.view.mu.Unlock()
	if !readAllFails {
		for i, n := range stored {
			if i >= size {
				break
			}
			inst.content = append(inst.content, n)
		}
	}
	if m.cur != nil {
		m.old = append(m.old, m.cur)
	}
	m.cur = inst
	m.waitEntries(1, "first generateFn call of a new pool")
	if got := inst.pool.ParametersCount(); got != len(inst.content) {
		m.fail("new pool of size %d over a storage holding %v reports %d parameters, expected %d", size, stored, got, len(inst.content))
	}
}

func (m *c39Machine) waitEntries(want int64, what string) {
	inst := m.cur
	if !verifkit.Eventually(c39WaitTimeout, func() bool { return inst.entries.Load() >= want }) {
		m.inconclusive(what + ": generation worker did not reach generateFn in time")
	}
}

// abandon ends the life of the current instance (restart or crash).
func (m *c39Machine) abandon(inst *c39Instance) {
	inst.view.dead.Store(true)
	inst.scheduler.stop()
	close(inst.view.gate)
}

// checkHandedOut validates one value returned by GetNow.
func (m *c39Machine) checkHandedOut(inst *c39Instance, v *c39Param, argsBefore int) int {
	if v == nil {
		m.fail("GetNow returned neither a parameter nor an error")
	}
	n := v.N
	if n <= 0 || !m.generated[n] {
		m.fail("GetNow returned %+v which was never generated (missing / invalid parameter)", *v)
	}
	if m.handed[n] {
		m.fail("GetNow handed out parameter %d for the second time", n)
	}
	m.handed[n] = true
	if m.instanceOf[n] != len(m.old) {
		m.handedAfterRestart = true
	}
	inst.view.mu.Lock()
	args := append([]string{}, inst.view.deleteArgs[argsBefore:]...)
	applied := false
	var usedID string
	for _, id := range args {
		for _, known := range m.idOf[n] {
			if id == known {
				usedID = id
				applied = inst.view.deleteApplied[id]
			}
		}
	}
	inst.view.mu.Unlock()
	if usedID == "" {
		m.fail("GetNow returned parameter %d without asking the storage to delete it first (Delete calls: %v)", n, args)
	}
	if !applied || m.store.has(usedID) {
		m.fail("GetNow returned parameter %d although it is still in storage (record %s)", n, usedID)
	}
	for _, id := range m.idOf[n] {
		if id != usedID && m.store.has(id) {
			// the same value stored twice would be served again after a restart
			m.fail("parameter %d handed out but a second record %s of it stays in storage", n, id)
		}
	}
	return n
}

func c39Remove(list []int, n int) ([]int, bool) {
	for i, v := range list {
		if v == n {
			return append(list[:i:i], list[i+1:]...), true
		}
	}
	return list, false
}

func (m *c39Machine) valueOfID(id string) int {
	for n, ids := range m.idOf {
		for _, k := range ids {
			if k == id {
				return n
			}
		}
	}
	return 0
}

// getNow performs one GetNow on the current pool and reconciles the model.
func (m *c39Machine) getNow(deleteOutcome string) {
	inst := m.cur
	inst.view.mu.Lock()
	inst.view.deleteOutcome = deleteOutcome
	argsBefore := len(inst.view.deleteArgs)
	inst.view.mu.Unlock()
	_, _, nilBefore := inst.view.counters()
	entriesBefore := inst.entries.Load()

	var v *c39Param
	var err error
	var panicked any
	func() {
		defer func() { panicked = recover() }()
		v, err = inst.pool.GetNow()
	}()
	m.gets++
	if inst.saveFailedHere {
		m.saveFailThenGet = true
	}
	if panicked != nil {
		m.logf("get->panic")
		m.fail("GetNow panicked: %v", panicked)
	}
	if _, _, nilAfter := inst.view.counters(); nilAfter > nilBefore {
		m.logf("get->Delete(nil)")
		m.fail("GetNow took a nil entry out of the pool and handed it to Delete (the pool held a parameter that does not exist; the real storage dereferences it) [finding-key=D9-nil-after-save-failure]")
	}
	inst.view.mu.Lock()
	inst.view.deleteOutcome = "ok"
	args := append([]string{}, inst.view.deleteArgs[argsBefore:]...)
	inst.view.mu.Unlock()

	switch {
	case err == nil:
		n := m.checkHandedOut(inst, v, argsBefore)
		m.logf("get->%d", n)
		var ok bool
		if inst.content, ok = c39Remove(inst.content, n); !ok {
			m.fail("GetNow returned parameter %d which the pool should not hold (model pool %v)", n, inst.content)
		}
		// (a parameter handed out although Delete reported an error is caught
		// by checkHandedOut when the record is in fact still stored; when the
		// record is gone the statement is not contradicted)
	case err == ErrEmptyPool:
		m.logf("get->empty")
		m.emptyGets++
		if len(inst.content) != 0 {
			m.fail("GetNow reports an empty pool but parameters %v were put into it and never taken out", inst.content)
		}
		if len(args) != 0 {
			m.fail("GetNow reports an empty pool but called Delete(%v)", args)
		}
	default:
		m.logf("get->err(%s)", deleteOutcome)
		if v != nil {
			m.fail("GetNow returned both a parameter (%+v) and an error (%v)", *v, err)
		}
		if len(args) != 1 {
			m.fail("GetNow failed with %v after %d Delete calls", err, len(args))
		}
		n := m.valueOfID(args[0])
		var ok bool
		if inst.content, ok = c39Remove(inst.content, n); !ok {
			m.fail("GetNow tried to delete record %s (parameter %d) which the pool should not hold (model pool %v)", args[0], n, inst.content)
		}
		if deleteOutcome == "ok" {
			m.fail("GetNow failed with an unexpected error: %v", err)
		}
		m.deleteFailures++
	}
	// a worker blocked on the full pool gets its slot now
	if inst.pending != 0 && err != ErrEmptyPool && !inst.paused {
		m.waitEntries(entriesBefore+1, "push of the blocked parameter after GetNow freed a slot")
		inst.content = append(inst.content, inst.pending)
		inst.pending = 0
	}
	m.checkCount("after GetNow")
}

func (m *c39Machine) checkCount(when string) {
	inst := m.cur
	got := inst.pool.ParametersCount()
	if got > inst.size {
		m.fail("%s: pool of size %d holds %d parameters", when, inst.size, got)
	}
	if got != len(inst.content) {
		// the pool disagrees with the model: find out what it holds by taking
		// everything out; a missing / repeated parameter is reported by getNow
		m.logf("probe(count=%d)", got)
		want := len(inst.content)
		for i := 0; i <= inst.size+1 && inst.pool.ParametersCount() > 0; i++ {
			m.probeGet()
		}
		m.fail("%s: pool reports %d parameters, %d were put into it and not taken out", when, got, want)
	}
}

// probeGet takes one entry out without consulting the model (diagnosis only).
func (m *c39Machine) probeGet() {
	inst := m.cur
	inst.view.mu.Lock()
	argsBefore := len(inst.view.deleteArgs)
	inst.view.mu.Unlock()
	_, _, nilBefore := inst.view.counters()
	var v *c39Param
	var err error
	var panicked any
	func() {
		defer func() { panicked = recover() }()
		v, err = inst.pool.GetNow()
	}()
	if panicked != nil {
		m.fail("GetNow panicked: %v", panicked)
	}
	if _, _, nilAfter := inst.view.counters(); nilAfter > nilBefore {
		m.logf("get->Delete(nil)")
		m.fail("GetNow took a nil entry out of the pool and handed it to Delete (the pool held a parameter that does not exist; the real storage dereferences it) [finding-key=D9-nil-after-save-failure]")
	}
	if err == nil {
		n := m.checkHandedOut(inst, v, argsBefore)
		m.logf("get->%d", n)
	}
}

// generate lets the worker produce one parameter with the given Save outcome.
func (m *c39Machine) generate(saveOutcome string, op c39Op) {
	inst := m.cur
	m.next++
	n := m.next
	m.generated[n] = true
	m.instanceOf[n] = len(m.old)
	inst.view.mu.Lock()
	inst.view.saveOutcome = saveOutcome
	inst.view.mu.Unlock()
	retBefore, blockedBefore, _ := inst.view.counters()
	entriesBefore := inst.entries.Load()
	idsBefore := len(m.store.list())

	select {
	case inst.permit <- n:
		inst.grants++
	case <-time.After(c39WaitTimeout):
		m.inconclusive("generation worker did not take the permit in time")
	}
	crash := strings.HasPrefix(saveOutcome, "crash")
	if !verifkit.Eventually(c39WaitTimeout, func() bool {
		r, b, _ := inst.view.counters()
		if crash {
			return b > blockedBefore
		}
		return r > retBefore
	}) {
		m.inconclusive("generated parameter was not passed to Save in time")
	}
	// which record (if any) did this Save create?
	if all := m.store.list(); len(all) > idsBefore {
		m.idOf[n] = append(m.idOf[n], all[len(all)-1].ID)
	}
	m.logf("gen(%d,%s)", n, saveOutcome)
	switch saveOutcome {
	case "ok":
		if len(inst.content) < inst.size {
			m.waitEntries(entriesBefore+1, "push of a saved parameter")
			inst.content = append(inst.content, n)
		} else {
			inst.pending = n // worker blocks on the full pool
			m.blockedPushes++
		}
	case "fail", "fail-applied":
		m.saveFailures++
		inst.saveFailedHere = true
		if len(inst.content) == inst.size {
			m.saveFailFull = true
		}
		// a parameter that could not be saved must not enter the pool; the
		// worker goes back to generating
		if !verifkit.Eventually(c39ShortTimeout, func() bool { return inst.entries.Load() >= entriesBefore+1 }) {
			// the worker is stuck (pool full?): free a slot and look at what
			// comes out before calling it inconclusive
			m.logf("probe(worker-stuck)")
			m.probeGet()
			if verifkit.Eventually(c39WaitTimeout, func() bool { return inst.entries.Load() >= entriesBefore+1 }) {
				for i := 0; i <= inst.size+1 && inst.pool.ParametersCount() > 0; i++ {
					m.probeGet()
				}
			}
			m.inconclusive("worker did not return to generateFn after a failed Save")
		}
	case "crash-before", "crash-after":
		// the process dies inside Save: nothing else happens in this life
		m.crashes++
		m.restart(true, op)
		return
	}
	m.checkCount("after generation")
}

func (m *c39Machine) restart(crash bool, op c39Op) {
	size := m.cur.size
	if op.newSize != 0 {
		size = op.newSize
	}
	if m.cur.pending != 0 {
		m.restartBlocked = true
	}
	m.abandon(m.cur)
	m.restarts++
	if op.readAllFails {
		m.readAllFailures++
	}
	m.logf("restart(crash=%v,size=%d,readAllFails=%v)", crash, size, op.readAllFails)
	m.newInstance(size, op.readAllFails)
}

func (m *c39Machine) pause() {
	inst := m.cur
	// only while the worker waits in generateFn: its exit is then observable
	nilBefore := inst.nilExits.Load()
	inst.scheduler.stop()
	if !verifkit.Eventually(c39WaitTimeout, func() bool { return inst.nilExits.Load() > nilBefore }) {
		m.inconclusive("stopped generation did not return from generateFn in time")
	}
	inst.paused = true
	m.pauses++
	m.logf("pause")
	m.checkCount("after stop")
}

func (m *c39Machine) resume() {
	inst := m.cur
	before := inst.entries.Load()
	inst.scheduler.resume()
	m.waitEntries(before+1, "resume")
	inst.paused = false
	m.logf("resume")
	m.checkCount("after resume")
}

// burst overlaps generation with several concurrent GetNow callers. When the
// consumers are done the harness goroutine keeps taking parameters out until
// every permit was used and the pool is empty, so the state after a burst does
// not depend on goroutine timing (only who got which parameter does).
func (m *c39Machine) burst(op c39Op) {
	inst := m.cur
	toGenerate, consumers, getsEach := op.burstGen, op.burstConsumers, op.burstGets
	type got struct {
		v        *c39Param
		err      error
		panicked any
	}
	get := func() (g got) {
		defer func() { g.panicked = recover() }()
		g.v, g.err = inst.pool.GetNow()
		return
	}
	results := make([][]got, consumers+1)
	var wg, feederWg sync.WaitGroup
	var grantedN atomic.Int64
	retBefore, _, nilBefore := inst.view.counters()
	inst.view.mu.Lock()
	argsBefore := len(inst.view.deleteArgs)
	inst.view.mu.Unlock()
	entries0 := inst.entries.Load()
	first := m.next + 1
	for i := 0; i < toGenerate; i++ {
		m.next++
		m.generated[m.next] = true
		m.instanceOf[m.next] = len(m.old)
	}
	var blockedAtStart int64 // the worker starts the burst blocked on the full pool
	if inst.pending != 0 {
		blockedAtStart = 1
	}
	abort := make(chan struct{})
	feederWg.Add(1)
	go func() {
		defer feederWg.Done()
		for i := 0; i < toGenerate; i++ {
			select {
			case inst.permit <- first + i:
				grantedN.Add(1)
			case <-abort:
				return
			}
		}
	}()
	defer func() {
		close(abort)
		feederWg.Wait()
	}()
	for c := 0; c < consumers; c++ {
		wg.Add(1)
		go func(c int) {
			defer wg.Done()
			for i := 0; i < getsEach; i++ {
				results[c] = append(results[c], get())
			}
		}(c)
	}
	wg.Wait()
	// The consumers are done. Generation either finishes (every permit taken,
	// every parameter pushed, worker back in generateFn) or stalls: all granted
	// parameters saved, the last one not pushed and the pool full with nobody
	// taking anything out - then this goroutine takes one out.
	for round := 0; ; round++ {
		finished := false
		if !verifkit.Eventually(c39WaitTimeout, func() bool {
			g := grantedN.Load()
			r, _, _ := inst.view.counters()
			pushes := inst.entries.Load() - entries0 // every push is followed by a generateFn entry
			if g == int64(toGenerate) && pushes == g+blockedAtStart {
				finished = true
				return true
			}
			return g+blockedAtStart > 0 && int64(r-retBefore) == g && pushes == g+blockedAtStart-1 && inst.pool.ParametersCount() >= inst.size
		}) {
			m.inconclusive("burst: generation neither finished nor blocked on the full pool in time")
		}
		if finished {
			break
		}
		if round > toGenerate+inst.size+2 {
			m.fail("burst: generation keeps blocking on the pool although parameters are taken out")
		}
		if inst.pending == 0 && len(results[consumers]) == 0 {
			m.blockedPushes++
		}
		results[consumers] = append(results[consumers], get())
	}
	for i := 0; inst.pool.ParametersCount() > 0; i++ {
		if i > toGenerate+inst.size+2 {
			m.fail("burst: the pool does not get empty although nothing is generated")
		}
		results[consumers] = append(results[consumers], get())
	}
	inst.grants += int64(toGenerate)
	m.bursts++
	if _, _, nilAfter := inst.view.counters(); nilAfter > nilBefore {
		m.fail("burst: GetNow took a nil entry out of the pool and handed it to Delete [finding-key=D9-nil-after-save-failure]")
	}
	// records created (and deleted again) by the burst
	inst.view.mu.Lock()
	for _, id := range inst.view.deleteArgs[argsBefore:] {
		var n int
		if _, err := fmt.Sscanf(id[strings.LastIndex(id, "_")+1:], "%d", &n); err == nil && n >= first && len(m.idOf[n]) == 0 {
			m.idOf[n] = append(m.idOf[n], id)
		}
	}
	inst.view.mu.Unlock()
	// validate what was handed out
	var handed []int
	empties := 0
	for c := range results {
		for _, g := range results[c] {
			switch {
			case g.panicked != nil:
				m.fail("burst: GetNow panicked: %v", g.panicked)
			case g.err == nil:
				handed = append(handed, m.checkHandedOut(inst, g.v, argsBefore))
			case g.err == ErrEmptyPool:
				empties++
			default:
				m.fail("burst: GetNow failed although storage works: %v", g.err)
			}
			m.gets++
		}
	}
	m.emptyGets += empties
	// reconcile: everything held before or generated now was handed out
	all := append([]int{}, inst.content...)
	if inst.pending != 0 {
		all = append(all, inst.pending)
		inst.pending = 0
	}
	for i := 0; i < toGenerate; i++ {
		all = append(all, first+i)
	}
	for _, n := range handed {
		var ok bool
		if all, ok = c39Remove(all, n); !ok {
			m.fail("burst: GetNow returned parameter %d which the pool should not hold", n)
		}
	}
	if len(all) != 0 {
		m.fail("burst: the pool is empty but parameters %v were put into it and never handed out", all)
	}
	inst.content = nil
	sort.Ints(handed)
	m.detail = append(m.detail, fmt.Sprintf("burst(gen=%d,gets=%dx%d,got=%v,empty=%d)", toGenerate, consumers, getsEach, handed, empties))
	m.tr = append(m.tr, fmt.Sprintf("burst(gen=%d,gets=%dx%d,got=%v)", toGenerate, consumers, getsEach, handed))
	m.checkCount("after burst")
}

type c39Op struct {
	kind                                string
	crashPoint                          string
	newSize                             int // 0 = keep the configured size
	readAllFails                        bool
	burstGen, burstConsumers, burstGets int
}

var c39Ops = []string{"gen", "gen", "gen", "gen", "gen-fail", "gen-fail", "gen-fail-applied", "gen-crash",
	"get", "get", "get", "get", "get-delfail", "get-delfail-applied", "restart", "restart", "pause", "burst"}

func c39DrawOp(t *rapid.T) c39Op {
	op := c39Op{kind: rapid.SampledFrom(c39Ops).Draw(t, "op")}
	switch op.kind {
	case "gen-crash", "restart":
		if op.kind == "gen-crash" {
			op.crashPoint = rapid.SampledFrom([]string{"crash-before", "crash-after"}).Draw(t, "crashPoint")
		}
		if rapid.IntRange(0, 5).Draw(t, "resize") == 0 {
			op.newSize = rapid.IntRange(1, 4).Draw(t, "newSize")
		}
		op.readAllFails = rapid.IntRange(0, 7).Draw(t, "readAllFails") == 0
	case "burst":
		op.burstGen = rapid.IntRange(1, 6).Draw(t, "burstGenerate")
		op.burstConsumers = rapid.IntRange(2, 3).Draw(t, "burstConsumers")
		op.burstGets = rapid.IntRange(1, 5).Draw(t, "burstGets")
	}
	return op
}

func TestVerif_C39_PoolHistory(t *testing.T) {
	st := verifkit.New("C39", "TestVerif_C39_PoolHistory")
	defer st.Flush()
	rapid.Check(t, func(t *rapid.T) {
		m := &c39Machine{t: t, store: &c39Store{data: map[string]c39Param{}}, generated: map[int]bool{}, handed: map[int]bool{},
			idOf: map[int][]string{}, instanceOf: map[int]int{}}
		defer func() {
			if m.cur != nil {
				m.abandon(m.cur)
			}
		}()
		size := rapid.IntRange(1, 4).Draw(t, "poolSize")
		m.logf("size=%d", size)
		m.newInstance(size, false)
		steps := rapid.IntRange(3, 40).Draw(t, "steps")
		for i := 0; i < steps; i++ {
			// every parameter of the step is drawn before the state is looked
			// at, so the draw sequence never depends on goroutine timing
			op := c39DrawOp(t)
			inst := m.cur
			if (op.kind == "gen-fail" || op.kind == "gen-fail-applied") && verifkit.Known(c39KeyD9) {
				// open known finding: steer around it so the search continues
				st.Excluded(c39KeyD9)
				op.kind = "gen"
			}
			if inst.paused && op.kind != "restart" && !strings.HasPrefix(op.kind, "get") {
				// generation is stopped: resume it first
				m.resume()
			}
			switch op.kind {
			case "gen", "gen-fail", "gen-fail-applied", "gen-crash":
				if inst.pending != 0 {
					continue // worker is blocked on the full pool, nothing to grant
				}
				outcome := map[string]string{"gen": "ok", "gen-fail": "fail", "gen-fail-applied": "fail-applied", "gen-crash": op.crashPoint}[op.kind]
				m.generate(outcome, op)
			case "get":
				m.getNow("ok")
			case "get-delfail":
				m.getNow("fail")
			case "get-delfail-applied":
				m.getNow("fail-applied")
			case "restart":
				m.restart(false, op)
			case "pause":
				if inst.pending != 0 || inst.paused {
					continue
				}
				m.pause()
			case "burst":
				m.burst(op)
			}
		}
		// end of history: everything still stored must come back after a
		// restart and be served exactly once
		m.abandon(m.cur)
		m.logf("final-restart")
		want := m.store.values()
		m.restarts++
		m.newInstance(len(want)+1, false)
		for range want {
			m.getNow("ok")
		}
		if len(m.cur.content) != 0 {
			m.fail("model error: pool should be empty")
		}
		m.getNow("ok") // must report the empty pool
		for _, n := range want {
			if !m.handed[n] {
				m.fail("parameter %d was saved and never handed out but did not come back after the restart", n)
			}
		}

		nt := m.saveFailThenGet
		st.Case(nt, strings.Join(m.tr, " "),
			fmt.Sprintf("save-failures:%d", min(m.saveFailures, 3)),
			fmt.Sprintf("delete-failures:%d", min(m.deleteFailures, 3)),
			fmt.Sprintf("restarts:%d", min(m.restarts-1, 4)),
			fmt.Sprintf("crash-in-save:%v", m.crashes > 0),
			fmt.Sprintf("readall-failure:%v", m.readAllFailures > 0),
			fmt.Sprintf("blocked-on-full-pool:%v", m.blockedPushes > 0),
			fmt.Sprintf("save-failure-on-full-pool:%v", m.saveFailFull),
			fmt.Sprintf("restart-while-blocked-on-full-pool:%v", m.restartBlocked),
			fmt.Sprintf("served-after-restart:%v", m.handedAfterRestart),
			fmt.Sprintf("empty-gets:%v", m.emptyGets > 1),
			fmt.Sprintf("pauses:%v", m.pauses > 0),
			fmt.Sprintf("bursts:%d", min(m.bursts, 3)),
			fmt.Sprintf("pool-size:%d", size))
	})
}
