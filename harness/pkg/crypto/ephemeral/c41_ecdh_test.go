//go:build go1.23

package ephemeral

import (
	"bytes"
	"crypto/ecdsa"
	crand "crypto/rand"
	"encoding/hex"
	"fmt"
	"math/big"
	"testing"

	"github.com/btcsuite/btcd/btcec"
	"github.com/keep-network/keep-core/internal/verifkit"
	"pgregory.net/rapid"
)

// secp256k1 constants written out here (the oracle does not ask the code
// under test for them).
var (
	c41N, _ = new(big.Int).SetString("fffffffffffffffffffffffffffffffebaaedce6af48a03bbfd25e8cd0364141", 16)
	c41P, _ = new(big.Int).SetString("fffffffffffffffffffffffffffffffffffffffffffffffffffffffefffffc2f", 16)
)

// c41Stream is a deterministic io.Reader installed as crypto/rand.Reader while
// a case runs, so that the secretbox nonces (and therefore the ciphertexts) are
// a function of the rapid-drawn case only and a fail file replays bit by bit.
type c41Stream struct {
	seed [8]byte
	ctr  uint64
}

func (s *c41Stream) Read(p []byte) (int, error) {
	base := uint64(0)
	for i := 0; i < 8; i++ {
		base |= uint64(s.seed[i]) << (8 * uint(i))
	}
	for i := range p {
		// splitmix64 over a counter; never used as a security primitive
		s.ctr++
		z := base + s.ctr*0x9E3779B97F4A7C15
		z ^= z >> 30
		z *= 0xBF58476D1CE4E5B9
		z ^= z >> 27
		z *= 0x94D049BB133111EB
		z ^= z >> 31
		p[i] = byte(z >> 32)
	}
	return len(p), nil
}

func c41WithStream(seed uint64, f func()) {
	old := crand.Reader
	st := &c41Stream{}
	for i := 0; i < 8; i++ {
		st.seed[i] = byte(seed >> (8 * uint(i)))
	}
	crand.Reader = st
	defer func() { crand.Reader = old }()
	f()
}

// scalar in [1, n-1], biased to the edges.
func c41GenScalar(t *rapid.T, label string) *big.Int {
	class := rapid.IntRange(0, 9).Draw(t, label+"Class")
	switch class {
	case 0:
		return big.NewInt(int64(rapid.IntRange(1, 16).Draw(t, label+"Small")))
	case 1:
		return new(big.Int).Sub(c41N, big.NewInt(int64(rapid.IntRange(1, 16).Draw(t, label+"NearN"))))
	case 2:
		// short keys: the leading bytes of the 32-byte form are zero
		b := rapid.SliceOfN(rapid.Byte(), 1, 20).Draw(t, label+"Short")
		v := new(big.Int).SetBytes(b)
		if v.Sign() == 0 {
			v.SetInt64(1)
		}
		return v
	default:
		b := rapid.SliceOfN(rapid.Byte(), 32, 32).Draw(t, label+"Bytes")
		v := new(big.Int).SetBytes(b)
		v.Mod(v, new(big.Int).Sub(c41N, big.NewInt(1)))
		v.Add(v, big.NewInt(1))
		return v
	}
}

func c41Pad32(v *big.Int) []byte {
	out := make([]byte, 32)
	b := v.Bytes()
	copy(out[32-len(b):], b)
	return out
}

// c41GenEncoding renders the scalar d (1 <= d < n) as the bytes of a revealed
// private key. A private key arrives as a big-endian byte string of whatever
// length the revealing peer chose (pkg/beacon/gjkr/marshaling.go hands the wire
// bytes to UnmarshalPrivateKey unchanged): the fixed 32-byte form this package
// emits, the minimal form without leading zero bytes, a zero-extended form, or
// a longer number congruent to d modulo the group order. All of them stand for
// the same scalar.
func c41GenEncoding(t *rapid.T, label string, d *big.Int) ([]byte, string) {
	switch rapid.IntRange(0, 6).Draw(t, label+"Encoding") {
	case 0, 1, 2:
		return c41Pad32(d), "fixed32"
	case 3, 4:
		return d.Bytes(), "minimal"
	case 5:
		pad := rapid.IntRange(1, 8).Draw(t, label+"ZeroExtension")
		return append(make([]byte, pad), c41Pad32(d)...), "zero-extended"
	default:
		k := new(big.Int).SetBytes(rapid.SliceOfN(rapid.Byte(), 1, 4).Draw(t, label+"MultipleOfN"))
		k.Add(k, big.NewInt(1))
		v := new(big.Int).Add(d, new(big.Int).Mul(k, c41N))
		if v.BitLen() <= 256 {
			v.Add(v, new(big.Int).Lsh(c41N, 8))
		}
		return v.Bytes(), "plus-multiple-of-n"
	}
}

// the public key d*G, computed by the curve library from the canonical scalar
// (not by the code under test from the revealed bytes): what the owner of the
// key announced.
func c41PublicOf(d *big.Int) *PublicKey {
	x, y := btcec.S256().ScalarBaseMult(c41Pad32(d))
	return &PublicKey{Curve: btcec.S256(), X: x, Y: y}
}

// key pair for a chosen scalar: the private half through UnmarshalPrivateKey
// from a drawn encoding, the public half independently.
func c41KeyPair(t *rapid.T, label string, d *big.Int) (*KeyPair, string) {
	raw, enc := c41GenEncoding(t, label, d)
	return &KeyPair{PrivateKey: UnmarshalPrivateKey(raw), PublicKey: c41PublicOf(d)}, enc
}

func c41GenPlaintext(t *rapid.T) []byte {
	class := rapid.IntRange(0, 9).Draw(t, "ptClass")
	var n int
	switch class {
	case 0:
		n = 0
	case 1:
		n = rapid.SampledFrom([]int{1, 15, 16, 17, 31, 32, 33, 63, 64, 65}).Draw(t, "ptEdgeLen")
	case 2:
		n = rapid.SampledFrom([]int{4095, 4096, 4097, 16384, 65535, 65536}).Draw(t, "ptLargeLen")
	default:
		n = rapid.IntRange(1, 300).Draw(t, "ptLen")
	}
	if n > 300 {
		// large plaintexts: a drawn short pattern repeated (keeps rapid's
		// bitstream small; the content of the bulk does not matter)
		pat := rapid.SliceOfN(rapid.Byte(), 1, 8).Draw(t, "ptPattern")
		out := make([]byte, n)
		for i := range out {
			out[i] = pat[i%len(pat)] + byte(i/len(pat))
		}
		return out
	}
	return rapid.SliceOfN(rapid.Byte(), n, n).Draw(t, "pt")
}

func c41Short(b []byte) string {
	if len(b) <= 12 {
		return hex.EncodeToString(b)
	}
	return fmt.Sprintf("%s..(%d)", hex.EncodeToString(b[:8]), len(b))
}

// TestVerif_C41_Channel: agreement of the two derived keys, round trip, and
// rejection of every modified ciphertext and of every other key.
func TestVerif_C41_Channel(t *testing.T) {
	st := verifkit.New("C41", "TestVerif_C41_Channel")
	defer st.Flush()
	rapid.Check(t, func(t *rapid.T) {
		da := c41GenScalar(t, "a")
		db := c41GenScalar(t, "b")
		sameKeys := da.Cmp(db) == 0
		a, encA := c41KeyPair(t, "a", da)
		b, encB := c41KeyPair(t, "b", db)
		// the public keys travel marshalled in the real protocols
		viaWire := rapid.Bool().Draw(t, "publicKeysViaWire")
		pubA, pubB := a.PublicKey, b.PublicKey
		if viaWire {
			var err error
			if pubA, err = UnmarshalPublicKey(a.PublicKey.Marshal()); err != nil {
				t.Fatalf("public key of scalar %x does not survive Marshal/Unmarshal: %v", da, err)
			}
			if pubB, err = UnmarshalPublicKey(b.PublicKey.Marshal()); err != nil {
				t.Fatalf("public key of scalar %x does not survive Marshal/Unmarshal: %v", db, err)
			}
		}
		plaintext := c41GenPlaintext(t)
		nonceSeed := rapid.Uint64().Draw(t, "nonceSeed")
		aToB := rapid.Bool().Draw(t, "aEncrypts")

		// third party (a different key), biased to scalars next to a's and b's.
		// x-only ECDH cannot tell d from n-d (both give the same shared X), so
		// "a different key" means a scalar other than +-a and +-b; the mirrored
		// scalars are not asserted (see notes/C41.md).
		var dc *big.Int
		switch rapid.IntRange(0, 3).Draw(t, "thirdClass") {
		case 0:
			dc = new(big.Int).Add(da, big.NewInt(1))
		case 1:
			dc = new(big.Int).Add(db, big.NewInt(1))
		default:
			dc = c41GenScalar(t, "c")
		}
		if dc.Cmp(c41N) >= 0 || dc.Sign() == 0 {
			dc = big.NewInt(7)
		}
		c, _ := c41KeyPair(t, "c", dc)

		keyAB := a.PrivateKey.Ecdh(pubB) // a's view
		keyBA := b.PrivateKey.Ecdh(pubA) // b's view
		enc, dec := keyAB, keyBA
		if !aToB {
			enc, dec = keyBA, keyAB
		}

		var ciphertext []byte
		var err error
		c41WithStream(nonceSeed, func() { ciphertext, err = enc.Encrypt(plaintext) })
		if err != nil {
			t.Fatalf("Encrypt failed: %v", err)
		}
		orig := append([]byte{}, ciphertext...)

		// 1. agreement + round trip (peer and own side)
		got, err := dec.Decrypt(ciphertext)
		if err != nil {
			t.Fatalf("peer cannot decrypt (keys differ?): a=%x b=%x err=%v", da, db, err)
		}
		if !bytes.Equal(got, plaintext) {
			t.Fatalf("peer decrypts to another plaintext: a=%x b=%x want %s got %s", da, db, c41Short(plaintext), c41Short(got))
		}
		got, err = enc.Decrypt(ciphertext)
		if err != nil || !bytes.Equal(got, plaintext) {
			t.Fatalf("encrypting side cannot decrypt its own ciphertext: a=%x b=%x err=%v", da, db, err)
		}
		if !bytes.Equal(orig, ciphertext) {
			t.Fatalf("Decrypt modified its input")
		}

		// 2. modifications of the ciphertext are rejected
		nMods := rapid.IntRange(1, 6).Draw(t, "mods")
		var modDescs []string
		for m := 0; m < nMods; m++ {
			mod := append([]byte{}, orig...)
			var desc string
			switch rapid.IntRange(0, 7).Draw(t, "modKind") {
			case 0, 1, 2: // single byte at a drawn offset, region-biased
				var off int
				switch rapid.IntRange(0, 3).Draw(t, "region") {
				case 0: // nonce
					off = rapid.IntRange(0, 23).Draw(t, "offNonce")
				case 1: // authenticator
					off = rapid.IntRange(24, 39).Draw(t, "offTag")
				case 2: // last byte
					off = len(mod) - 1
				default:
					off = rapid.IntRange(0, len(mod)-1).Draw(t, "off")
				}
				mask := byte(rapid.IntRange(1, 255).Draw(t, "xor"))
				if rapid.Bool().Draw(t, "singleBit") {
					mask = 1 << uint(rapid.IntRange(0, 7).Draw(t, "bit"))
				}
				mod[off] ^= mask
				desc = fmt.Sprintf("xor@%d:%02x", off, mask)
			case 3: // truncation (including below the nonce size and to nothing)
				var n int
				switch rapid.IntRange(0, 3).Draw(t, "truncClass") {
				case 0:
					n = rapid.IntRange(0, 24).Draw(t, "truncShort")
				case 1:
					n = rapid.IntRange(24, 40).Draw(t, "truncTag")
				case 2:
					n = len(mod) - 1
				default:
					n = rapid.IntRange(0, len(mod)-1).Draw(t, "trunc")
				}
				if n > len(mod)-1 {
					n = len(mod) - 1
				}
				mod = mod[:n]
				desc = fmt.Sprintf("trunc->%d", n)
			case 4: // extension
				extra := rapid.SliceOfN(rapid.Byte(), 1, 20).Draw(t, "extra")
				mod = append(mod, extra...)
				desc = fmt.Sprintf("append%d", len(extra))
			case 5: // a byte removed in the middle / inserted
				off := rapid.IntRange(0, len(mod)-1).Draw(t, "cutAt")
				mod = append(mod[:off:off], mod[off+1:]...)
				desc = fmt.Sprintf("cut@%d", off)
			case 6: // swap of two different bytes
				i := rapid.IntRange(0, len(mod)-1).Draw(t, "swapI")
				j := rapid.IntRange(0, len(mod)-1).Draw(t, "swapJ")
				if mod[i] == mod[j] {
					mod[i] ^= 0x80
				} else {
					mod[i], mod[j] = mod[j], mod[i]
				}
				desc = fmt.Sprintf("swap%d/%d", i, j)
			default: // nonce of another encryption of the same plaintext spliced in
				var other []byte
				c41WithStream(nonceSeed+1, func() { other, _ = enc.Encrypt(plaintext) })
				if len(other) >= 24 && !bytes.Equal(other[:24], mod[:24]) {
					copy(mod[:24], other[:24])
					desc = "foreign-nonce"
				} else {
					mod[0] ^= 1
					desc = "xor@0:01"
				}
			}
			if bytes.Equal(mod, orig) {
				t.Fatalf("harness error: modification %s left the ciphertext unchanged", desc)
			}
			out, err := dec.Decrypt(mod)
			if err == nil {
				t.Fatalf("modified ciphertext (%s, len %d of %d) accepted, plaintext %s -> %s; a=%x b=%x",
					desc, len(mod), len(orig), c41Short(plaintext), c41Short(out), da, db)
			}
			modDescs = append(modDescs, desc)
			st.Label("mod:" + c41Kind(desc))
		}

		// 3. a different key is rejected: the third party's channels with
		// either side, and either side's channel with the third party.
		thirdDistinct := true
		for _, own := range []*big.Int{da, db} {
			if dc.Cmp(own) == 0 || new(big.Int).Add(dc, own).Cmp(c41N) == 0 {
				thirdDistinct = false
			}
		}
		if thirdDistinct {
			others := map[string]*SymmetricEcdhKey{
				"c.Ecdh(A)": c.PrivateKey.Ecdh(pubA),
				"c.Ecdh(B)": c.PrivateKey.Ecdh(pubB),
				"a.Ecdh(C)": a.PrivateKey.Ecdh(c.PublicKey),
				"b.Ecdh(C)": b.PrivateKey.Ecdh(c.PublicKey),
			}
			for _, name := range []string{"c.Ecdh(A)", "c.Ecdh(B)", "a.Ecdh(C)", "b.Ecdh(C)"} {
				// a.Ecdh(C) is a legitimate other channel; it equals the a-b
				// channel only if C == B (excluded above) - all four must fail.
				if out, err := others[name].Decrypt(orig); err == nil {
					t.Fatalf("%s decrypts the a-b ciphertext (-> %s); a=%x b=%x c=%x", name, c41Short(out), da, db, dc)
				}
			}
			// and the other way round: what the third party encrypts for a
			// is not readable with the a-b key
			var foreign []byte
			c41WithStream(nonceSeed+2, func() { foreign, _ = others["c.Ecdh(A)"].Encrypt(plaintext) })
			if out, err := keyAB.Decrypt(foreign); err == nil {
				t.Fatalf("a-b key decrypts a ciphertext of the c-a channel (-> %s); a=%x b=%x c=%x", c41Short(out), da, db, dc)
			}
			// while a's own channel with c does read it (agreement again)
			if out, err := others["a.Ecdh(C)"].Decrypt(foreign); err != nil || !bytes.Equal(out, plaintext) {
				t.Fatalf("a.Ecdh(C) cannot read what c.Ecdh(A) encrypted: %v; a=%x c=%x", err, da, dc)
			}
		}

		nt := !sameKeys && thirdDistinct
		st.Label("enc:" + encA)
		st.Label("enc:" + encB)
		st.Case(nt, fmt.Sprintf("a=%x(%s) b=%x(%s) c=%x wire=%v a->b=%v pt=%s mods=%v", da, encA, db, encB, dc, viaWire, aToB, c41Short(plaintext), modDescs),
			fmt.Sprintf("pt:%s", c41LenClass(len(plaintext))), fmt.Sprintf("wire:%v", viaWire), fmt.Sprintf("third-distinct:%v", thirdDistinct),
			fmt.Sprintf("same-scalars:%v", sameKeys))
	})
}

func c41Kind(desc string) string {
	for i, r := range desc {
		if r == '@' || r == '-' || (r >= '0' && r <= '9') {
			return desc[:i]
		}
	}
	return desc
}

func c41LenClass(n int) string {
	switch {
	case n == 0:
		return "empty"
	case n <= 64:
		return "1..64"
	case n <= 300:
		return "65..300"
	case n < 65536:
		return "4K..64K-1"
	default:
		return "64K"
	}
}

// TestVerif_C41_KeyMatching: IsKeyMatching(priv) is true exactly when priv
// generates the public key. The reference is the scalar relation the harness
// built the pair from: pub = e*G, so priv d matches iff d == e (mod n).
func TestVerif_C41_KeyMatching(t *testing.T) {
	st := verifkit.New("C41", "TestVerif_C41_KeyMatching")
	defer st.Flush()
	rapid.Check(t, func(t *rapid.T) {
		e := c41GenScalar(t, "pub")
		pub := c41PublicOf(e)
		viaWire := rapid.Bool().Draw(t, "viaWire")
		if viaWire {
			var err error
			if pub, err = UnmarshalPublicKey(pub.Marshal()); err != nil {
				t.Fatalf("Unmarshal(Marshal(pub)) failed for scalar %x: %v", e, err)
			}
		}
		// the revealed private key
		var d *big.Int
		var class string
		switch rapid.IntRange(0, 7).Draw(t, "privClass") {
		case 0, 1:
			d, class = new(big.Int).Set(e), "same"
		case 2:
			d, class = new(big.Int).Sub(c41N, e), "negated" // -e: same X, other Y
		case 3:
			d, class = new(big.Int).Add(e, big.NewInt(1)), "plus1"
		case 4:
			d, class = new(big.Int).Sub(e, big.NewInt(1)), "minus1"
		case 5:
			// one bit of the 32-byte form flipped
			d = new(big.Int).Set(e)
			bit := rapid.IntRange(0, 255).Draw(t, "bit")
			d.SetBit(d, bit, d.Bit(bit)^1)
			class = "bitflip"
		default:
			d, class = c41GenScalar(t, "other"), "other"
		}
		if d.Sign() <= 0 || d.Cmp(c41N) >= 0 {
			d, class = big.NewInt(3), "other"
		}
		raw, enc := c41GenEncoding(t, "priv", d)
		if rapid.IntRange(0, 7).Draw(t, "trailingBytes") == 0 {
			// the key followed by more bytes is another, larger number; like every
			// over-long number it stands for its residue modulo the group order
			raw = append(append([]byte{}, raw...), rapid.SliceOfN(rapid.Byte(), 1, 3).Draw(t, "trailing")...)
			d = new(big.Int).Mod(new(big.Int).SetBytes(raw), c41N)
			if d.Sign() == 0 {
				raw, d = c41Pad32(big.NewInt(3)), big.NewInt(3)
			}
			class, enc = "with-trailing-bytes", "longer-number"
		}
		classLabel, encLabel := "priv:"+class, "enc:"+enc
		class += "/" + enc
		expected := d.Cmp(e) == 0
		priv := UnmarshalPrivateKey(raw)
		if rapid.Bool().Draw(t, "privViaWire") {
			priv = UnmarshalPrivateKey(priv.Marshal())
		}
		if rapid.IntRange(0, 3).Draw(t, "forgedEmbed") == 0 {
			// a private key value whose embedded public half claims to be the
			// public key under test while its scalar is d: only the scalar
			// decides whether it "generates" the public key.
			priv = &PrivateKey{PublicKey: ecdsa.PublicKey{Curve: btcec.S256(), X: new(big.Int).Set(pub.X), Y: new(big.Int).Set(pub.Y)}, D: new(big.Int).Set(d)}
			class += "+forged-embed"
		}
		got := pub.IsKeyMatching(priv)
		if got != expected {
			t.Fatalf("IsKeyMatching = %v, expected %v: public key of scalar %x, revealed private key %x (%s)", got, expected, e, d, class)
		}
		// metamorphic: the key pair the private key generates always matches
		if !c41PublicOf(d).IsKeyMatching(priv) {
			t.Fatalf("private key %x does not match the public key it generates", d)
		}
		// the "negated" public key (X, p-Y) is a different valid key: the
		// private key must not be recognised for it, -d must be.
		negPub := &PublicKey{Curve: btcec.S256(), X: new(big.Int).Set(pub.X), Y: new(big.Int).Sub(c41P, pub.Y)}
		wantNeg := new(big.Int).Add(d, e).Cmp(c41N) == 0
		if gotNeg := negPub.IsKeyMatching(priv); gotNeg != wantNeg {
			t.Fatalf("IsKeyMatching on the mirrored public key (same X, other Y) = %v, expected %v: scalar %x, private key %x", gotNeg, wantNeg, e, d)
		}
		st.Case(!expected, fmt.Sprintf("pub=%x priv=%x %s wire=%v -> %v", e, d, class, viaWire, got), classLabel, encLabel, fmt.Sprintf("match:%v", got))
	})
}

// TestVerif_C41_GeneratedPairs: pairs from GenerateKeyPair (real crypto
// randomness: the structure is rapid-drawn, the key bytes are not; the oracle
// holds for whatever was drawn).
func TestVerif_C41_GeneratedPairs(t *testing.T) {
	st := verifkit.New("C41", "TestVerif_C41_GeneratedPairs")
	defer st.Flush()
	rapid.Check(t, func(t *rapid.T) {
		a, err := GenerateKeyPair()
		if err != nil {
			t.Fatalf("GenerateKeyPair: %v", err)
		}
		b, err := GenerateKeyPair()
		if err != nil {
			t.Fatalf("GenerateKeyPair: %v", err)
		}
		if !a.PublicKey.IsKeyMatching(a.PrivateKey) || !b.PublicKey.IsKeyMatching(b.PrivateKey) {
			t.Fatalf("generated private key does not match its public key")
		}
		if a.PublicKey.IsKeyMatching(b.PrivateKey) || b.PublicKey.IsKeyMatching(a.PrivateKey) {
			t.Fatalf("private key of another generated pair recognised as matching")
		}
		plaintext := c41GenPlaintext(t)
		pubB, err := UnmarshalPublicKey(b.PublicKey.Marshal())
		if err != nil {
			t.Fatalf("UnmarshalPublicKey: %v", err)
		}
		privB := UnmarshalPrivateKey(b.PrivateKey.Marshal())
		ct, err := a.PrivateKey.Ecdh(pubB).Encrypt(plaintext)
		if err != nil {
			t.Fatalf("Encrypt: %v", err)
		}
		out, err := privB.Ecdh(a.PublicKey).Decrypt(ct)
		if err != nil || !bytes.Equal(out, plaintext) {
			t.Fatalf("generated pairs do not agree on the key: %v", err)
		}
		off := rapid.IntRange(0, len(ct)-1).Draw(t, "off")
		mask := byte(rapid.IntRange(1, 255).Draw(t, "xor"))
		ct[off] ^= mask
		if _, err := privB.Ecdh(a.PublicKey).Decrypt(ct); err == nil {
			t.Fatalf("modified ciphertext accepted (xor@%d:%02x)", off, mask)
		}
		st.Case(true, fmt.Sprintf("pt=%s xor@%d:%02x", c41Short(plaintext), off, mask), "pt:"+c41LenClass(len(plaintext)))
	})
}
