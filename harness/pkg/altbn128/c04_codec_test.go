//go:build go1.23

package altbn128

import (
	"bytes"
	"encoding/hex"
	"fmt"
	"math/big"
	"os"
	"strings"
	"sync"
	"testing"
	"time"

	bn256 "github.com/ethereum/go-ethereum/crypto/bn256/cloudflare"
	"github.com/keep-network/keep-core/internal/verifkit"
	"pgregory.net/rapid"
)

// ---------------------------------------------------------------------------
// Independent model of BN254 (alt_bn128): constants written out, plain big.Int
// arithmetic, square roots by other methods than the code under test uses
// (Fp: exponent (p+1)/4; Fp2: the "complex" method through the norm).
// Fp2 = Fp[i]/(i^2+1); an element is re + im*i.

var (
	c04P, _ = new(big.Int).SetString("21888242871839275222246405745257275088696311157297823662689037894645226208583", 10)
	c04R, _ = new(big.Int).SetString("21888242871839275222246405745257275088548364400416034343698204186575808495617", 10)
	// b' = 3/(9+i) of the sextic twist y^2 = x^3 + b'
	c04TwistBRe, _ = new(big.Int).SetString("19485874751759354771024239261021720505790618469301721065564631296452457478373", 10)
	c04TwistBIm, _ = new(big.Int).SetString("266929791119991161246907387137283842545076965332900288569378510910307636690", 10)
	c04SqrtExp     = new(big.Int).Rsh(new(big.Int).Add(c04P, big.NewInt(1)), 2) // (p+1)/4
)

const (
	c04D3  = "D3-g2-sqrt-nontermination"
	c04D11 = "D11-g2-real-y-panic"
)

type c04F2 struct{ re, im *big.Int }

func c04Mod(v *big.Int) *big.Int { return v.Mod(v, c04P) }

func c04F2Mul(a, b c04F2) c04F2 {
	re := new(big.Int).Sub(new(big.Int).Mul(a.re, b.re), new(big.Int).Mul(a.im, b.im))
	im := new(big.Int).Add(new(big.Int).Mul(a.re, b.im), new(big.Int).Mul(a.im, b.re))
	return c04F2{c04Mod(re), c04Mod(im)}
}

func c04F2Add(a, b c04F2) c04F2 {
	return c04F2{c04Mod(new(big.Int).Add(a.re, b.re)), c04Mod(new(big.Int).Add(a.im, b.im))}
}

func c04F2Eq(a, b c04F2) bool { return a.re.Cmp(b.re) == 0 && a.im.Cmp(b.im) == 0 }

// square root in Fp (p = 3 mod 4); nil when a is not a square
func c04FpSqrt(a *big.Int) *big.Int {
	a = new(big.Int).Mod(a, c04P)
	s := new(big.Int).Exp(a, c04SqrtExp, c04P)
	if new(big.Int).Mod(new(big.Int).Mul(s, s), c04P).Cmp(a) != 0 {
		return nil
	}
	return s
}

// square root in Fp2, nil when z is not a square. Returns one of the two roots.
func c04F2Sqrt(z c04F2) *c04F2 {
	zero := big.NewInt(0)
	if z.im.Sign() == 0 {
		if s := c04FpSqrt(z.re); s != nil {
			return &c04F2{s, new(big.Int)}
		}
		s := c04FpSqrt(new(big.Int).Neg(z.re)) // -1 is a non-residue: exists
		return &c04F2{new(big.Int), s}
	}
	norm := new(big.Int).Add(new(big.Int).Mul(z.re, z.re), new(big.Int).Mul(z.im, z.im))
	n := c04FpSqrt(norm)
	if n == nil {
		return nil // z is a square in Fp2 iff its norm is a square in Fp
	}
	inv2 := new(big.Int).ModInverse(big.NewInt(2), c04P)
	t := c04Mod(new(big.Int).Mul(new(big.Int).Add(z.re, n), inv2))
	x0 := c04FpSqrt(t)
	if x0 == nil || x0.Cmp(zero) == 0 {
		t = c04Mod(new(big.Int).Mul(new(big.Int).Sub(z.re, n), inv2))
		x0 = c04FpSqrt(t)
	}
	if x0 == nil || x0.Sign() == 0 {
		return nil
	}
	y0 := c04Mod(new(big.Int).Mul(z.im, new(big.Int).ModInverse(new(big.Int).Lsh(x0, 1), c04P)))
	root := c04F2{x0, y0}
	if !c04F2Eq(c04F2Mul(root, root), c04F2{new(big.Int).Mod(z.re, c04P), new(big.Int).Mod(z.im, c04P)}) {
		return nil
	}
	return &root
}

func c04Pad32(v *big.Int) []byte {
	out := make([]byte, 32)
	b := v.Bytes()
	copy(out[32-len(b):], b)
	return out
}

// --- model of G1 decompression ------------------------------------------------
// returns the 64-byte uncompressed point the input stands for, or nil when the
// input is not the compression of any point (x >= p or x^3+3 not a square).
func c04ModelG1(m []byte) []byte {
	x := new(big.Int).SetBytes(append([]byte{m[0] & 0x7f}, m[1:]...))
	if x.Cmp(c04P) >= 0 {
		return nil
	}
	y := c04FpSqrt(new(big.Int).Add(new(big.Int).Exp(x, big.NewInt(3), c04P), big.NewInt(3)))
	if y == nil {
		return nil
	}
	if y.Sign() == 0 {
		return nil // no point of order 2 exists; unreachable
	}
	if byte(y.Bit(0)) != m[0]>>7 {
		y = new(big.Int).Sub(c04P, y)
	}
	return append(c04Pad32(x), c04Pad32(y)...)
}

// --- model of G2 decompression ------------------------------------------------
type c04G2Verdict struct {
	class    string // range, off-curve, real-y, off-subgroup, valid
	expected []byte // 128-byte uncompressed point when class == valid
	loops    bool   // x^3+b' is a non-residue: a root search can never succeed
}

func c04ModelG2(m []byte) c04G2Verdict {
	xim := new(big.Int).SetBytes(append([]byte{m[0] & 0x7f}, m[1:32]...))
	xre := new(big.Int).SetBytes(m[32:64])
	outOfRange := xim.Cmp(c04P) >= 0 || xre.Cmp(c04P) >= 0
	x := c04F2{new(big.Int).Mod(xre, c04P), new(big.Int).Mod(xim, c04P)}
	z := c04F2Add(c04F2Mul(c04F2Mul(x, x), x), c04F2{c04TwistBRe, c04TwistBIm})
	y := c04F2Sqrt(z)
	if y == nil {
		cl := "off-curve"
		if outOfRange {
			cl = "range+off-curve"
		}
		return c04G2Verdict{class: cl, loops: true}
	}
	if outOfRange {
		return c04G2Verdict{class: "range"}
	}
	if y.im.Sign() == 0 {
		// the format stores the parity of the imaginary part of y: with a zero
		// imaginary part the two roots cannot be told apart
		return c04G2Verdict{class: "real-y"}
	}
	if byte(y.im.Bit(0)) != m[0]>>7 {
		y = &c04F2{c04Mod(new(big.Int).Sub(c04P, y.re)), c04Mod(new(big.Int).Sub(c04P, y.im))}
	}
	full := append(append(append(c04Pad32(x.im), c04Pad32(x.re)...), c04Pad32(y.im)...), c04Pad32(y.re)...)
	// subgroup membership is decided by the bn256 library (not by altbn128)
	if _, err := new(bn256.G2).Unmarshal(full); err != nil {
		return c04G2Verdict{class: "off-subgroup"}
	}
	return c04G2Verdict{class: "valid", expected: full}
}

// ---------------------------------------------------------------------------
// Watchdog. A decompression takes a few milliseconds. A call that has not
// returned after c04FirstWait is started again on a fresh goroutine and given
// c04SecondWait; non-termination is reported only when both expire AND the
// model says the square-root search cannot succeed for this input (otherwise
// the run is inconclusive). A spinning goroutine cannot be stopped, so the
// process ends at once: the input is written as the replay artifact.

const (
	c04FirstWait  = 10 * time.Second
	c04SecondWait = 20 * time.Second
)

type c04Outcome struct {
	marshalled []byte
	err        error
	panicked   interface{}
}

func c04Run(f func() ([]byte, error), wait time.Duration) (c04Outcome, bool) {
	ch := make(chan c04Outcome, 1)
	go func() {
		var o c04Outcome
		defer func() {
			if r := recover(); r != nil {
				o.panicked = r
			}
			ch <- o
		}()
		o.marshalled, o.err = f()
	}()
	select {
	case o := <-ch:
		return o, true
	case <-time.After(wait):
		return c04Outcome{}, false
	}
}

// c04Guarded runs f under the watchdog. provablyEndless is the model's verdict.
func c04Guarded(st *verifkit.Stats, test string, input []byte, provablyEndless bool, f func() ([]byte, error)) c04Outcome {
	o, done := c04Run(f, c04FirstWait)
	if done {
		return o
	}
	o, done = c04Run(f, c04SecondWait)
	if done || !provablyEndless {
		fmt.Printf("VERIF-INCONCLUSIVE: %s: a call on input %x exceeded the %v watchdog (second attempt finished=%v, model says endless=%v)\n",
			test, input, c04FirstWait, done, provablyEndless)
		st.Flush()
		os.Exit(2)
	}
	path := verifkit.ViolationFile(test+".input", []byte(hex.EncodeToString(input)+"\n"))
	fmt.Printf("--- FAIL: %s\n    decompression of the well-sized input %x did not return within %v and again within %v; "+
		"x^3+b is not a square for this x, so the root search can never succeed (non-termination) [finding-key=%s]\n    replay artifact: %s\nFAIL\n",
		test, input, c04FirstWait, c04SecondWait, c04D3, path)
	st.Flush()
	os.Exit(1)
	return o
}

// replay of a non-termination artifact (./check C04 --replay <file>.input)
func c04ReplayInput() []byte {
	p := os.Getenv("VERIF_REPLAY")
	if !strings.HasSuffix(p, ".input") {
		return nil
	}
	raw, err := os.ReadFile(p)
	if err != nil {
		fmt.Printf("VERIF-INCONCLUSIVE: cannot read replay file %s: %v\n", p, err)
		os.Exit(2)
	}
	b, err := hex.DecodeString(strings.TrimSpace(strings.SplitN(string(raw), "\n", 2)[0]))
	if err != nil {
		fmt.Printf("VERIF-INCONCLUSIVE: replay file %s is not hex: %v\n", p, err)
		os.Exit(2)
	}
	return b
}

// ---------------------------------------------------------------------------
// generators

func c04GenScalar(t *rapid.T, label string) *big.Int {
	switch rapid.IntRange(0, 11).Draw(t, label+"Class") {
	case 0:
		return big.NewInt(int64(rapid.IntRange(1, 16).Draw(t, label+"Small")))
	case 1:
		return new(big.Int).Sub(c04R, big.NewInt(int64(rapid.IntRange(1, 16).Draw(t, label+"NearR"))))
	case 2:
		return new(big.Int).Lsh(big.NewInt(1), uint(rapid.IntRange(1, 253).Draw(t, label+"PowerOfTwo")))
	default:
		b := rapid.SliceOfN(rapid.Byte(), 32, 32).Draw(t, label+"Bytes")
		v := new(big.Int).SetBytes(b)
		v.Mod(v, new(big.Int).Sub(c04R, big.NewInt(1)))
		return v.Add(v, big.NewInt(1))
	}
}

func c04Abbrev(b []byte) string {
	s := hex.EncodeToString(b)
	if len(s) > 24 {
		return s[:12] + ".." + s[len(s)-8:]
	}
	return s
}

var c04IdentityOnce sync.Once

// ---- ownership of results ------------------------------------------------------
// A caller owns what it gets back: the bn256 API works in place (p.Neg(p),
// p.Add(p, q), p.ScalarMult(p, k)), so using a returned point - or scribbling
// over a returned / passed byte slice - must not change what the same input
// yields the next time, nor what another caller already holds.

// c04UseG1 overwrites p with something else through the in-place API.
func c04UseG1(p *bn256.G1, op int, k *big.Int) string {
	switch op % 5 {
	case 0:
		p.Neg(p)
		return "neg"
	case 1:
		p.Add(p, new(bn256.G1).ScalarBaseMult(k))
		return "add"
	case 2:
		p.ScalarMult(p, new(big.Int).Add(k, big.NewInt(1)))
		return "scalar-mult"
	case 3:
		p.ScalarBaseMult(k)
		return "overwrite"
	default:
		p.Add(p, p)
		return "double"
	}
}

func c04UseG2(p *bn256.G2, op int, k *big.Int) string {
	switch op % 5 {
	case 0:
		p.Neg(p)
		return "neg"
	case 1:
		p.Add(p, new(bn256.G2).ScalarBaseMult(k))
		return "add"
	case 2:
		p.ScalarMult(p, new(big.Int).Add(k, big.NewInt(1)))
		return "scalar-mult"
	case 3:
		p.ScalarBaseMult(k)
		return "overwrite"
	default:
		p.Add(p, p)
		return "double"
	}
}

func c04GenUse(t *rapid.T, label string) (int, *big.Int) {
	return rapid.IntRange(0, 4).Draw(t, label+"Use"), big.NewInt(int64(rapid.IntRange(1, 1000).Draw(t, label+"UseScalar")))
}

func c04Scribble(b []byte) {
	for i := range b {
		b[i] ^= 0xa5
	}
}

// c04Unstable is returned by the guarded calls when the same input decoded to
// something else after the caller used the first result.
type c04Unstable struct{ msg string }

func (e *c04Unstable) Error() string { return e.msg }

// TestVerif_C04_RoundTripG1: Decompress(Compress(k*G1)) == k*G1; the other
// parity bit decodes to -k*G1; the model agrees with the encoding.
func TestVerif_C04_RoundTripG1(t *testing.T) {
	st := verifkit.New("C04", "TestVerif_C04_RoundTripG1")
	defer st.Flush()
	c04IdentityOnce.Do(func() {
		func() {
			defer func() {
				if r := recover(); r != nil {
					st.Note("outside the domain (observed, not asserted): G1Point.Compress of the identity point panics: %v", r)
				}
			}()
			c := G1Point{new(bn256.G1).ScalarBaseMult(new(big.Int).Set(c04R))}.Compress()
			st.Note("outside the domain (observed, not asserted): identity point compresses to %x", c)
		}()
	})
	rapid.Check(t, func(t *rapid.T) {
		k := c04GenScalar(t, "k")
		p := new(bn256.G1).ScalarBaseMult(k)
		c := G1Point{p}.Compress()
		if len(c) != 32 {
			t.Fatalf("compressed G1 point has %d bytes", len(c))
		}
		if c2 := (G1Point{p}).Compress(); !bytes.Equal(c, c2) {
			t.Fatalf("Compress is not deterministic for k=%x", k)
		}
		q, err := DecompressToG1(c)
		if err != nil {
			t.Fatalf("DecompressToG1(Compress(%x*G1)) failed: %v (compressed %x)", k, err, c)
		}
		if !bytes.Equal(q.Marshal(), p.Marshal()) {
			t.Fatalf("G1 round trip changed the point: k=%x compressed=%x\n in  %x\n out %x", k, c, p.Marshal(), q.Marshal())
		}
		// the caller owns q and c: using q in place / scribbling over c changes nothing
		pBytes := p.Marshal()
		useOp, useK := c04GenUse(t, "g1")
		how := c04UseG1(q, useOp, useK)
		saved := append([]byte{}, c...)
		if q2, err := DecompressToG1(saved); err != nil || !bytes.Equal(q2.Marshal(), pBytes) {
			t.Fatalf("DecompressToG1(%x) gives another result (err %v) after the caller applied %s to the first result", saved, err, how)
		}
		c04Scribble(c)
		if !bytes.Equal(p.Marshal(), pBytes) {
			t.Fatalf("scribbling over the compressed bytes changed the point they were compressed from (k=%x)", k)
		}
		if c3 := (G1Point{p}).Compress(); !bytes.Equal(c3, saved) {
			t.Fatalf("Compress(%x*G1) gives %x after the caller overwrote the earlier result %x", k, c3, saved)
		}
		c = saved
		// the encoding is what the model decodes to the same point
		if want := c04ModelG1(c); !bytes.Equal(want, p.Marshal()) {
			t.Fatalf("compression %x of %x*G1 does not stand for that point (x plus parity of y): model decodes %x, point %x", c, k, want, p.Marshal())
		}
		// metamorphic: the other parity bit is the negated point
		flipped := append([]byte{}, c...)
		flipped[0] ^= 0x80
		n, err := DecompressToG1(flipped)
		if err != nil {
			t.Fatalf("DecompressToG1 of %x (parity bit of a valid compression flipped) failed: %v", flipped, err)
		}
		if neg := new(bn256.G1).Neg(p); !bytes.Equal(n.Marshal(), neg.Marshal()) {
			t.Fatalf("flipping the parity bit of Compress(%x*G1) does not give the negated point", k)
		}
		if rc := (G1Point{n}).Compress(); !bytes.Equal(rc, flipped) {
			t.Fatalf("Compress(Decompress(%x)) = %x", flipped, rc)
		}
		st.Case(true, fmt.Sprintf("k=%x -> %x", k, c), fmt.Sprintf("parity-bit:%d", c[0]>>7))
	})
}

// TestVerif_C04_RoundTripG2: the same for G2.
func TestVerif_C04_RoundTripG2(t *testing.T) {
	st := verifkit.New("C04", "TestVerif_C04_RoundTripG2")
	defer st.Flush()
	rapid.Check(t, func(t *rapid.T) {
		k := c04GenScalar(t, "k")
		p := new(bn256.G2).ScalarBaseMult(k)
		c := G2Point{p}.Compress()
		if len(c) != 64 {
			t.Fatalf("compressed G2 point has %d bytes", len(c))
		}
		q, err := DecompressToG2(c)
		if err != nil {
			t.Fatalf("DecompressToG2(Compress(%x*G2)) failed: %v (compressed %x)", k, err, c)
		}
		if !bytes.Equal(q.Marshal(), p.Marshal()) {
			t.Fatalf("G2 round trip changed the point: k=%x compressed=%x\n in  %x\n out %x", k, c, p.Marshal(), q.Marshal())
		}
		// the caller owns q and c: using q in place / scribbling over c changes nothing
		pBytes := p.Marshal()
		useOp, useK := c04GenUse(t, "g2")
		how := c04UseG2(q, useOp, useK)
		saved := append([]byte{}, c...)
		if q2, err := DecompressToG2(saved); err != nil || !bytes.Equal(q2.Marshal(), pBytes) {
			t.Fatalf("DecompressToG2(%x) gives another result (err %v) after the caller applied %s to the first result", saved, err, how)
		}
		c04Scribble(c)
		if !bytes.Equal(p.Marshal(), pBytes) {
			t.Fatalf("scribbling over the compressed bytes changed the point they were compressed from (k=%x)", k)
		}
		if c3 := (G2Point{p}).Compress(); !bytes.Equal(c3, saved) {
			t.Fatalf("Compress(%x*G2) gives %x after the caller overwrote the earlier result", k, c3)
		}
		c = saved
		if v := c04ModelG2(c); v.class != "valid" || !bytes.Equal(v.expected, p.Marshal()) {
			t.Fatalf("compression %x of %x*G2 does not stand for that point (x plus parity of y): model says %s", c, k, v.class)
		}
		flipped := append([]byte{}, c...)
		flipped[0] ^= 0x80
		n, err := DecompressToG2(flipped)
		if err != nil {
			t.Fatalf("DecompressToG2 of %x (parity bit of a valid compression flipped) failed: %v", flipped, err)
		}
		if neg := new(bn256.G2).Neg(p); !bytes.Equal(n.Marshal(), neg.Marshal()) {
			t.Fatalf("flipping the parity bit of Compress(%x*G2) does not give the negated point", k)
		}
		if rc := (G2Point{n}).Compress(); !bytes.Equal(rc, flipped) {
			t.Fatalf("Compress(Decompress(%x)) = %x", flipped, rc)
		}
		st.Case(true, fmt.Sprintf("k=%x -> %s", k, c04Abbrev(c)), fmt.Sprintf("parity-bit:%d", c[0]>>7))
	})
}

// TestVerif_C04_HashToPoint: deterministic, and the result is a point of the
// curve y^2 = x^3 + 3 (checked with plain arithmetic and by the bn256 decoder).
func TestVerif_C04_HashToPoint(t *testing.T) {
	st := verifkit.New("C04", "TestVerif_C04_HashToPoint")
	defer st.Flush()
	rapid.Check(t, func(t *rapid.T) {
		var m []byte
		class := ""
		switch rapid.IntRange(0, 11).Draw(t, "messageClass") {
		case 0:
			if rapid.IntRange(0, 3).Draw(t, "emptyMessage") == 0 {
				m, class = []byte{}, "empty"
			} else {
				m, class = rapid.SliceOfN(rapid.Byte(), 2, 3).Draw(t, "shortMessage"), "short"
			}
		case 1, 3:
			n := rapid.SampledFrom([]int{1000, 4096, 70000}).Draw(t, "longLen")
			fill := rapid.Byte().Draw(t, "fill")
			m = bytes.Repeat([]byte{fill}, n)
			m[rapid.IntRange(0, n-1).Draw(t, "twistAt")] ^= byte(rapid.IntRange(0, 255).Draw(t, "twist"))
			class = "long"
		case 2:
			m, class = []byte{byte(rapid.IntRange(0, 255).Draw(t, "oneByte"))}, "one-byte"
		default:
			m, class = rapid.SliceOfN(rapid.Byte(), 1, 100).Draw(t, "message"), "random"
		}
		var nilCase bool
		if len(m) == 0 && rapid.Bool().Draw(t, "nilSlice") {
			m, nilCase = nil, true
		}
		p1 := G1HashToPoint(m)
		p2 := G1HashToPoint(append([]byte{}, m...))
		if p1 == nil || p2 == nil {
			t.Fatalf("G1HashToPoint(%s) returned nil", c04Abbrev(m))
		}
		b := p1.Marshal()
		if !bytes.Equal(b, p2.Marshal()) {
			t.Fatalf("G1HashToPoint(%s) is not deterministic: %x vs %x", c04Abbrev(m), b, p2.Marshal())
		}
		x, y := new(big.Int).SetBytes(b[:32]), new(big.Int).SetBytes(b[32:])
		if x.Cmp(c04P) >= 0 || y.Cmp(c04P) >= 0 {
			t.Fatalf("G1HashToPoint(%s): coordinate not reduced", c04Abbrev(m))
		}
		if x.Sign() == 0 && y.Sign() == 0 {
			t.Fatalf("G1HashToPoint(%s) is the point at infinity", c04Abbrev(m))
		}
		lhs := new(big.Int).Exp(y, big.NewInt(2), c04P)
		rhs := c04Mod(new(big.Int).Add(new(big.Int).Exp(x, big.NewInt(3), c04P), big.NewInt(3)))
		if lhs.Cmp(rhs) != 0 {
			t.Fatalf("G1HashToPoint(%s) = (%x, %x) is not on y^2 = x^3 + 3", c04Abbrev(m), x, y)
		}
		if _, err := new(bn256.G1).Unmarshal(b); err != nil {
			t.Fatalf("G1HashToPoint(%s) does not re-unmarshal: %v", c04Abbrev(m), err)
		}
		// a different message gives a different point (sanity of "hashing")
		other := G1HashToPoint(append(append([]byte{}, m...), 0x01))
		if bytes.Equal(other.Marshal(), b) {
			t.Fatalf("G1HashToPoint(m) == G1HashToPoint(m||01) for m=%s", c04Abbrev(m))
		}
		// and it compresses / decompresses like any other point
		if q, err := DecompressToG1(G1Point{p1}.Compress()); err != nil || !bytes.Equal(q.Marshal(), b) {
			t.Fatalf("hash point of %s does not survive the compression round trip: %v", c04Abbrev(m), err)
		}
		// "deterministically": the same bytes hash to the same point however the
		// callers used the points they were given before (two rounds), and a
		// point already handed out does not change when another one is used
		mCopy := append([]byte{}, m...)
		var uses []string
		victim := p1
		for round := 0; round < 2; round++ {
			useOp, useK := c04GenUse(t, fmt.Sprintf("hash%d", round))
			uses = append(uses, c04UseG1(victim, useOp, useK))
			if round == 0 && !bytes.Equal(p2.Marshal(), b) {
				t.Fatalf("the point a second caller got for %s changed when the first caller applied %s to its own", c04Abbrev(mCopy), uses[0])
			}
			again := G1HashToPoint(append([]byte{}, mCopy...))
			if again == nil || !bytes.Equal(again.Marshal(), b) {
				t.Fatalf("G1HashToPoint(%s) is not deterministic: %x first, %x after callers applied %v to points hashed earlier", c04Abbrev(mCopy), b, again.Marshal(), uses)
			}
			victim = again
		}
		if len(m) > 0 {
			// the message buffer belongs to the caller as well
			held := G1HashToPoint(m)
			c04Scribble(m)
			if !bytes.Equal(held.Marshal(), b) {
				t.Fatalf("overwriting the message buffer changed the point hashed from it")
			}
			if again := G1HashToPoint(mCopy); !bytes.Equal(again.Marshal(), b) {
				t.Fatalf("G1HashToPoint(%s) changed after the caller overwrote an earlier message buffer", c04Abbrev(mCopy))
			}
			m = mCopy
		}
		st.Case(true, fmt.Sprintf("m=%s(%d) -> %s uses=%v", c04Abbrev(m), len(m), c04Abbrev(b), uses), "message:"+class, fmt.Sprintf("nil-slice:%v", nilCase), "use:"+uses[0])
	})
}

// ---- arbitrary well-sized inputs ----------------------------------------------

func c04GenG1Input(t *rapid.T) ([]byte, string) {
	switch rapid.IntRange(0, 5).Draw(t, "inputClass") {
	case 0: // anything
		return rapid.SliceOfN(rapid.Byte(), 32, 32).Draw(t, "bytes"), "random-bytes"
	case 1: // x below p
		v := new(big.Int).SetBytes(rapid.SliceOfN(rapid.Byte(), 32, 32).Draw(t, "xBytes"))
		b := c04Pad32(v.Mod(v, c04P))
		if rapid.Bool().Draw(t, "parity") {
			b[0] |= 0x80
		}
		return b, "x<p"
	case 2: // edges
		e := rapid.SampledFrom([]string{"zero", "ones", "p", "p-1", "p+1", "one", "two", "bit6", "top-only"}).Draw(t, "edge")
		var b []byte
		switch e {
		case "zero":
			b = make([]byte, 32)
		case "ones":
			b = bytes.Repeat([]byte{0xff}, 32)
		case "p":
			b = c04Pad32(c04P)
		case "p-1":
			b = c04Pad32(new(big.Int).Sub(c04P, big.NewInt(1)))
		case "p+1":
			b = c04Pad32(new(big.Int).Add(c04P, big.NewInt(1)))
		case "one":
			b = c04Pad32(big.NewInt(1))
		case "two":
			b = c04Pad32(big.NewInt(2))
		case "bit6":
			b = make([]byte, 32)
			b[0] = 0x40
			b[31] = 1
		default:
			b = make([]byte, 32)
			b[0] = 0x80
		}
		if rapid.Bool().Draw(t, "edgeParity") {
			b[0] ^= 0x80
		}
		return b, "edge:" + e
	default: // structure-aware mutation of a valid compression
		k := c04GenScalar(t, "k")
		b := G1Point{new(bn256.G1).ScalarBaseMult(k)}.Compress()
		mut := rapid.SampledFrom([]string{"none", "parity", "x+1", "x-1", "bit6", "x+p", "byte", "bit"}).Draw(t, "mutation")
		c04Mutate(t, b, 0, mut)
		return b, "mutated:" + mut
	}
}

// mutates the 32-byte big-endian field at off of b (the parity bit lives in b[0]).
func c04Mutate(t *rapid.T, b []byte, off int, mut string) {
	field := b[off : off+32]
	top := byte(0)
	if off == 0 {
		top = field[0] & 0x80
	}
	val := func() *big.Int {
		c := append([]byte{}, field...)
		if off == 0 {
			c[0] &= 0x7f
		}
		return new(big.Int).SetBytes(c)
	}
	put := func(v *big.Int) {
		v.Mod(v, new(big.Int).Lsh(big.NewInt(1), 256))
		copy(field, c04Pad32(v))
		if off == 0 {
			field[0] = field[0]&0x7f | top
		}
	}
	switch mut {
	case "parity":
		b[0] ^= 0x80
	case "x+1":
		put(new(big.Int).Add(val(), big.NewInt(1)))
	case "x-1":
		put(new(big.Int).Sub(val(), big.NewInt(1)))
	case "bit6":
		field[0] |= 0x40
	case "x+p":
		put(new(big.Int).Add(val(), c04P))
	case "byte":
		i := rapid.IntRange(0, 31).Draw(t, "mutByteAt")
		field[i] = byte(rapid.IntRange(0, 255).Draw(t, "mutByte"))
	case "bit":
		i := rapid.IntRange(0, 255).Draw(t, "mutBit")
		field[i/8] ^= 1 << uint(i%8)
	}
}

func c04CheckG1(fatalf func(string, ...interface{}), in []byte, o c04Outcome) string {
	if o.panicked != nil {
		fatalf("DecompressToG1(%x) panicked: %v", in, o.panicked)
	}
	if u, ok := o.err.(*c04Unstable); ok {
		fatalf("%s", u.msg)
	}
	want := c04ModelG1(in)
	if o.err != nil {
		if want != nil {
			fatalf("DecompressToG1(%x) failed (%v) although the input is the compression of the point %x", in, o.err, want)
		}
		return "error"
	}
	if o.marshalled == nil {
		fatalf("DecompressToG1(%x) returned neither a point nor an error", in)
	}
	if _, err := new(bn256.G1).Unmarshal(o.marshalled); err != nil {
		fatalf("DecompressToG1(%x) returned an invalid point %x: %v", in, o.marshalled, err)
	}
	if want == nil {
		fatalf("DecompressToG1(%x) returned the point %x although the input is not the compression of any point", in, o.marshalled)
	}
	if !bytes.Equal(want, o.marshalled) {
		fatalf("DecompressToG1(%x) = %x, the input stands for %x", in, o.marshalled, want)
	}
	return "point"
}

func c04CallG1(in []byte) func() ([]byte, error) {
	return func() ([]byte, error) {
		p, err := DecompressToG1(append([]byte{}, in...))
		if err != nil || p == nil {
			return nil, err
		}
		out := p.Marshal()
		// the caller uses its point; the same bytes must decode as before
		how := c04UseG1(p, int(in[31]), big.NewInt(int64(in[30])+1))
		p2, err2 := DecompressToG1(append([]byte{}, in...))
		if err2 != nil || p2 == nil || !bytes.Equal(p2.Marshal(), out) {
			return nil, &c04Unstable{fmt.Sprintf("DecompressToG1(%x) = %x, but after the caller applied %s to that point the same bytes give err=%v point=%v", in, out, how, err2, p2)}
		}
		return out, nil
	}
}

// TestVerif_C04_DecompressG1Total: every 32-byte input makes DecompressToG1
// return - the point the input stands for, or an error when it stands for none.
func TestVerif_C04_DecompressG1Total(t *testing.T) {
	st := verifkit.New("C04", "TestVerif_C04_DecompressG1Total")
	defer st.Flush()
	if in := c04ReplayInput(); in != nil {
		o := c04Guarded(st, "TestVerif_C04_DecompressG1Total", in, false, c04CallG1(in))
		c04CheckG1(t.Fatalf, in, o)
		return
	}
	rapid.Check(t, func(t *rapid.T) {
		in, class := c04GenG1Input(t)
		orig := append([]byte{}, in...)
		o := c04Guarded(st, "TestVerif_C04_DecompressG1Total", in, false, c04CallG1(in))
		res := c04CheckG1(t.Fatalf, in, o)
		if !bytes.Equal(orig, in) {
			t.Fatalf("DecompressToG1 modified its input")
		}
		valid := c04ModelG1(in) != nil
		st.Case(!valid, fmt.Sprintf("%x -> %s", in, res), "input:"+class, "result:"+res)
	})
}

// hostile constants for G2: x coordinates of the twist whose y has a zero
// imaginary part (computed offline: x = cuberoot(s^2 - b'), s in Fp) and whose
// y has a zero real part.
var c04RealY = []string{
	"0583c20740c41d6d90f9fda5a4c51c1fce900d673b2c21a4d1f9ad63f7efe13a183fb9e51c83d8840d25d548fc0df5c6afcb332479063406f4c667b78a10949c",
	"235d447771b93cb2a20f647db8948c3269b47b19ef981490639ecf307c4a7d412428680c0d35418c7d12b5a623887176835cc7636b8d7fbd3aa8cb8acd5750d4",
	"0ca22e7dc5d1c2923d119a560634225b8e2ca85ffdaabf1613fc40ebff3c59202479a877394e6ad53fb67b1369718b6aff3fde56fb15d40676960756d9921b6f",
	"08b994fd901819d7b43e148803b9bf391c379e5a0afa9f3c42171f0b74ec17c9194956b1bf08139d26e4df5528bdae1c741491a002cc5d6f7e75973833a9a134",
	"1540edd83b18d8d5a95268d016b17865915c3f1145e41bf4a4c85aea913b36950fe63dcb04fe34605934c071cb5594061883b0f79a7a60ab2775d1305e15751f",
	"2c69b2e5d5bc54df8ab92f403ae32335cfcb7d728b57b2e23133026afd6d99ef0ae6c5470eaae04a5eaf0a80396d0f30df617275004c502b6067beca27581e02",
}
var c04ImagY = []string{
	"29821ceb5044445213f96e55153e505b97177d23c98ef3ddb005a717c35b13cb10eb8091a2e665dc8950dff847835b2a5877b28b7c45c816e33c183682bf68fb",
	"1eb464958eb76fbdc6bc7545da5931525d72c66dd5934e3425c2422d7018c5eb012fcb934bebb24ac35b42d8bd701274ce1a136e92f67d1994275a8c7424ce3e",
	"04ae21c82eaa751bb7ea47286d05a5f6a0bfaf17a68944baec1bf27e5b0f2ad90b888f599c2b69eedf2da4373804041897c8dce7ad1077266d5d58cca390c7bf",
}

func c04GenG2Input(t *rapid.T) ([]byte, string) {
	switch rapid.IntRange(0, 7).Draw(t, "inputClass") {
	case 0:
		return rapid.SliceOfN(rapid.Byte(), 64, 64).Draw(t, "bytes"), "random-bytes"
	case 1, 2: // both coordinates below p: half of them are off the twist
		im := new(big.Int).SetBytes(rapid.SliceOfN(rapid.Byte(), 32, 32).Draw(t, "imBytes"))
		re := new(big.Int).SetBytes(rapid.SliceOfN(rapid.Byte(), 32, 32).Draw(t, "reBytes"))
		b := append(c04Pad32(im.Mod(im, c04P)), c04Pad32(re.Mod(re, c04P))...)
		if rapid.Bool().Draw(t, "parity") {
			b[0] |= 0x80
		}
		return b, "x<p"
	case 3: // small / edge coordinates
		pick := func(label string) *big.Int {
			switch rapid.IntRange(0, 4).Draw(t, label) {
			case 0:
				return new(big.Int)
			case 1:
				return big.NewInt(int64(rapid.IntRange(1, 20).Draw(t, label+"Small")))
			case 2:
				return new(big.Int).Sub(c04P, big.NewInt(int64(rapid.IntRange(0, 3).Draw(t, label+"NearP"))))
			case 3:
				return new(big.Int).Add(c04P, big.NewInt(int64(rapid.IntRange(1, 3).Draw(t, label+"AboveP"))))
			default:
				return new(big.Int).Sub(new(big.Int).Lsh(big.NewInt(1), 255), big.NewInt(1))
			}
		}
		b := append(c04Pad32(pick("imEdge")), c04Pad32(pick("reEdge"))...)
		if rapid.Bool().Draw(t, "edgeParity") {
			b[0] ^= 0x80
		}
		return b, "edge"
	case 4: // hostile constants
		pool, name := c04RealY, "const:real-y"
		if rapid.IntRange(0, 2).Draw(t, "imagY") == 0 {
			pool, name = c04ImagY, "const:imaginary-y"
		}
		b, _ := hex.DecodeString(rapid.SampledFrom(pool).Draw(t, "constant"))
		if rapid.Bool().Draw(t, "constParity") {
			b[0] ^= 0x80
		}
		return b, name
	default: // structure-aware mutation of a valid compression
		k := c04GenScalar(t, "k")
		b := G2Point{new(bn256.G2).ScalarBaseMult(k)}.Compress()
		mut := rapid.SampledFrom([]string{"none", "parity", "x+1", "x-1", "bit6", "x+p", "byte", "bit", "swap-halves"}).Draw(t, "mutation")
		if mut == "swap-halves" {
			top := b[0] & 0x80
			b[0] &= 0x7f
			tmp := append([]byte{}, b[:32]...)
			copy(b[:32], b[32:])
			copy(b[32:], tmp)
			b[0] = b[0]&0x7f | top
		} else {
			off := 0
			if mut != "parity" && rapid.Bool().Draw(t, "mutateRealPart") {
				off = 32
			}
			c04Mutate(t, b, off, mut)
		}
		return b, "mutated:" + mut
	}
}

func c04CheckG2(fatalf func(string, ...interface{}), in []byte, v c04G2Verdict, o c04Outcome) string {
	tag := ""
	if v.class == "real-y" {
		tag = " [finding-key=" + c04D11 + "]"
	}
	if o.panicked != nil {
		fatalf("DecompressToG2(%x) panicked: %v (input class: %s)%s", in, o.panicked, v.class, tag)
	}
	if u, ok := o.err.(*c04Unstable); ok {
		fatalf("%s", u.msg)
	}
	if o.err != nil {
		if v.class == "valid" {
			fatalf("DecompressToG2(%x) failed (%v) although the input is the compression of the point %x", in, o.err, v.expected)
		}
		return "error"
	}
	if o.marshalled == nil {
		fatalf("DecompressToG2(%x) returned neither a point nor an error", in)
	}
	if _, err := new(bn256.G2).Unmarshal(o.marshalled); err != nil {
		fatalf("DecompressToG2(%x) returned an invalid point: %v", in, err)
	}
	switch v.class {
	case "valid":
		if !bytes.Equal(v.expected, o.marshalled) {
			fatalf("DecompressToG2(%x) = %x, the input stands for %x", in, o.marshalled, v.expected)
		}
	case "real-y":
		// both roots have the same (zero) imaginary part: any valid point with
		// this x is acceptable
		if !bytes.Equal(o.marshalled[:64], append(append([]byte{}, in[0]&0x7f), in[1:]...)) {
			fatalf("DecompressToG2(%x) returned a point with another x", in)
		}
	default:
		fatalf("DecompressToG2(%x) returned a point although the input is not the compression of a group element (%s)", in, v.class)
	}
	return "point"
}

func c04CallG2(in []byte) func() ([]byte, error) {
	return func() ([]byte, error) {
		p, err := DecompressToG2(append([]byte{}, in...))
		if err != nil || p == nil {
			return nil, err
		}
		out := p.Marshal()
		// the caller uses its point; the same bytes must decode as before
		how := c04UseG2(p, int(in[63]), big.NewInt(int64(in[62])+1))
		p2, err2 := DecompressToG2(append([]byte{}, in...))
		if err2 != nil || p2 == nil || !bytes.Equal(p2.Marshal(), out) {
			return nil, &c04Unstable{fmt.Sprintf("DecompressToG2(%x) = %x, but after the caller applied %s to that point the same bytes give err=%v point=%v", in, out, how, err2, p2)}
		}
		return out, nil
	}
}

// TestVerif_C04_DecompressG2Total: every 64-byte input makes DecompressToG2
// return (watchdog) - the point the input stands for, or an error.
func TestVerif_C04_DecompressG2Total(t *testing.T) {
	const name = "TestVerif_C04_DecompressG2Total"
	st := verifkit.New("C04", name)
	defer st.Flush()
	if in := c04ReplayInput(); in != nil {
		if len(in) != 64 {
			t.Fatalf("replay input has %d bytes", len(in))
		}
		v := c04ModelG2(in)
		o := c04Guarded(st, name, in, v.loops, c04CallG2(in))
		c04CheckG2(t.Fatalf, in, v, o)
		return
	}
	knownD3, knownD11 := verifkit.Known(c04D3), verifkit.Known(c04D11)
	rapid.Check(t, func(t *rapid.T) {
		in, class := c04GenG2Input(t)
		v := c04ModelG2(in)
		if knownD3 && v.loops {
			st.Excluded(c04D3)
			st.Case(false, fmt.Sprintf("%s excluded (%s)", c04Abbrev(in), v.class), "input:"+class, "model:"+v.class, "result:excluded-known")
			return
		}
		if knownD11 && v.class == "real-y" {
			st.Excluded(c04D11)
			st.Case(false, fmt.Sprintf("%s excluded (%s)", c04Abbrev(in), v.class), "input:"+class, "model:"+v.class, "result:excluded-known")
			return
		}
		orig := append([]byte{}, in...)
		o := c04Guarded(st, name, in, v.loops, c04CallG2(in))
		res := c04CheckG2(t.Fatalf, in, v, o)
		if !bytes.Equal(orig, in) {
			t.Fatalf("DecompressToG2 modified its input")
		}
		st.Case(v.class != "valid", fmt.Sprintf("%x -> %s (%s)", in, res, v.class), "input:"+class, "model:"+v.class, "result:"+res)
	})
}

// ---- native fuzz targets (thorough tier) ----------------------------------------

func c04Fit(b []byte, n int) []byte {
	out := make([]byte, n)
	copy(out, b)
	return out
}

func FuzzVerif_C04_DecompressG1(f *testing.F) {
	st := verifkit.New("C04", "FuzzVerif_C04_DecompressG1")
	f.Add(make([]byte, 32))
	f.Add(G1Point{new(bn256.G1).ScalarBaseMult(big.NewInt(1))}.Compress())
	f.Add(G1Point{new(bn256.G1).ScalarBaseMult(big.NewInt(7))}.Compress())
	f.Add(bytes.Repeat([]byte{0xff}, 32))
	f.Add(c04Pad32(c04P))
	f.Fuzz(func(t *testing.T, data []byte) {
		in := c04Fit(data, 32)
		o := c04Guarded(st, "FuzzVerif_C04_DecompressG1", in, false, c04CallG1(in))
		c04CheckG1(t.Fatalf, in, o)
	})
}

func FuzzVerif_C04_DecompressG2(f *testing.F) {
	st := verifkit.New("C04", "FuzzVerif_C04_DecompressG2")
	f.Add(make([]byte, 64))
	f.Add(G2Point{new(bn256.G2).ScalarBaseMult(big.NewInt(1))}.Compress())
	f.Add(G2Point{new(bn256.G2).ScalarBaseMult(big.NewInt(7))}.Compress())
	f.Add(bytes.Repeat([]byte{0xff}, 64))
	for _, h := range append(append([]string{}, c04RealY...), c04ImagY...) {
		b, _ := hex.DecodeString(h)
		f.Add(b)
	}
	knownD3, knownD11 := verifkit.Known(c04D3), verifkit.Known(c04D11)
	f.Fuzz(func(t *testing.T, data []byte) {
		in := c04Fit(data, 64)
		v := c04ModelG2(in)
		if (knownD3 && v.loops) || (knownD11 && v.class == "real-y") {
			return
		}
		o := c04Guarded(st, "FuzzVerif_C04_DecompressG2", in, v.loops, c04CallG2(in))
		c04CheckG2(t.Fatalf, in, v, o)
	})
}
