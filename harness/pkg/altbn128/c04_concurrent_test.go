//go:build go1.23

package altbn128

// C04, concurrent callers: hashing to G1 and (de)compression are called from
// many goroutines at once in the client (bls.Sign / bls.Verify for every relay
// entry share, every group member on its own goroutine). "Hashing any byte
// string to G1 DETERMINISTICALLY yields a point" and the round-trip must hold
// there too (added after seeded change C04_2a: one shared SHA-256 state).

import (
	"bytes"
	"fmt"
	"math/big"
	"sync"
	"testing"

	bn256 "github.com/ethereum/go-ethereum/crypto/bn256/cloudflare"
	"github.com/keep-network/keep-core/internal/verifkit"
	"pgregory.net/rapid"
)

func TestVerif_C04_ConcurrentCallers(t *testing.T) {
	st := verifkit.New("C04", "TestVerif_C04_ConcurrentCallers")
	defer st.Flush()
	rapid.Check(t, func(t *rapid.T) {
		workers := rapid.IntRange(2, 12).Draw(t, "goroutines")
		nMsg := rapid.IntRange(8, 48).Draw(t, "messages")
		msgs := make([][]byte, nMsg)
		scalars := make([]*big.Int, nMsg)
		for i := range msgs {
			msgs[i] = rapid.SliceOfN(rapid.Byte(), 0, 80).Draw(t, "message")
			scalars[i] = new(big.Int).SetUint64(rapid.Uint64Range(1, 1<<62).Draw(t, "scalar"))
		}
		// sequential reference (same functions, one caller at a time)
		refHash := make([][]byte, nMsg)
		refG1 := make([][]byte, nMsg)
		refG2 := make([][]byte, nMsg)
		for i := range msgs {
			refHash[i] = G1HashToPoint(msgs[i]).Marshal()
			refG1[i] = G1Point{new(bn256.G1).ScalarBaseMult(scalars[i])}.Compress()
			refG2[i] = G2Point{new(bn256.G2).ScalarBaseMult(scalars[i])}.Compress()
		}
		type bad struct{ what string }
		var mu sync.Mutex
		var problems []string
		report := func(format string, a ...interface{}) {
			mu.Lock()
			if len(problems) < 5 {
				problems = append(problems, fmt.Sprintf(format, a...))
			}
			mu.Unlock()
		}
		var start, wg sync.WaitGroup
		start.Add(1)
		for w := 0; w < workers; w++ {
			wg.Add(1)
			go func(w int) {
				defer wg.Done()
				defer func() {
					if p := recover(); p != nil {
						report("worker %d panicked: %v", w, p)
					}
				}()
				start.Wait()
				for k := 0; k < nMsg; k++ {
					i := (k*7 + w*3) % nMsg
					if got := G1HashToPoint(msgs[i]).Marshal(); !bytes.Equal(got, refHash[i]) {
						report("G1HashToPoint(%x) called concurrently gave %x, sequentially %x", msgs[i], got[:8], refHash[i][:8])
					}
					p1, err := DecompressToG1(refG1[i])
					if err != nil || !bytes.Equal(G1Point{p1}.Compress(), refG1[i]) {
						report("G1 round-trip of scalar %v failed under concurrency: %v", scalars[i], err)
					}
					p2, err := DecompressToG2(refG2[i])
					if err != nil || !bytes.Equal(G2Point{p2}.Compress(), refG2[i]) {
						report("G2 round-trip of scalar %v failed under concurrency: %v", scalars[i], err)
					}
				}
			}(w)
		}
		start.Done()
		wg.Wait()
		if len(problems) > 0 {
			t.Fatalf("%d goroutines, %d messages: %v", workers, nMsg, problems)
		}
		st.Case(true, fmt.Sprintf("goroutines=%d messages=%d first=%x", workers, nMsg, msgs[0]), fmt.Sprintf("goroutines:%d", workers))
	})
}
