//go:build go1.23

package altbn128

// C04, concurrent callers: hashing to G1 and (de)compression are called from
// many goroutines at once in the client (bls.Sign / bls.Verify for every relay
// entry share, every group member on its own goroutine). "Hashing any byte
// string to G1 DETERMINISTICALLY yields a point" and the round-trip must hold
// there too (added after seeded change C04_2a: one shared SHA-256 state).

import (
	"bytes"
	"fmt"
	"math/big"
	"sync"
	"testing"

	bn256 "github.com/ethereum/go-ethereum/crypto/bn256/cloudflare"
	"github.com/keep-network/keep-core/internal/verifkit"
	"pgregory.net/rapid"
)

func TestVerif_C04_ConcurrentCallers(t *testing.T) {
	st := verifkit.New("C04", "TestVerif_C04_ConcurrentCallers")
	defer st.Flush()
	rapid.Check(t, func(t *rapid.T) {
		workers := rapid.IntRange(2, 12).Draw(t, "goroutines")
		nMsg := rapid.IntRange(8, 48).Draw(t, "messages")
		msgs := make([][]byte, nMsg)
		scalars := make([]*big.Int, nMsg)
		for i := range msgs {
			msgs[i] = rapid.SliceOfN(rapid.Byte(), 0, 80).Draw(t, "message")
			if i%4 == 0 {
				// long messages too (relay entries are short, but the statement says
				// any byte string): a drawn head repeated to 1..32 KiB
				n := rapid.SampledFrom([]int{1 << 10, 4 << 10, 32 << 10}).Draw(t, "longLen")
				long := make([]byte, n)
				for j := range long {
					long[j] = byte(j>>8) ^ byte(i)
				}
				copy(long, msgs[i])
				msgs[i] = long
			}
			scalars[i] = new(big.Int).SetUint64(rapid.Uint64Range(1, 1<<62).Draw(t, "scalar"))
		}
		hashRounds := rapid.IntRange(4, 12).Draw(t, "hashRounds")
		// sequential reference (same functions, one caller at a time)
		refHash := make([][]byte, nMsg)
		refG1 := make([][]byte, nMsg)
		refG2 := make([][]byte, nMsg)
		for i := range msgs {
			refHash[i] = G1HashToPoint(msgs[i]).Marshal()
			refG1[i] = G1Point{new(bn256.G1).ScalarBaseMult(scalars[i])}.Compress()
			refG2[i] = G2Point{new(bn256.G2).ScalarBaseMult(scalars[i])}.Compress()
		}
		type bad struct{ what string }
		var mu sync.Mutex
		var problems []string
		report := func(format string, a ...interface{}) {
			mu.Lock()
			if len(problems) < 5 {
				problems = append(problems, fmt.Sprintf(format, a...))
			}
			mu.Unlock()
		}
		var start, wg sync.WaitGroup
		start.Add(1)
		for w := 0; w < workers; w++ {
			wg.Add(1)
			go func(w int) {
				defer wg.Done()
				defer func() {
					if p := recover(); p != nil {
						report("worker %d panicked: %v", w, p)
					}
				}()
				start.Wait()
				// phase 1: nothing but hashing, every goroutine through all messages
				// several times in its own order, so that calls really overlap
				for r := 0; r < hashRounds; r++ {
					for k := 0; k < nMsg; k++ {
						i := (k*(2*r+1) + w*3) % nMsg
						p := G1HashToPoint(msgs[i])
						if got := p.Marshal(); !bytes.Equal(got, refHash[i]) {
							report("G1HashToPoint of message %d (%d bytes, %.8x..) called concurrently gave %x, sequentially %x", i, len(msgs[i]), msgs[i], got[:8], refHash[i][:8])
						}
						p.Neg(p) // the caller owns its point
					}
				}
				// phase 2: hashing interleaved with the (slow) codecs
				for k := 0; k < nMsg && k < 6; k++ {
					i := (k*7 + w*3) % nMsg
					if got := G1HashToPoint(msgs[i]).Marshal(); !bytes.Equal(got, refHash[i]) {
						report("G1HashToPoint of message %d (%d bytes) called concurrently gave %x, sequentially %x", i, len(msgs[i]), got[:8], refHash[i][:8])
					}
					p1, err := DecompressToG1(refG1[i])
					if err != nil || !bytes.Equal(G1Point{p1}.Compress(), refG1[i]) {
						report("G1 round-trip of scalar %v failed under concurrency: %v", scalars[i], err)
					}
					p2, err := DecompressToG2(refG2[i])
					if err != nil || !bytes.Equal(G2Point{p2}.Compress(), refG2[i]) {
						report("G2 round-trip of scalar %v failed under concurrency: %v", scalars[i], err)
					}
				}
			}(w)
		}
		start.Done()
		wg.Wait()
		if len(problems) > 0 {
			t.Fatalf("%d goroutines, %d messages: %v", workers, nMsg, problems)
		}
		first := msgs[0]
		if len(first) > 16 {
			first = first[:16]
		}
		st.Case(true, fmt.Sprintf("goroutines=%d messages=%d hashRounds=%d first=%x", workers, nMsg, hashRounds, first), fmt.Sprintf("goroutines:%d", workers))
	})
}
