//go:build go1.23

package bls

import (
	"bytes"
	"fmt"
	"math/big"
	"sort"
	"strings"
	"testing"

	bn256 "github.com/ethereum/go-ethereum/crypto/bn256/cloudflare"
	"github.com/keep-network/keep-core/internal/verifkit"
	"github.com/keep-network/keep-core/pkg/altbn128"
	"pgregory.net/rapid"
)

// order of the BN254 groups, written out (the oracle does not ask the code
// under test for it).
var c03R, _ = new(big.Int).SetString("21888242871839275222246405745257275088548364400416034343698204186575808495617", 10)

// finding key of D2 (RecoverSignature / RecoverPublicKey apply the Lagrange
// basis of the i-th *valid* share to the i-th *raw* list entry).
const c03D2 = "D2-recover-misindex"

type c03Plan struct {
	coeffs    []*big.Int // f(x) = coeffs[0] + coeffs[1] x + ...; the group secret is coeffs[0]
	threshold int        // passed to the recovery: degree+1 (+ a few, more points interpolate the same f)
	indices   []int      // distinct member indices holding a valid share, in list order
	// list layout: entry k of layout is either >= 0 (position in indices) or a
	// skip kind < 0
	layout []int
	skipI  []int // index field of the skip entries, in order of appearance
}

const (
	c03SkipNil    = -1 // nil entry
	c03SkipNilV   = -2 // entry with V == nil
	c03SkipNegI   = -3 // entry with negative index and a well-formed value
	c03SkipNegNil = -4 // negative index and V == nil
)

func c03GenScalar(t *rapid.T, label string) *big.Int {
	switch rapid.IntRange(0, 5).Draw(t, label+"Class") {
	case 0:
		return big.NewInt(int64(rapid.IntRange(1, 9).Draw(t, label+"Small")))
	case 1:
		return new(big.Int).Sub(c03R, big.NewInt(int64(rapid.IntRange(1, 9).Draw(t, label+"NearR"))))
	default:
		b := rapid.SliceOfN(rapid.Byte(), 32, 32).Draw(t, label+"Bytes")
		v := new(big.Int).SetBytes(b)
		v.Mod(v, new(big.Int).Sub(c03R, big.NewInt(1)))
		return v.Add(v, big.NewInt(1))
	}
}

func c03GenIndices(t *rapid.T, n int) []int {
	var idx []int
	switch rapid.IntRange(0, 3).Draw(t, "indexClass") {
	case 0: // 1..n
		for i := 1; i <= n; i++ {
			idx = append(idx, i)
		}
	case 1: // the top of the range
		for i := 0; i < n; i++ {
			idx = append(idx, 255-i)
		}
	case 2: // consecutive run somewhere
		start := rapid.IntRange(1, 255-n+1).Draw(t, "indexStart")
		for i := 0; i < n; i++ {
			idx = append(idx, start+i)
		}
	default:
		idx = rapid.SliceOfNDistinct(rapid.IntRange(1, 255), n, n, rapid.ID[int]).Draw(t, "indices")
	}
	sort.Ints(idx)
	return idx
}

// layout of one list: the valid shares in a drawn order with skip entries
// inserted at drawn positions (front-biased). avoidFront keeps every skip entry
// behind the shares the recovery uses (used when D2 is listed as open).
func c03GenLayout(t *rapid.T, label string, n, threshold int, avoidFront bool) (layout []int, skipI []int) {
	order := make([]int, n)
	for i := range order {
		order[i] = i
	}
	switch rapid.IntRange(0, 3).Draw(t, label+"Order") {
	case 0: // ascending
	case 1: // descending
		for i, j := 0, n-1; i < j; i, j = i+1, j-1 {
			order[i], order[j] = order[j], order[i]
		}
	default:
		order = rapid.Permutation(order).Draw(t, label+"Perm")
	}
	layout = order
	nSkips := rapid.IntRange(0, 4).Draw(t, label+"Skips")
	for s := 0; s < nSkips; s++ {
		kind := -rapid.IntRange(1, 4).Draw(t, label+"SkipKind")
		lo := 0
		if avoidFront {
			// behind the threshold-th valid share
			seen := 0
			for p, e := range layout {
				if e >= 0 {
					seen++
				}
				if seen == threshold {
					lo = p + 1
					break
				}
			}
		}
		pos := lo
		if rapid.IntRange(0, 2).Draw(t, label+"SkipFront") != 0 {
			pos = rapid.IntRange(lo, len(layout)).Draw(t, label+"SkipPos")
		}
		layout = append(layout[:pos:pos], append([]int{kind}, layout[pos:]...)...)
	}
	for _, e := range layout {
		if e < 0 {
			i := rapid.IntRange(1, 255).Draw(t, label+"SkipIndex")
			if e == c03SkipNegI || e == c03SkipNegNil {
				i = -rapid.IntRange(1, 300).Draw(t, label+"SkipNegIndex")
			}
			skipI = append(skipI, i)
		}
	}
	return layout, skipI
}

// a skip entry sits before a share the recovery uses?
func c03SkipBeforeUsed(layout []int, threshold int) bool {
	seen, skip := 0, false
	for _, e := range layout {
		if e < 0 {
			skip = true
			continue
		}
		if skip {
			return true
		}
		seen++
		if seen == threshold {
			return false
		}
	}
	return false
}

func c03Ascending(layout []int, indices []int) bool {
	last := -1
	for _, e := range layout {
		if e >= 0 {
			if indices[e] < last {
				return false
			}
			last = indices[e]
		}
	}
	return true
}

func c03RenderLayout(layout, indices, skipI []int) string {
	var parts []string
	k := 0
	for _, e := range layout {
		switch e {
		case c03SkipNil:
			parts = append(parts, "nil")
			k++
		case c03SkipNilV, c03SkipNegNil:
			parts = append(parts, fmt.Sprintf("{%d,V=nil}", skipI[k]))
			k++
		case c03SkipNegI:
			parts = append(parts, fmt.Sprintf("{%d,V}", skipI[k]))
			k++
		default:
			parts = append(parts, fmt.Sprint(indices[e]))
		}
	}
	return "[" + strings.Join(parts, " ") + "]"
}

// independent evaluation of the polynomial mod r (plain powers, not Horner)
func c03Eval(coeffs []*big.Int, x int) *big.Int {
	acc := new(big.Int)
	xp := big.NewInt(1)
	bx := big.NewInt(int64(x))
	for _, c := range coeffs {
		acc.Add(acc, new(big.Int).Mul(c, xp))
		acc.Mod(acc, c03R)
		xp = new(big.Int).Mul(xp, bx)
		xp.Mod(xp, c03R)
	}
	return acc
}

func c03GenPlan(t *rapid.T, maxDegree int) (*c03Plan, bool) {
	degree := rapid.IntRange(0, maxDegree).Draw(t, "degree")
	p := &c03Plan{}
	for i := 0; i <= degree; i++ {
		p.coeffs = append(p.coeffs, c03GenScalar(t, fmt.Sprintf("coeff%d", i)))
	}
	p.threshold = degree + 1
	if rapid.IntRange(0, 3).Draw(t, "thresholdAboveDegree") == 0 {
		p.threshold += rapid.IntRange(1, 2).Draw(t, "thresholdExtra")
	}
	n := p.threshold + rapid.SampledFrom([]int{0, 0, 1, 2, 4}).Draw(t, "extraShares")
	p.indices = c03GenIndices(t, n)
	known := verifkit.Known(c03D2)
	p.layout, p.skipI = c03GenLayout(t, "list", n, p.threshold, known)
	return p, known
}

func c03GenMessage(t *rapid.T) (*bn256.G1, string) {
	if rapid.Bool().Draw(t, "messageHashed") {
		m := rapid.SliceOfN(rapid.Byte(), 0, 40).Draw(t, "messageBytes")
		return altbn128.G1HashToPoint(m), fmt.Sprintf("hash(%x)", m)
	}
	k := c03GenScalar(t, "messageScalar")
	return new(bn256.G1).ScalarBaseMult(k), fmt.Sprintf("%s*G1", c03Abbrev(k))
}

func c03Abbrev(v *big.Int) string {
	s := v.Text(16)
	if len(s) > 10 {
		return s[:4] + ".." + s[len(s)-4:]
	}
	return s
}

func c03Coeffs(c []*big.Int) string {
	var p []string
	for _, v := range c {
		p = append(p, c03Abbrev(v))
	}
	return strings.Join(p, ",")
}

func c03Labels(p *c03Plan, before bool) []string {
	l := []string{
		fmt.Sprintf("degree:%d", len(p.coeffs)-1),
		fmt.Sprintf("threshold-above-degree:%v", p.threshold > len(p.coeffs)),
		fmt.Sprintf("extra-valid-shares:%v", len(p.indices) > p.threshold),
		fmt.Sprintf("skip-before-used:%v", before),
		fmt.Sprintf("ascending:%v", c03Ascending(p.layout, p.indices)),
	}
	kinds := map[int]string{c03SkipNil: "skip:nil", c03SkipNilV: "skip:V=nil", c03SkipNegI: "skip:I<0", c03SkipNegNil: "skip:I<0,V=nil"}
	seen := map[int]bool{}
	for _, e := range p.layout {
		if e < 0 && !seen[e] {
			seen[e] = true
			l = append(l, kinds[e])
		}
	}
	if len(seen) == 0 {
		l = append(l, "skip:none")
	}
	return l
}

func c03Tag(before bool) string {
	if before {
		return " [finding-key=" + c03D2 + "]"
	}
	return ""
}

// TestVerif_C03_RecoverSignature: any honest-threshold number of correct
// shares, in any order, mixed with skipped entries, recovers message*f(0); the
// result verifies under G2*f(0) and does not depend on order / subset / skips.
func TestVerif_C03_RecoverSignature(t *testing.T) {
	st := verifkit.New("C03", "TestVerif_C03_RecoverSignature")
	defer st.Flush()
	rapid.Check(t, func(t *rapid.T) {
		p, known := c03GenPlan(t, 7)
		if known {
			st.Excluded(c03D2)
		}
		msg, msgDesc := c03GenMessage(t)
		secret := p.coeffs[0]
		expected := new(bn256.G1).ScalarMult(msg, secret)
		groupKey := new(bn256.G2).ScalarBaseMult(secret)

		// shares by the code under test, checked against the independent
		// evaluation of the polynomial ("correctly computed shares")
		sigShares := make([]*SignatureShare, len(p.indices))
		for k, i := range p.indices {
			sk := GetSecretKeyShare(p.coeffs, i)
			if sk.I != i || new(big.Int).Mod(sk.V, c03R).Cmp(c03Eval(p.coeffs, i)) != 0 {
				t.Fatalf("GetSecretKeyShare(coeffs=%s, %d) = {%d, %x}, the polynomial evaluates to %x (mod r)", c03Coeffs(p.coeffs), i, sk.I, sk.V, c03Eval(p.coeffs, i))
			}
			sigShares[k] = &SignatureShare{I: i, V: SignG1(sk.V, msg)}
		}
		// one share is checked under its member's public key share per case
		probe := rapid.IntRange(0, len(p.indices)-1).Draw(t, "verifiedShare")
		pkShare := GetSecretKeyShare(p.coeffs, p.indices[probe]).PublicKeyShare()
		if !VerifyG1(pkShare.V, msg, sigShares[probe].V) {
			t.Fatalf("share of member %d does not verify under that member's public key share", p.indices[probe])
		}
		if len(p.indices) > 1 {
			other := (probe + 1) % len(p.indices)
			same := c03Eval(p.coeffs, p.indices[other]).Cmp(c03Eval(p.coeffs, p.indices[probe])) == 0
			if VerifyG1(pkShare.V, msg, sigShares[other].V) != same {
				t.Fatalf("share of member %d under the public key share of member %d: verifies=%v, f(%d)==f(%d) is %v; coeffs=%s",
					p.indices[other], p.indices[probe], !same, p.indices[other], p.indices[probe], same, c03Coeffs(p.coeffs))
			}
		}

		build := func(layout, skipI []int) []*SignatureShare {
			var list []*SignatureShare
			k := 0
			for _, e := range layout {
				switch e {
				case c03SkipNil:
					list = append(list, nil)
					k++
				case c03SkipNilV, c03SkipNegNil:
					list = append(list, &SignatureShare{I: skipI[k], V: nil})
					k++
				case c03SkipNegI:
					// a well-formed but unrelated point
					list = append(list, &SignatureShare{I: skipI[k], V: new(bn256.G1).ScalarBaseMult(big.NewInt(int64(7 + k)))})
					k++
				default:
					list = append(list, sigShares[e])
				}
			}
			return list
		}
		recoverSig := func(list []*SignatureShare, what string, tag string) *bn256.G1 {
			var out *bn256.G1
			var err error
			func() {
				defer func() {
					if r := recover(); r != nil {
						t.Fatalf("RecoverSignature panicked (%v) on %s, threshold %d%s", r, what, p.threshold, tag)
					}
				}()
				out, err = RecoverSignature(list, p.threshold)
			}()
			if err != nil {
				t.Fatalf("RecoverSignature failed on %s with %d valid shares, threshold %d: %v%s", what, len(p.indices), p.threshold, err, tag)
			}
			return out
		}

		before := c03SkipBeforeUsed(p.layout, p.threshold)
		desc := c03RenderLayout(p.layout, p.indices, p.skipI)
		got := recoverSig(build(p.layout, p.skipI), desc, c03Tag(before))
		if !bytes.Equal(got.Marshal(), expected.Marshal()) {
			t.Fatalf("RecoverSignature(%s, threshold %d) is not message*f(0); coeffs=%s message=%s%s", desc, p.threshold, c03Coeffs(p.coeffs), msgDesc, c03Tag(before))
		}
		if !VerifyG1(groupKey, msg, got) {
			t.Fatalf("recovered signature does not verify under the group public key; list %s%s", desc, c03Tag(before))
		}
		// metamorphic: another order / subset / skip placement, same signature
		layout2, skipI2 := c03GenLayout(t, "second", len(p.indices), p.threshold, known)
		before2 := c03SkipBeforeUsed(layout2, p.threshold)
		desc2 := c03RenderLayout(layout2, p.indices, skipI2)
		got2 := recoverSig(build(layout2, skipI2), desc2, c03Tag(before2))
		if !bytes.Equal(got2.Marshal(), got.Marshal()) {
			t.Fatalf("two lists of valid shares of one polynomial recover different signatures: %s vs %s (threshold %d)%s", desc, desc2, p.threshold, c03Tag(before || before2))
		}
		// too few valid shares: an error, never a signature
		if p.threshold >= 1 {
			short := []*SignatureShare{nil}
			for k := 0; k < p.threshold-1; k++ {
				short = append(short, sigShares[k])
			}
			short = append(short, &SignatureShare{I: -1, V: sigShares[0].V}, &SignatureShare{I: 5, V: nil})
			var s *bn256.G1
			var err error
			func() {
				defer func() {
					if r := recover(); r != nil {
						t.Fatalf("RecoverSignature panicked (%v) with %d valid shares and threshold %d", r, p.threshold-1, p.threshold)
					}
				}()
				s, err = RecoverSignature(short, p.threshold)
			}()
			if err == nil {
				t.Fatalf("RecoverSignature returned %v from %d valid shares, threshold %d", s, p.threshold-1, p.threshold)
			}
		}

		nt := before || !c03Ascending(p.layout, p.indices)
		st.Case(nt, fmt.Sprintf("coeffs=%s th=%d msg=%s list=%s second=%s", c03Coeffs(p.coeffs), p.threshold, msgDesc, desc, desc2), c03Labels(p, before)...)
	})
}

// TestVerif_C03_RecoverPublicKey: the same for public key shares: recovers
// G2*f(0) from any order / subset mixed with skipped entries.
func TestVerif_C03_RecoverPublicKey(t *testing.T) {
	st := verifkit.New("C03", "TestVerif_C03_RecoverPublicKey")
	defer st.Flush()
	rapid.Check(t, func(t *rapid.T) {
		p, known := c03GenPlan(t, 7)
		if known {
			st.Excluded(c03D2)
		}
		secret := p.coeffs[0]
		expected := new(bn256.G2).ScalarBaseMult(secret)
		pkShares := make([]*PublicKeyShare, len(p.indices))
		for k, i := range p.indices {
			pk := GetSecretKeyShare(p.coeffs, i).PublicKeyShare()
			want := new(bn256.G2).ScalarBaseMult(c03Eval(p.coeffs, i))
			if pk.I != i || !bytes.Equal(pk.V.Marshal(), want.Marshal()) {
				t.Fatalf("public key share of member %d is not G2*f(%d); coeffs=%s", i, i, c03Coeffs(p.coeffs))
			}
			pkShares[k] = pk
		}
		build := func(layout, skipI []int) []*PublicKeyShare {
			var list []*PublicKeyShare
			k := 0
			for _, e := range layout {
				switch e {
				case c03SkipNil:
					list = append(list, nil)
					k++
				case c03SkipNilV, c03SkipNegNil:
					list = append(list, &PublicKeyShare{I: skipI[k], V: nil})
					k++
				case c03SkipNegI:
					list = append(list, &PublicKeyShare{I: skipI[k], V: new(bn256.G2).ScalarBaseMult(big.NewInt(int64(7 + k)))})
					k++
				default:
					list = append(list, pkShares[e])
				}
			}
			return list
		}
		recoverKey := func(list []*PublicKeyShare, what, tag string) *bn256.G2 {
			var out *bn256.G2
			var err error
			func() {
				defer func() {
					if r := recover(); r != nil {
						t.Fatalf("RecoverPublicKey panicked (%v) on %s, threshold %d%s", r, what, p.threshold, tag)
					}
				}()
				out, err = RecoverPublicKey(list, p.threshold)
			}()
			if err != nil {
				t.Fatalf("RecoverPublicKey failed on %s with %d valid shares, threshold %d: %v%s", what, len(p.indices), p.threshold, err, tag)
			}
			return out
		}
		before := c03SkipBeforeUsed(p.layout, p.threshold)
		desc := c03RenderLayout(p.layout, p.indices, p.skipI)
		got := recoverKey(build(p.layout, p.skipI), desc, c03Tag(before))
		if !bytes.Equal(got.Marshal(), expected.Marshal()) {
			t.Fatalf("RecoverPublicKey(%s, threshold %d) is not G2*f(0); coeffs=%s%s", desc, p.threshold, c03Coeffs(p.coeffs), c03Tag(before))
		}
		layout2, skipI2 := c03GenLayout(t, "second", len(p.indices), p.threshold, known)
		before2 := c03SkipBeforeUsed(layout2, p.threshold)
		desc2 := c03RenderLayout(layout2, p.indices, skipI2)
		got2 := recoverKey(build(layout2, skipI2), desc2, c03Tag(before2))
		if !bytes.Equal(got2.Marshal(), got.Marshal()) {
			t.Fatalf("two lists of valid public key shares recover different keys: %s vs %s (threshold %d)%s", desc, desc2, p.threshold, c03Tag(before || before2))
		}
		// a signature by the recovered key's secret verifies under it (ties the
		// two recoveries together through the pairing)
		if rapid.IntRange(0, 3).Draw(t, "pairingProbe") == 0 {
			msg, _ := c03GenMessage(t)
			if !VerifyG1(got, msg, SignG1(secret, msg)) {
				t.Fatalf("message signed with f(0) does not verify under the recovered public key")
			}
		}
		short := []*PublicKeyShare{nil}
		for k := 0; k < p.threshold-1; k++ {
			short = append(short, pkShares[k])
		}
		short = append(short, &PublicKeyShare{I: -3, V: pkShares[0].V})
		if s, err := RecoverPublicKey(short, p.threshold); err == nil {
			t.Fatalf("RecoverPublicKey returned %v from %d valid shares, threshold %d", s, p.threshold-1, p.threshold)
		}
		nt := before || !c03Ascending(p.layout, p.indices)
		st.Case(nt, fmt.Sprintf("coeffs=%s th=%d list=%s second=%s", c03Coeffs(p.coeffs), p.threshold, desc, desc2), c03Labels(p, before)...)
	})
}
