//go:build go1.23

package config

import (
	"fmt"
	"math/rand"
	"os"
	"path/filepath"
	"reflect"
	"sort"
	"strings"
	"sync"
	"testing"
	"time"

	"github.com/spf13/pflag"
	"github.com/spf13/viper"
	"pgregory.net/rapid"

	commonEthereum "github.com/keep-network/keep-common/pkg/chain/ethereum"
	"github.com/keep-network/keep-core/config/network"
	"github.com/keep-network/keep-core/internal/verifkit"
	"github.com/keep-network/keep-core/pkg/bitcoin"
	chainEthereum "github.com/keep-network/keep-core/pkg/chain/ethereum"
	ethereumBeacon "github.com/keep-network/keep-core/pkg/chain/ethereum/beacon/gen"
	ethereumEcdsa "github.com/keep-network/keep-core/pkg/chain/ethereum/ecdsa/gen"
	ethereumTbtc "github.com/keep-network/keep-core/pkg/chain/ethereum/tbtc/gen"
	ethereumThreshold "github.com/keep-network/keep-core/pkg/chain/ethereum/threshold/gen"
)

// ---------------------------------------------------------------------------
// the eight contracts and the defaults this process pretends were published
// (the _address files of this checkout are empty; the package's own tests set
// the variables the same way)

var c44Contracts = []string{
	chainEthereum.RandomBeaconContractName,
	chainEthereum.WalletRegistryContractName,
	chainEthereum.BridgeContractName,
	chainEthereum.MaintainerProxyContractName,
	chainEthereum.LightRelayContractName,
	chainEthereum.LightRelayMaintainerProxyContractName,
	chainEthereum.TokenStakingContractName,
	chainEthereum.WalletProposalValidatorContractName,
}

var c44DefaultAddress = map[string]string{
	chainEthereum.RandomBeaconContractName:              "0xd1640b381327c2d5425d6d3d605539a3db72f857",
	chainEthereum.WalletRegistryContractName:            "0xdb3dd6d4f43d39c996d0afeb6fbabc284f9ffb1a",
	chainEthereum.BridgeContractName:                    "0x9490165195503fcf6a0fd20ac113223fefb66ed5",
	chainEthereum.MaintainerProxyContractName:           "0xC6D21c2871586A2B098c0ad043fF0D47a3c7e7ae",
	chainEthereum.LightRelayContractName:                "0x68e20afD773fDF1231B5cbFeA7040e73e79cAc36",
	chainEthereum.LightRelayMaintainerProxyContractName: "0x30cd93828613D5945A2916a22E0f0e9bC561EAB5",
	chainEthereum.TokenStakingContractName:              "0xaa7b41039ea8f9ec2d89bbe96e19f97b6c267a27",
	chainEthereum.WalletProposalValidatorContractName:   "0xE7d33d8AA55B73a93059a24b900366894684a497",
}

// finding key of D18: a `network` key in the configuration file overrides the
// flag-selected Ethereum / Bitcoin network
const c44FindingNetworkFromFile = "C44.network-from-file"

var c44Once sync.Once

func c44Setup() {
	c44Once.Do(func() {
		ethereumBeacon.RandomBeaconAddress = c44DefaultAddress[chainEthereum.RandomBeaconContractName]
		ethereumEcdsa.WalletRegistryAddress = c44DefaultAddress[chainEthereum.WalletRegistryContractName]
		ethereumTbtc.BridgeAddress = c44DefaultAddress[chainEthereum.BridgeContractName]
		ethereumTbtc.MaintainerProxyAddress = c44DefaultAddress[chainEthereum.MaintainerProxyContractName]
		ethereumTbtc.LightRelayAddress = c44DefaultAddress[chainEthereum.LightRelayContractName]
		ethereumTbtc.LightRelayMaintainerProxyAddress = c44DefaultAddress[chainEthereum.LightRelayMaintainerProxyContractName]
		ethereumThreshold.TokenStakingAddress = c44DefaultAddress[chainEthereum.TokenStakingContractName]
		ethereumTbtc.WalletProposalValidatorAddress = c44DefaultAddress[chainEthereum.WalletProposalValidatorContractName]
		_ = os.Setenv(EthereumPasswordEnvVariable, "c44 password from the environment")
	})
}

// ---------------------------------------------------------------------------
// independent reading of the embedded default lists

func c44ListFile(data []byte) []string {
	var out []string
	for _, line := range strings.Split(string(data), "\n") {
		line = strings.TrimSpace(line)
		if line == "" || line[0] == '#' {
			continue
		}
		out = append(out, line)
	}
	return out
}

// model of the selection: which defaults belong to which selected network
type c44Net struct {
	name      string
	eth       commonEthereum.Network
	btc       bitcoin.Network
	peersFile string // "" = no embedded defaults
	urlsFile  string
}

var c44Nets = map[string]c44Net{
	"mainnet":   {"mainnet", commonEthereum.Mainnet, bitcoin.Mainnet, "_peers/mainnet", "_electrum_urls/mainnet"},
	"testnet":   {"testnet", commonEthereum.Sepolia, bitcoin.Testnet, "_peers/testnet", "_electrum_urls/testnet"},
	"developer": {"developer", commonEthereum.Developer, bitcoin.Regtest, "", ""},
}

func (n c44Net) defaultPeers(t *rapid.T) []string {
	if n.peersFile == "" {
		return nil
	}
	data, err := peersData.ReadFile(n.peersFile)
	if err != nil {
		t.Fatalf("embedded peers of %s unreadable: %v", n.name, err)
	}
	return c44ListFile(data)
}

func (n c44Net) defaultURLs(t *rapid.T) []string {
	if n.urlsFile == "" {
		return nil
	}
	data, err := electrumURLs.ReadFile(n.urlsFile)
	if err != nil {
		t.Fatalf("embedded electrum urls of %s unreadable: %v", n.name, err)
	}
	return c44ListFile(data)
}

// network flags as cmd/flags.go defines them (three booleans). Every flag can
// be absent, given as a switch / "=true", or given with an explicit "=false"
// (wrapper scripts render `--testnet={{ .testnet }}`). resolveNetworks
// documents that the flag VALUES decide. cobra additionally refuses command
// lines that mention two of the flags; ReadConfig itself is defined on the
// flag set, so mentioned-but-false flags are generated for it as well.
const (
	c44Absent = 0
	c44True   = 1
	c44False  = 2
)

type c44Selection struct{ mainnet, testnet, developer int }

func (s c44Selection) count() int {
	n := 0
	for _, b := range []int{s.mainnet, s.testnet, s.developer} {
		if b == c44True {
			n++
		}
	}
	return n
}

func (s c44Selection) mentioned() int {
	n := 0
	for _, b := range []int{s.mainnet, s.testnet, s.developer} {
		if b != c44Absent {
			n++
		}
	}
	return n
}

// the network the user selected; "" when the flag values contradict each other
func (s c44Selection) selected() string {
	switch {
	case s.count() == 0 || (s.count() == 1 && s.mainnet == c44True):
		return "mainnet"
	case s.count() == 1 && s.testnet == c44True:
		return "testnet"
	case s.count() == 1 && s.developer == c44True:
		return "developer"
	}
	return ""
}

func (s c44Selection) String() string {
	var f []string
	add := func(name string, v int) {
		switch v {
		case c44True:
			f = append(f, "--"+name)
		case c44False:
			f = append(f, "--"+name+"=false")
		}
	}
	add("mainnet", s.mainnet)
	add("testnet", s.testnet)
	add("developer", s.developer)
	if len(f) == 0 {
		return "(no network flag)"
	}
	return strings.Join(f, " ")
}

func c44GenSelection(t *rapid.T, allowConflicts bool) c44Selection {
	spell := func(code, pos int) int {
		for i := 0; i < pos; i++ {
			code /= 3
		}
		return code % 3
	}
	var s c44Selection
	switch rapid.IntRange(0, 9).Draw(t, "networkFlagsClass") {
	case 0, 1, 2, 3: // customary: nothing or one switch
		switch rapid.IntRange(0, 3).Draw(t, "networkFlags") {
		case 1:
			s.mainnet = c44True
		case 2:
			s.testnet = c44True
		case 3:
			s.developer = c44True
		}
		return s
	case 4, 5, 6, 7: // at least one flag switched off explicitly
		for {
			code := rapid.IntRange(0, 26).Draw(t, "flagSpellings")
			s = c44Selection{spell(code, 0), spell(code, 1), spell(code, 2)}
			hasFalse := s.mainnet == c44False || s.testnet == c44False || s.developer == c44False
			if hasFalse && (allowConflicts || s.count() <= 1) {
				return s
			}
		}
	default: // any spelling
		for {
			code := rapid.IntRange(0, 26).Draw(t, "anySpellings")
			s = c44Selection{spell(code, 0), spell(code, 1), spell(code, 2)}
			if allowConflicts || s.count() <= 1 {
				return s
			}
		}
	}
}

func c44NetworkFlagSet(s c44Selection) *pflag.FlagSet {
	fs := pflag.NewFlagSet("c44", pflag.ContinueOnError)
	fs.Bool(network.Mainnet.String(), false, "")
	fs.Bool(network.Testnet.String(), false, "")
	fs.Bool(network.Developer.String(), false, "")
	set := func(name string, v int) {
		var err error
		switch v {
		case c44True:
			err = fs.Set(name, "true")
		case c44False:
			err = fs.Set(name, "false")
		}
		if err != nil {
			panic(err)
		}
	}
	set("mainnet", s.mainnet)
	set("testnet", s.testnet)
	set("developer", s.developer)
	return fs
}

// ---------------------------------------------------------------------------
// explicit values

func c44GenPeer(t *rapid.T) string {
	return fmt.Sprintf("/ip4/10.%d.%d.%d/tcp/%d/ipfs/16Uiu2HAm%s",
		rapid.IntRange(0, 255).Draw(t, "ipB"), rapid.IntRange(0, 255).Draw(t, "ipC"), rapid.IntRange(1, 254).Draw(t, "ipD"),
		rapid.IntRange(1024, 65535).Draw(t, "peerPort"), rapid.StringMatching("[A-Za-z1-9]{12}").Draw(t, "peerID"))
}

// explicit peers: nil = unset; may contain entries of the embedded lists
func c44GenPeers(t *rapid.T) []string {
	n := rapid.IntRange(0, 3).Draw(t, "explicitPeers")
	if n == 0 {
		return nil
	}
	var out []string
	for i := 0; i < n; i++ {
		if rapid.IntRange(0, 5).Draw(t, "peerFromDefaults") == 0 {
			net := c44Nets[rapid.SampledFrom([]string{"mainnet", "testnet"}).Draw(t, "peerNet")]
			list := net.defaultPeers(t)
			out = append(out, list[rapid.IntRange(0, len(list)-1).Draw(t, "peerIdx")])
		} else {
			out = append(out, c44GenPeer(t))
		}
	}
	return out
}

func c44GenElectrumURL(t *rapid.T) string {
	switch rapid.IntRange(0, 4).Draw(t, "electrumURLKind") {
	case 0, 1:
		return ""
	case 2: // a URL of the other network's default list, set on purpose
		net := c44Nets[rapid.SampledFrom([]string{"mainnet", "testnet"}).Draw(t, "urlNet")]
		list := net.defaultURLs(t)
		return list[rapid.IntRange(0, len(list)-1).Draw(t, "urlIdx")]
	default:
		return fmt.Sprintf("%s://electrum-%s.example.org:%d",
			rapid.SampledFrom([]string{"tcp", "ssl", "ws", "wss"}).Draw(t, "scheme"),
			rapid.StringMatching("[a-z0-9]{1,8}").Draw(t, "host"), rapid.IntRange(1, 65535).Draw(t, "port"))
	}
}

// explicit contract address: kind "" unset, "empty", "valid", "invalid"
type c44Addr struct {
	kind  string
	value string
}

func c44GenAddr(t *rapid.T) c44Addr {
	switch rapid.IntRange(0, 6).Draw(t, "addrKind") {
	case 0, 1, 2:
		return c44Addr{}
	case 3:
		return c44Addr{kind: "empty"}
	case 4:
		return c44Addr{kind: "invalid", value: rapid.SampledFrom([]string{"not-an-address", "0x1234", "0xZZ40165195503fcf6a0fd20ac113223fefb66ed5", "bridge.eth"}).Draw(t, "badAddr")}
	default:
		hex := rapid.StringMatching("[0-9a-fA-F]{40}").Draw(t, "addrHex")
		prefix := rapid.SampledFrom([]string{"0x", "0x", "0X", ""}).Draw(t, "addrPrefix")
		return c44Addr{kind: "valid", value: prefix + hex}
	}
}

func c44SameStrings(a, b []string) bool {
	if len(a) != len(b) {
		return false
	}
	for i := range a {
		if a[i] != b[i] {
			return false
		}
	}
	return true
}

func c44Contains(list []string, s string) bool {
	for _, e := range list {
		if e == s {
			return true
		}
	}
	return false
}

// c44CheckNetworks: the pair always belongs to one network; it is the selected
// one when the selection is unambiguous.
func c44CheckNetworks(t *rapid.T, sel c44Selection, cfg *Config) c44Net {
	var got *c44Net
	for _, name := range []string{"mainnet", "testnet", "developer"} {
		n := c44Nets[name]
		if cfg.Ethereum.Network == n.eth && cfg.Bitcoin.Network == n.btc {
			got = &n
		}
	}
	if got == nil {
		t.Fatalf("%v: Ethereum network %d and Bitcoin network %d do not belong to one client network", sel, cfg.Ethereum.Network, cfg.Bitcoin.Network)
	}
	if want := sel.selected(); want != "" && got.name != want {
		t.Fatalf("%v selects %s but the config runs on %s (ethereum %d, bitcoin %d)", sel, want, got.name, cfg.Ethereum.Network, cfg.Bitcoin.Network)
	}
	return *got
}

// c44CheckResolved: explicit values kept, unset values = defaults of `net`.
func c44CheckResolved(t *rapid.T, what string, net c44Net, cfg *Config, peers []string, url string, addrs map[string]c44Addr) {
	// peers
	if len(peers) > 0 {
		if !c44SameStrings(cfg.LibP2P.Peers, peers) {
			t.Fatalf("%s: explicit peers %q were changed to %q", what, peers, cfg.LibP2P.Peers)
		}
	} else if want := net.defaultPeers(t); !c44SameStrings(cfg.LibP2P.Peers, want) {
		t.Fatalf("%s: peers unset on %s: got %q, embedded defaults are %q", what, net.name, cfg.LibP2P.Peers, want)
	}
	// electrum
	if url != "" {
		if cfg.Bitcoin.Electrum.URL != url {
			t.Fatalf("%s: explicit Electrum URL %q was changed to %q", what, url, cfg.Bitcoin.Electrum.URL)
		}
	} else if urls := net.defaultURLs(t); len(urls) == 0 {
		if cfg.Bitcoin.Electrum.URL != "" {
			t.Fatalf("%s: Electrum URL unset on %s (no embedded servers) but resolved to %q", what, net.name, cfg.Bitcoin.Electrum.URL)
		}
	} else if !c44Contains(urls, cfg.Bitcoin.Electrum.URL) {
		t.Fatalf("%s: Electrum URL unset on %s: got %q, not one of the embedded %q", what, net.name, cfg.Bitcoin.Electrum.URL, urls)
	}
	// contracts
	for _, name := range c44Contracts {
		got, present := cfg.Ethereum.ContractAddresses[strings.ToLower(name)]
		a := addrs[name]
		switch a.kind {
		case "valid", "invalid":
			if !present || got != a.value {
				t.Fatalf("%s: explicit %s address %q was changed to %q (present %v)", what, name, a.value, got, present)
			}
		default:
			if !present || got != c44DefaultAddress[name] {
				t.Fatalf("%s: %s address not set explicitly (%q): got %q (present %v), default is %q", what, name, a.kind, got, present, c44DefaultAddress[name])
			}
		}
	}
}

func c44AddrLabels(addrs map[string]c44Addr) (explicit, unset int, labels []string) {
	kinds := map[string]bool{}
	for _, name := range c44Contracts {
		k := addrs[name].kind
		if k == "valid" || k == "invalid" {
			explicit++
		} else {
			unset++
		}
		if k == "" {
			k = "absent"
		}
		kinds["addr:"+k] = true
	}
	for k := range kinds {
		labels = append(labels, k)
	}
	sort.Strings(labels)
	return
}

func c44RenderAddrs(addrs map[string]c44Addr) string {
	var parts []string
	for _, name := range c44Contracts {
		a := addrs[name]
		switch a.kind {
		case "":
		case "empty":
			parts = append(parts, name+`=""`)
		default:
			parts = append(parts, name+"="+a.value)
		}
	}
	return strings.Join(parts, ",")
}

// ---------------------------------------------------------------------------

// TestVerif_C44_Resolvers calls the four resolvers directly, in the order
// ReadConfig uses, on a Config holding a generated subset of explicit values.
func TestVerif_C44_Resolvers(t *testing.T) {
	c44Setup()
	st := verifkit.New("C44", "TestVerif_C44_Resolvers")
	defer st.Flush()
	rapid.Check(t, func(t *rapid.T) {
		sel := c44GenSelection(t, true)
		peers := c44GenPeers(t)
		emptyPeersSlice := len(peers) == 0 && rapid.Bool().Draw(t, "emptyPeersSlice")
		url := c44GenElectrumURL(t)
		addrs := map[string]c44Addr{}
		for _, name := range c44Contracts {
			addrs[name] = c44GenAddr(t)
		}
		nilMap := rapid.IntRange(0, 3).Draw(t, "nilAddressMap") == 0
		extraKey := rapid.Bool().Draw(t, "extraContract")

		cfg := &Config{}
		if len(peers) > 0 {
			cfg.LibP2P.Peers = append([]string{}, peers...)
		} else if emptyPeersSlice {
			cfg.LibP2P.Peers = []string{}
		}
		cfg.LibP2P.Port = rapid.IntRange(0, 65535).Draw(t, "port")
		cfg.Bitcoin.Electrum.URL = url
		cfg.Bitcoin.Electrum.ConnectTimeout = time.Duration(rapid.IntRange(0, 600).Draw(t, "connectTimeout")) * time.Second
		cfg.Bitcoin.Electrum.KeepAliveInterval = time.Duration(rapid.IntRange(0, 600).Draw(t, "keepAlive")) * time.Second
		cfg.Ethereum.URL = "ws://c44.example:8546"
		allAbsent := true
		for _, name := range c44Contracts {
			if addrs[name].kind != "" {
				allAbsent = false
			}
		}
		if !(nilMap && allAbsent && !extraKey) {
			cfg.Ethereum.ContractAddresses = map[string]string{}
			for _, name := range c44Contracts {
				if a := addrs[name]; a.kind != "" {
					cfg.Ethereum.ContractAddresses[strings.ToLower(name)] = a.value
				}
			}
			if extraKey {
				cfg.Ethereum.ContractAddresses["somethingelse"] = "0x00000000000000000000000000000000000000aa"
			}
		}
		electrumBefore := cfg.Bitcoin.Electrum
		libp2pBefore := cfg.LibP2P

		clientNetwork, err := cfg.resolveNetworks(c44NetworkFlagSet(sel))
		if err != nil {
			t.Fatalf("%v: resolveNetworks failed: %v", sel, err)
		}
		net := c44CheckNetworks(t, sel, cfg)
		if clientNetwork.Ethereum() != cfg.Ethereum.Network || clientNetwork.Bitcoin() != cfg.Bitcoin.Network {
			t.Fatalf("%v: returned client network %v does not match the config's networks (%v, %v)", sel, clientNetwork, cfg.Ethereum.Network, cfg.Bitcoin.Network)
		}
		cfg.resolveContractsAddresses()
		if err := cfg.resolvePeers(clientNetwork); err != nil {
			t.Fatalf("%v: resolvePeers failed: %v", sel, err)
		}
		seed := rapid.Int64().Draw(t, "rngSeed")
		if err := cfg.resolveElectrum(rand.New(rand.NewSource(seed))); err != nil {
			t.Fatalf("%v: resolveElectrum failed: %v", sel, err)
		}
		what := fmt.Sprintf("%v", sel)
		c44CheckResolved(t, what, net, cfg, peers, url, addrs)

		// nothing else is touched
		e := cfg.Bitcoin.Electrum
		e.URL = electrumBefore.URL
		if e != electrumBefore {
			t.Fatalf("%s: Electrum settings other than the URL changed: %+v -> %+v", what, electrumBefore, cfg.Bitcoin.Electrum)
		}
		if cfg.LibP2P.Port != libp2pBefore.Port || cfg.LibP2P.Bootstrap != libp2pBefore.Bootstrap {
			t.Fatalf("%s: network settings other than the peers changed", what)
		}
		if extraKey && cfg.Ethereum.ContractAddresses["somethingelse"] != "0x00000000000000000000000000000000000000aa" {
			t.Fatalf("%s: unrelated contract address changed", what)
		}
		if cfg.Ethereum.URL != "ws://c44.example:8546" {
			t.Fatalf("%s: ethereum URL changed", what)
		}

		// resolved values count as set: resolving again (another random
		// source) changes nothing
		snapshotPeers := append([]string{}, cfg.LibP2P.Peers...)
		snapshotURL := cfg.Bitcoin.Electrum.URL
		snapshotAddrs := map[string]string{}
		for k, v := range cfg.Ethereum.ContractAddresses {
			snapshotAddrs[k] = v
		}
		cfg.resolveContractsAddresses()
		_ = cfg.resolvePeers(clientNetwork)
		_ = cfg.resolveElectrum(rand.New(rand.NewSource(seed + 1)))
		if !c44SameStrings(snapshotPeers, cfg.LibP2P.Peers) || snapshotURL != cfg.Bitcoin.Electrum.URL || !reflect.DeepEqual(snapshotAddrs, cfg.Ethereum.ContractAddresses) {
			t.Fatalf("%s: resolving a second time changed already resolved values", what)
		}
		// the electrum choice is a function of the random source only
		if url == "" && net.urlsFile != "" {
			again := &Config{}
			again.Bitcoin.Network = cfg.Bitcoin.Network
			_ = again.resolveElectrum(rand.New(rand.NewSource(seed)))
			if again.Bitcoin.Electrum.URL != snapshotURL {
				t.Fatalf("%s: same random source picked %q then %q", what, snapshotURL, again.Bitcoin.Electrum.URL)
			}
		}

		explicit, unset, labels := c44AddrLabels(addrs)
		labels = append(labels, "net:"+net.name, fmt.Sprintf("flags-true:%d", sel.count()), fmt.Sprintf("flags-mentioned:%d", sel.mentioned()), fmt.Sprintf("explicit-false:%v", sel.mentioned() > sel.count()),
			fmt.Sprintf("peers:explicit=%v", len(peers) > 0), fmt.Sprintf("electrum:explicit=%v", url != ""))
		// non-trivial: explicit and unset values are mixed
		// (a network dependent default is due while an explicit value must stay)
		someExplicit := explicit > 0 || len(peers) > 0 || url != ""
		someUnset := unset > 0 && (len(peers) == 0 || url == "")
		st.Case(someExplicit && someUnset, fmt.Sprintf("%v peers=%q electrum=%q contracts={%s} nilMap=%v", sel, peers, url, c44RenderAddrs(addrs), nilMap), labels...)
	})
}

// ---------------------------------------------------------------------------
// end to end: configuration file + flags through ReadConfig

type c44Source struct {
	file string // value in the file ("" = not in the file)
	flag string // value of the flag ("" = flag not given)
}

func (s c44Source) effective() string {
	if s.flag != "" {
		return s.flag
	}
	return s.file
}

func c44GenSource(t *rapid.T, label string, gen func() string) c44Source {
	var s c44Source
	switch rapid.IntRange(0, 5).Draw(t, label+"Source") {
	case 0, 1:
	case 2, 3:
		s.file = gen()
	case 4:
		s.flag = gen()
	default:
		s.file = gen()
		s.flag = gen()
	}
	return s
}

func c44Key(t *rapid.T, key string) string {
	// viper keys are case-insensitive; the sample files capitalise them
	switch rapid.IntRange(0, 2).Draw(t, "keyCase") {
	case 0:
		return key
	case 1:
		return strings.ToUpper(key[:1]) + key[1:]
	default:
		return strings.ToLower(key)
	}
}

func c44FlagSet(sel c44Selection) *pflag.FlagSet {
	fs := c44NetworkFlagSet(sel)
	fs.StringSlice("network.peers", []string{}, "")
	fs.Int("network.port", 3919, "")
	fs.String("bitcoin.electrum.url", "", "")
	fs.Duration("bitcoin.electrum.connectTimeout", 10*time.Second, "")
	fs.String("ethereum.url", "", "")
	fs.String("storage.dir", "", "")
	for _, name := range c44Contracts {
		fs.String(GetDeveloperContractAddressKey(name), "", "")
	}
	return fs
}

func TestVerif_C44_ReadConfig(t *testing.T) {
	c44Setup()
	st := verifkit.New("C44", "TestVerif_C44_ReadConfig")
	defer st.Flush()
	dir := t.TempDir()
	rapid.Check(t, func(t *rapid.T) {
		viper.Reset()
		sel := c44GenSelection(t, false) // at most one network flag is true
		var peersFile, peersFlag []string
		switch rapid.IntRange(0, 5).Draw(t, "peersSource") {
		case 0, 1:
		case 2, 3:
			peersFile = c44GenPeers(t)
		case 4:
			peersFlag = c44GenPeers(t)
		default:
			peersFile, peersFlag = c44GenPeers(t), c44GenPeers(t)
		}
		emptyPeersInFile := len(peersFile) == 0 && rapid.Bool().Draw(t, "emptyPeersInFile")
		url := c44GenSource(t, "electrum", func() string { return c44GenElectrumURL(t) })
		addrSrc := map[string]c44Source{}
		addrs := map[string]c44Addr{}
		for _, name := range c44Contracts {
			src := c44GenSource(t, "addr", func() string { return c44GenAddr(t).value })
			addrSrc[name] = src
			v := src.effective()
			switch {
			case v == "":
				addrs[name] = c44Addr{}
			case c44IsHexAddress(v):
				addrs[name] = c44Addr{kind: "valid", value: v}
			default:
				addrs[name] = c44Addr{kind: "invalid", value: v}
			}
		}

		// configuration file
		var b strings.Builder
		// a `network` key in the [ethereum] / [bitcoin] section (the Config
		// structs embed their Network field, so the file can name it): absent,
		// equal to the selected network, another valid value, out of range
		selectedValue := map[string]int{"mainnet": 1, "testnet": 2, "developer": 3}[sel.selected()]
		genNetworkKey := func(label string) (string, string) {
			if verifkit.Known(c44FindingNetworkFromFile) {
				return "", "absent"
			}
			switch rapid.IntRange(0, 9).Draw(t, label+"NetworkKey") {
			case 0, 1:
				return fmt.Sprintf("%s = %d\n", rapid.SampledFrom([]string{"Network", "network"}).Draw(t, label+"NetworkKeyCase"), selectedValue), "same"
			case 2, 3:
				other := rapid.SampledFrom([]int{0, 1, 2, 3}).Filter(func(v int) bool { return v != selectedValue }).Draw(t, label+"OtherNetwork")
				return fmt.Sprintf("%s = %d\n", rapid.SampledFrom([]string{"Network", "network"}).Draw(t, label+"NetworkKeyCase"), other), "other"
			case 4:
				return fmt.Sprintf("%s = %d\n", rapid.SampledFrom([]string{"Network", "network"}).Draw(t, label+"NetworkKeyCase"), rapid.SampledFrom([]int{4, 7, 100}).Draw(t, label+"BadNetwork")), "out-of-range"
			}
			return "", "absent"
		}
		ethNetworkLine, ethNetworkKind := genNetworkKey("ethereum")
		btcNetworkLine, btcNetworkKind := genNetworkKey("bitcoin")
		if verifkit.Known(c44FindingNetworkFromFile) {
			st.Excluded(c44FindingNetworkFromFile)
		}
		b.WriteString("[" + c44Key(t, "ethereum") + "]\n" + c44Key(t, "URL") + " = \"ws://c44.example:8546\"\nKeyFile = \"/tmp/c44-keyfile\"\n" + ethNetworkLine + "\n")
		if btcNetworkLine != "" {
			b.WriteString("[bitcoin]\n" + btcNetworkLine + "\n") // same spelling as [bitcoin.electrum]: TOML tables differing only in case would collide in viper
		}
		b.WriteString("[bitcoin.electrum]\nConnectTimeout = \"54s\"\n")
		if url.file != "" {
			b.WriteString(c44Key(t, "URL") + " = \"" + url.file + "\"\n")
		}
		b.WriteString("\n")
		b.WriteString("[" + c44Key(t, "network") + "]\nPort = 27001\n")
		if len(peersFile) > 0 || emptyPeersInFile {
			var q []string
			for _, p := range peersFile {
				q = append(q, "\""+p+"\"")
			}
			b.WriteString(c44Key(t, "peers") + " = [" + strings.Join(q, ", ") + "]\n")
		}
		b.WriteString("\n[storage]\nDir = \"/c44/storage\"\n\n")
		dev := ""
		for _, name := range c44Contracts {
			if v := addrSrc[name].file; v != "" {
				dev += c44Key(t, name+"Address") + " = \"" + v + "\"\n"
			}
		}
		if dev != "" {
			b.WriteString("[" + c44Key(t, "developer") + "]\n" + dev)
		}
		useFile := true
		anyFileValue := url.file != "" || len(peersFile) > 0 || emptyPeersInFile || dev != "" || ethNetworkLine != "" || btcNetworkLine != ""
		if !anyFileValue && rapid.Bool().Draw(t, "noConfigFile") {
			useFile = false
		}
		path := ""
		if useFile {
			path = filepath.Join(dir, "c44.toml")
			if err := os.WriteFile(path, []byte(b.String()), 0o600); err != nil {
				t.Fatalf("cannot write the config file: %v", err)
			}
		}

		// flags
		fs := c44FlagSet(sel)
		setFlag := func(name, value string) {
			if err := fs.Set(name, value); err != nil {
				t.Fatalf("flag --%s=%q rejected: %v", name, value, err)
			}
		}
		if len(peersFlag) > 0 {
			setFlag("network.peers", strings.Join(peersFlag, ","))
		}
		if url.flag != "" {
			setFlag("bitcoin.electrum.url", url.flag)
		}
		for _, name := range c44Contracts {
			if v := addrSrc[name].flag; v != "" {
				setFlag(GetDeveloperContractAddressKey(name), v)
			}
		}

		cfg := &Config{}
		fileNetworks := ""
		if useFile && (ethNetworkKind != "absent" || btcNetworkKind != "absent") {
			fileNetworks = fmt.Sprintf(" [finding-key=%s] (the file says ethereum: %q bitcoin: %q)", c44FindingNetworkFromFile, strings.TrimSpace(ethNetworkLine), strings.TrimSpace(btcNetworkLine))
		}
		if err := cfg.ReadConfig(path, fs); err != nil {
			t.Fatalf("%v: ReadConfig failed: %v%s\nfile:\n%s", sel, err, fileNetworks, b.String())
		}
		if fileNetworks != "" {
			want := c44Nets[sel.selected()]
			if cfg.Ethereum.Network != want.eth || cfg.Bitcoin.Network != want.btc {
				t.Fatalf("%v selects %s (ethereum %d, bitcoin %d) but the config runs on ethereum %d / bitcoin %d%s", sel, want.name, want.eth, want.btc, cfg.Ethereum.Network, cfg.Bitcoin.Network, fileNetworks)
			}
		}
		net := c44CheckNetworks(t, sel, cfg)
		peers := peersFile
		if len(peersFlag) > 0 {
			peers = peersFlag
		}
		what := fmt.Sprintf("%v file=%v", sel, useFile)
		c44CheckResolved(t, what, net, cfg, peers, url.effective(), addrs)
		if useFile {
			if cfg.LibP2P.Port != 27001 || cfg.Storage.Dir != "/c44/storage" || cfg.Ethereum.URL != "ws://c44.example:8546" {
				t.Fatalf("%s: unrelated file values lost: port %d dir %q url %q", what, cfg.LibP2P.Port, cfg.Storage.Dir, cfg.Ethereum.URL)
			}
			if cfg.Bitcoin.Electrum.ConnectTimeout != 54*time.Second {
				t.Fatalf("%s: Electrum ConnectTimeout of the file lost: %v", what, cfg.Bitcoin.Electrum.ConnectTimeout)
			}
		}

		explicit, unset, labels := c44AddrLabels(addrs)
		srcLabel := func(name string, file, flag bool) string {
			switch {
			case file && flag:
				return name + ":file+flag"
			case file:
				return name + ":file"
			case flag:
				return name + ":flag"
			}
			return name + ":unset"
		}
		labels = append(labels, "net:"+net.name, fmt.Sprintf("configFile:%v", useFile), fmt.Sprintf("flags-mentioned:%d", sel.mentioned()), fmt.Sprintf("explicit-false:%v", sel.mentioned() > sel.count()), "file-eth-network:"+ethNetworkKind, "file-btc-network:"+btcNetworkKind,
			srcLabel("peers", len(peersFile) > 0, len(peersFlag) > 0), srcLabel("electrum", url.file != "", url.flag != ""))
		someExplicit := explicit > 0 || len(peers) > 0 || url.effective() != ""
		someUnset := unset > 0 && (len(peers) == 0 || url.effective() == "")
		st.Case(someExplicit && someUnset, fmt.Sprintf("%v file=%v peers(file=%q flag=%q) electrum(%+v) contracts={%s}", sel, useFile, peersFile, peersFlag, url, c44RenderAddrs(addrs)), labels...)
	})
}

// hex address syntax check written for the harness (40 hex digits, optional 0x)
func c44IsHexAddress(s string) bool {
	if strings.HasPrefix(s, "0x") || strings.HasPrefix(s, "0X") {
		s = s[2:]
	}
	if len(s) != 40 {
		return false
	}
	for _, c := range s {
		if !strings.ContainsRune("0123456789abcdefABCDEF", c) {
			return false
		}
	}
	return true
}
