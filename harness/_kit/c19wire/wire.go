//go:build go1.23

// Package c19wire is the engine shared by the C19 harnesses (decoders are
// total and round-trip). It is owned by property C19 and only imported by the
// c19_* harness files. It contains
//
//   - a small protobuf wire-format walker/encoder written for the harness (the
//     oracle side never uses the protobuf library),
//   - structure-aware mutation of a field tree (rapid driven),
//   - an evaluator of "effective" field values of a hostile encoding (last one
//     wins / sub-messages merge / repeated fields do not) used by the
//     validation oracle (member index range, fixed length fields),
//   - a reflective canonical renderer used to compare typed values,
//   - the two property runners (round trip, hostile input) and the oracle for
//     native fuzz targets.
package c19wire

import (
	"bytes"
	"encoding/binary"
	"sort"
)

// wire types
const (
	TVarint  = 0
	TFixed64 = 1
	TBytes   = 2
	TSGroup  = 3
	TEGroup  = 4
	TFixed32 = 5
)

// Node is one field of a decoded protobuf message.
type Node struct {
	Num   uint64 // field number
	Typ   uint8  // wire type
	Val   uint64 // varint / fixed value
	Raw   []byte // payload of a length-delimited field that is not descended into
	Kids  []*Node
	IsMsg bool // length-delimited field descended into (payload = Kids)

	// hostile encoding knobs
	LenDelta int64 // added to the emitted length prefix
	Pad      int   // extra continuation bytes in the value varint (non-minimal)
}

func (n *Node) clone() *Node {
	c := *n
	c.Raw = append([]byte(nil), n.Raw...)
	c.Kids = nil
	for _, k := range n.Kids {
		c.Kids = append(c.Kids, k.clone())
	}
	return &c
}

// readVarint decodes a base-128 varint (at most 10 bytes). n == 0 on failure.
func readVarint(b []byte) (v uint64, n int) {
	for i := 0; i < len(b) && i < 10; i++ {
		c := b[i]
		if i == 9 && c > 1 {
			return 0, 0
		}
		v |= uint64(c&0x7f) << (7 * uint(i))
		if c < 0x80 {
			return v, i + 1
		}
	}
	return 0, 0
}

func appendVarint(b []byte, v uint64, pad int) []byte {
	for v >= 0x80 {
		b = append(b, byte(v)|0x80)
		v >>= 7
	}
	if pad <= 0 {
		return append(b, byte(v))
	}
	b = append(b, byte(v)|0x80)
	for i := 1; i < pad; i++ {
		b = append(b, 0x80)
	}
	return append(b, 0)
}

// rawField is one top-level field of a message as found on the wire.
type rawField struct {
	num     uint64
	typ     uint8
	val     uint64
	payload []byte
}

// scan walks the top level of a message. ok is false when the bytes are not a
// well-formed sequence of fields (field number 0, group markers, truncated
// value, length running past the end).
func scan(b []byte) (fields []rawField, ok bool) {
	for len(b) > 0 {
		tag, n := readVarint(b)
		if n == 0 {
			return nil, false
		}
		b = b[n:]
		f := rawField{num: tag >> 3, typ: uint8(tag & 7)}
		if f.num == 0 || f.num > 1<<29-1 {
			return nil, false
		}
		switch f.typ {
		case TVarint:
			v, n := readVarint(b)
			if n == 0 {
				return nil, false
			}
			f.val = v
			b = b[n:]
		case TFixed64:
			if len(b) < 8 {
				return nil, false
			}
			f.val = binary.LittleEndian.Uint64(b)
			b = b[8:]
		case TFixed32:
			if len(b) < 4 {
				return nil, false
			}
			f.val = uint64(binary.LittleEndian.Uint32(b))
			b = b[4:]
		case TBytes:
			l, n := readVarint(b)
			if n == 0 {
				return nil, false
			}
			b = b[n:]
			if l > uint64(len(b)) {
				return nil, false
			}
			f.payload = b[:l]
			b = b[l:]
		default:
			return nil, false
		}
		fields = append(fields, f)
	}
	return fields, true
}

// Parse decodes b into a field tree. Length-delimited payloads are descended
// into when they themselves look like a message with small field numbers (the
// walker has no schema); depth bounds the recursion.
func Parse(b []byte, depth int) ([]*Node, bool) {
	fields, ok := scan(b)
	if !ok {
		return nil, false
	}
	var out []*Node
	for _, f := range fields {
		n := &Node{Num: f.num, Typ: f.typ, Val: f.val}
		if f.typ == TBytes {
			n.Raw = append([]byte(nil), f.payload...)
			if depth > 0 && len(f.payload) > 0 {
				// descend only when re-encoding gives back the same bytes
				// (no padded varints inside), so that untouched parts of a
				// tree stay byte-identical
				if kids, ok := Parse(f.payload, depth-1); ok && smallNumbers(kids) && bytes.Equal(Encode(kids), f.payload) {
					n.Kids, n.IsMsg, n.Raw = kids, true, nil
				}
			}
		}
		out = append(out, n)
	}
	return out, true
}

func smallNumbers(nodes []*Node) bool {
	for _, n := range nodes {
		if n.Num > 64 {
			return false
		}
	}
	return len(nodes) > 0
}

// Encode serialises a field tree (with its hostile knobs).
func Encode(nodes []*Node) []byte {
	var b []byte
	for _, n := range nodes {
		b = appendVarint(b, n.Num<<3|uint64(n.Typ&7), 0)
		switch n.Typ {
		case TVarint:
			b = appendVarint(b, n.Val, n.Pad)
		case TFixed64:
			b = binary.LittleEndian.AppendUint64(b, n.Val)
		case TFixed32:
			b = binary.LittleEndian.AppendUint32(b, uint32(n.Val))
		case TBytes:
			payload := n.Raw
			if n.IsMsg {
				payload = Encode(n.Kids)
			}
			l := int64(len(payload)) + n.LenDelta
			if l < 0 {
				l = 0
			}
			b = appendVarint(b, uint64(l), n.Pad)
			b = append(b, payload...)
		default: // group markers carry no value
		}
	}
	return b
}

// Normalize re-orders every run of adjacent length-delimited fields with the
// same number by content. The protobuf encoder emits map entries in random
// order; the result is an equally valid encoding (of the same maps) that only
// depends on the value, which keeps generated cases reproducible from the seed.
func Normalize(b []byte) []byte {
	nodes, ok := Parse(b, 6)
	if !ok {
		return b
	}
	normalizeNodes(nodes)
	return Encode(nodes)
}

func normalizeNodes(nodes []*Node) {
	for _, n := range nodes {
		if n.IsMsg {
			normalizeNodes(n.Kids)
		}
	}
	for i := 0; i < len(nodes); {
		j := i + 1
		for j < len(nodes) && nodes[j].Num == nodes[i].Num && nodes[j].Typ == TBytes && nodes[i].Typ == TBytes {
			j++
		}
		if j-i > 1 {
			run := nodes[i:j]
			sort.SliceStable(run, func(a, b int) bool {
				return bytes.Compare(Encode([]*Node{run[a]}), Encode([]*Node{run[b]})) < 0
			})
		}
		i = j
	}
}

// Canon is a canonical rendering of an encoding that does not depend on the
// order of fields (protobuf map entries are emitted in random order); equal
// encodings have equal canonical forms.
func Canon(b []byte) string {
	nodes, ok := Parse(b, 6)
	if !ok {
		return "raw:" + hexs(b)
	}
	return canonNodes(nodes)
}

func canonNodes(nodes []*Node) string {
	parts := make([]string, 0, len(nodes))
	for _, n := range nodes {
		switch {
		case n.Typ == TBytes && n.IsMsg:
			parts = append(parts, itoa(n.Num)+"{"+canonNodes(n.Kids)+"}")
		case n.Typ == TBytes:
			parts = append(parts, itoa(n.Num)+"="+hexs(n.Raw))
		default:
			parts = append(parts, itoa(n.Num)+":"+itoa(uint64(n.Typ))+":"+itoa(n.Val))
		}
	}
	sortStrings(parts)
	s := ""
	for i, p := range parts {
		if i > 0 {
			s += ","
		}
		s += p
	}
	return s
}

// ---------------------------------------------------------------------------
// effective values of a hostile encoding (what a protobuf decoder ends up with)

// Step is one hop of a path from the top-level message to a leaf field.
type Step struct {
	Num uint64
	// Rep: the field is repeated; every occurrence counts separately.
	// Otherwise the last occurrence wins (scalars) or all occurrences are
	// merged (embedded messages).
	Rep bool
	// Blob: the hop is a bytes field whose content is decoded later as a
	// message by the code under test (last occurrence wins, nothing merges,
	// an absent field is decoded as the empty message).
	Blob bool
}

// Leaf is one effective occurrence of a leaf field.
type Leaf struct {
	Present bool
	Varint  uint64
	Bytes   []byte
}

// Leaves evaluates path on the encoding b. wantTyp is the wire type of the
// leaf in the schema (occurrences with another wire type are unknown fields
// for a protobuf decoder and are ignored). ok is false when some message on
// the path is not well formed (the decoder must fail anyway).
func Leaves(b []byte, path []Step, wantTyp uint8) (leaves []Leaf, ok bool) {
	msgs := [][]byte{b}
	for i, s := range path {
		last := i == len(path)-1
		var next [][]byte
		for _, m := range msgs {
			fields, ok := scan(m)
			if !ok {
				return nil, false
			}
			if last {
				var occ []Leaf
				for _, f := range fields {
					if f.num == s.Num && f.typ == wantTyp {
						occ = append(occ, Leaf{Present: true, Varint: f.val, Bytes: f.payload})
					}
				}
				switch {
				case s.Rep:
					leaves = append(leaves, occ...)
				case len(occ) == 0:
					leaves = append(leaves, Leaf{})
				default:
					leaves = append(leaves, occ[len(occ)-1])
				}
				continue
			}
			var occ [][]byte
			for _, f := range fields {
				if f.num == s.Num && f.typ == TBytes {
					occ = append(occ, f.payload)
				}
			}
			switch {
			case s.Rep:
				next = append(next, occ...)
			case s.Blob:
				if len(occ) == 0 {
					next = append(next, nil)
				} else {
					next = append(next, occ[len(occ)-1])
				}
			case len(occ) == 0:
				// absent embedded message: nothing below it exists
			default:
				var merged []byte
				for _, o := range occ {
					merged = append(merged, o...)
				}
				next = append(next, merged)
			}
		}
		msgs = next
	}
	return leaves, true
}

// MapKeys returns the effective keys (uint32) of all entries of the map field
// reached by path (the last step is the map field itself).
func MapKeys(b []byte, path []Step) (keys []uint64, ok bool) {
	p := append([]Step{}, path...)
	p[len(p)-1].Rep = true
	p = append(p, Step{Num: 1})
	leaves, ok := Leaves(b, p, TVarint)
	if !ok {
		return nil, false
	}
	for _, l := range leaves {
		keys = append(keys, uint64(uint32(l.Varint)))
	}
	return keys, true
}
