//go:build go1.23

package c19wire

import (
	"crypto/elliptic"
	"fmt"
	"math/big"
	"reflect"
	"sort"
	"strings"
	"time"
	"unsafe"
)

var (
	bigIntType = reflect.TypeOf((*big.Int)(nil))
	timeType   = reflect.TypeOf(time.Time{})
	curveType  = reflect.TypeOf((*elliptic.Curve)(nil)).Elem()
	bytesType  = reflect.TypeOf([]byte(nil))
)

// Render gives a canonical textual form of a typed value (pointer to a
// message / record struct, unexported fields included). Two values are
// considered equal iff their renderings are equal. Normalisations: nil and
// empty slices / maps are the same; curve points and ephemeral keys (anything
// with a `Marshal() []byte` method) are compared by their serialisation;
// big integers by value (nil stays distinct from zero); times by instant.
func Render(v any) string {
	var sb strings.Builder
	rv := reflect.ValueOf(v)
	render(&sb, rv, 0)
	return sb.String()
}

func marshalBytesMethod(v reflect.Value) (reflect.Value, bool) {
	m := v.MethodByName("Marshal")
	if !m.IsValid() {
		return m, false
	}
	mt := m.Type()
	if mt.NumIn() != 0 || mt.NumOut() != 1 || mt.Out(0) != bytesType {
		return m, false
	}
	return m, true
}

func callMarshal(m reflect.Value) (s string) {
	defer func() {
		if r := recover(); r != nil {
			s = fmt.Sprintf("<Marshal panics: %v>", r)
		}
	}()
	out := m.Call(nil)
	return "#" + hexs(out[0].Bytes())
}

func render(sb *strings.Builder, v reflect.Value, depth int) {
	if depth > 14 {
		sb.WriteString("…")
		return
	}
	if !v.IsValid() {
		sb.WriteString("nil")
		return
	}
	t := v.Type()
	switch {
	case t == bigIntType:
		if v.IsNil() {
			sb.WriteString("nil")
			return
		}
		sb.WriteString("0x" + v.Interface().(*big.Int).Text(16))
		return
	case t == timeType:
		tm := v.Interface().(time.Time)
		fmt.Fprintf(sb, "time(%d.%09d)", tm.Unix(), tm.Nanosecond())
		return
	case t.Implements(curveType) && (v.Kind() != reflect.Ptr && v.Kind() != reflect.Interface || !v.IsNil()):
		sb.WriteString("curve(" + v.Interface().(elliptic.Curve).Params().Name + ")")
		return
	}
	if v.Kind() == reflect.Ptr && !v.IsNil() {
		if m, ok := marshalBytesMethod(v); ok {
			sb.WriteString(callMarshal(m))
			return
		}
	}
	switch v.Kind() {
	case reflect.Bool:
		fmt.Fprintf(sb, "%v", v.Bool())
	case reflect.Int, reflect.Int8, reflect.Int16, reflect.Int32, reflect.Int64:
		fmt.Fprintf(sb, "%d", v.Int())
	case reflect.Uint, reflect.Uint8, reflect.Uint16, reflect.Uint32, reflect.Uint64, reflect.Uintptr:
		fmt.Fprintf(sb, "%d", v.Uint())
	case reflect.String:
		fmt.Fprintf(sb, "%q", v.String())
	case reflect.Ptr:
		if v.IsNil() {
			sb.WriteString("nil")
			return
		}
		sb.WriteString("&")
		render(sb, v.Elem(), depth+1)
	case reflect.Interface:
		if v.IsNil() {
			sb.WriteString("nil")
			return
		}
		e := v.Elem()
		sb.WriteString("(" + e.Type().String() + ")")
		render(sb, e, depth+1)
	case reflect.Slice, reflect.Array:
		if t.Elem().Kind() == reflect.Uint8 {
			b := make([]byte, v.Len())
			for i := range b {
				b[i] = byte(v.Index(i).Uint())
			}
			sb.WriteString("x'" + hexs(b) + "'")
			return
		}
		sb.WriteString("[")
		for i := 0; i < v.Len(); i++ {
			if i > 0 {
				sb.WriteString(" ")
			}
			render(sb, v.Index(i), depth+1)
		}
		sb.WriteString("]")
	case reflect.Map:
		type kv struct{ k, v string }
		var items []kv
		iter := v.MapRange()
		for iter.Next() {
			var kb, vb strings.Builder
			render(&kb, iter.Key(), depth+1)
			render(&vb, addressable(iter.Value()), depth+1)
			items = append(items, kv{kb.String(), vb.String()})
		}
		sort.Slice(items, func(i, j int) bool { return items[i].k < items[j].k })
		sb.WriteString("{")
		for i, it := range items {
			if i > 0 {
				sb.WriteString(" ")
			}
			sb.WriteString(it.k + ":" + it.v)
		}
		sb.WriteString("}")
	case reflect.Struct:
		v = addressable(v)
		if m, ok := marshalBytesMethod(v.Addr()); ok {
			sb.WriteString(callMarshal(m))
			return
		}
		sb.WriteString(t.Name() + "{")
		for i := 0; i < v.NumField(); i++ {
			f := v.Field(i)
			if !f.CanInterface() {
				f = reflect.NewAt(f.Type(), unsafe.Pointer(f.UnsafeAddr())).Elem()
			}
			if i > 0 {
				sb.WriteString(" ")
			}
			sb.WriteString(t.Field(i).Name + ":")
			render(sb, f, depth+1)
		}
		sb.WriteString("}")
	default:
		fmt.Fprintf(sb, "<%s>", v.Kind())
	}
}

// addressable returns v itself when it can be addressed, else a copy that can.
func addressable(v reflect.Value) reflect.Value {
	if v.CanAddr() {
		return v
	}
	c := reflect.New(v.Type()).Elem()
	c.Set(v)
	return c
}
