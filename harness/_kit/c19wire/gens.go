//go:build go1.23

package c19wire

import (
	"math/big"

	"pgregory.net/rapid"
)

// GenIndex draws a member index, biased to the ends of the uint8 range.
func GenIndex(t *rapid.T, label string) uint8 {
	if draw(t, rapid.IntRange(0, 3), label+".edge") == 0 {
		return draw(t, rapid.SampledFrom([]uint8{0, 1, 2, 127, 128, 254, 255}), label)
	}
	return uint8(draw(t, rapid.IntRange(0, 255), label))
}

// GenIndexSet draws 0..max distinct member indices.
func GenIndexSet(t *rapid.T, label string, max int) []uint8 {
	n := draw(t, rapid.IntRange(0, max), label+".n")
	seen := map[uint8]bool{}
	var out []uint8
	for i := 0; i < n; i++ {
		x := GenIndex(t, label)
		if !seen[x] {
			seen[x] = true
			out = append(out, x)
		}
	}
	return out
}

// GenBig draws a non-negative big integer: zero, small, word-boundary, 32-byte
// and multi-hundred-byte values (Paillier sized) all occur.
func GenBig(t *rapid.T, label string) *big.Int {
	switch draw(t, rapid.IntRange(0, 7), label+".kind") {
	case 0:
		return new(big.Int)
	case 1:
		return big.NewInt(int64(draw(t, rapid.IntRange(1, 300), label)))
	case 2:
		return new(big.Int).SetUint64(draw(t, rapid.SampledFrom([]uint64{1<<63 - 1, 1 << 63, 1<<64 - 1, 1<<32 - 1, 1 << 32}), label))
	case 3:
		// leading byte 0xff / 0x80 (sign-looking) at several widths
		n := draw(t, rapid.SampledFrom([]int{1, 8, 20, 32, 33, 64, 256}), label+".width")
		b := make([]byte, n)
		b[0] = draw(t, rapid.SampledFrom([]byte{0x80, 0xff, 0x01}), label+".lead")
		return new(big.Int).SetBytes(b)
	case 4:
		return new(big.Int).SetBytes(draw(t, rapid.SliceOfN(rapid.Byte(), 200, 300), label))
	default:
		return new(big.Int).SetBytes(draw(t, rapid.SliceOfN(rapid.Byte(), 1, 40), label))
	}
}

// GenBigs draws a list of non-negative big integers.
func GenBigs(t *rapid.T, label string, max int) []*big.Int {
	n := draw(t, rapid.IntRange(0, max), label+".n")
	out := make([]*big.Int, n)
	for i := range out {
		out[i] = GenBig(t, label)
	}
	return out
}

// GenText draws a valid UTF-8 string (proto3 string fields reject others).
func GenText(t *rapid.T, label string) string {
	switch draw(t, rapid.IntRange(0, 3), label+".kind") {
	case 0:
		return ""
	case 1:
		return draw(t, rapid.StringMatching(`[0-9]{1,20}`), label)
	case 2:
		return draw(t, rapid.StringMatching(`0x[0-9a-fA-F]{40}`), label)
	default:
		return draw(t, rapid.StringN(0, 40, -1), label)
	}
}

// GenPayload draws an opaque byte payload (nil, empty, short, long).
func GenPayload(t *rapid.T, label string) []byte {
	switch draw(t, rapid.IntRange(0, 4), label+".kind") {
	case 0:
		return nil
	case 1:
		return []byte{}
	case 2:
		return draw(t, rapid.SliceOfN(rapid.Byte(), 1500, 3000), label)
	default:
		return draw(t, rapid.SliceOfN(rapid.Byte(), 1, 70), label)
	}
}

// GenScalar32 draws 32 bytes that are a non-zero scalar below any 254+ bit
// group order (top byte cleared to 0x1f at most).
func GenScalar32(t *rapid.T, label string) []byte {
	b := draw(t, rapid.SliceOfN(rapid.Byte(), 32, 32), label)
	b[0] &= 0x1f
	b[31] |= 1
	return b
}

// GenFixed draws exactly n bytes.
func GenFixed(t *rapid.T, label string, n int) []byte {
	switch draw(t, rapid.IntRange(0, 3), label+".fill") {
	case 0:
		return make([]byte, n)
	case 1:
		b := make([]byte, n)
		for i := range b {
			b[i] = 0xff
		}
		return b
	default:
		return draw(t, rapid.SliceOfN(rapid.Byte(), n, n), label)
	}
}
