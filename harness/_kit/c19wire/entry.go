//go:build go1.23

package c19wire

import (
	"testing"

	"github.com/keep-network/keep-core/internal/verifkit"
	"pgregory.net/rapid"
)

// RunRoundTrip is the whole body of a TestVerif_C19_<Pkg>RoundTrip function.
func RunRoundTrip(t *testing.T, test string, codecs []Codec) {
	st := verifkit.New("C19", test)
	defer st.Flush()
	rapid.Check(t, func(t *rapid.T) { RoundTrip(t, st, codecs) })
}

// RunHostile is the whole body of a TestVerif_C19_<Pkg>Hostile function.
func RunHostile(t *testing.T, test string, codecs []Codec) {
	st := verifkit.New("C19", test)
	defer st.Flush()
	rapid.Check(t, func(t *rapid.T) { Hostile(t, st, codecs) })
}

// RunFuzz is the whole body of a FuzzVerif_C19_<Pkg> native fuzz target.
func RunFuzz(f *testing.F, codecs []Codec) {
	which, data := Seeds(codecs)
	for i := range which {
		f.Add(which[i], data[i])
	}
	f.Fuzz(func(t *testing.T, which uint8, data []byte) { FuzzOne(t, codecs, which, data) })
}
