//go:build go1.23

package c19wire

import (
	"encoding/hex"
	"fmt"
	"sort"
	"strconv"

	"pgregory.net/rapid"
)

func hexs(b []byte) string                                          { return hex.EncodeToString(b) }
func itoa(v uint64) string                                          { return strconv.FormatUint(v, 10) }
func sortStrings(s []string)                                        { sort.Strings(s) }
func draw[T any](t *rapid.T, g *rapid.Generator[T], label string) T { return g.Draw(t, label) }

// Draw is g.Draw(t, label) (argument order that reads better in generators).
func Draw[T any](t *rapid.T, g *rapid.Generator[T], label string) T { return g.Draw(t, label) }

// edge values for varint fields: around the uint8 / uint32 / int32 / uint64
// limits, including values that truncate to something small.
var edgeVarints = []uint64{
	0, 1, 2, 127, 128, 254, 255, 256, 257, 300, 511, 65535, 65536,
	1<<31 - 1, 1 << 31, 1<<32 - 1, 1 << 32, 1<<32 + 1, 1<<32 + 255, 1<<32 + 256,
	1<<63 - 1, 1 << 63, 1<<63 + 5, 1<<64 - 1, 1<<64 - 128, 1<<64 - 129,
}

// edge lengths for byte fields: around every fixed length the decoders check
// (8 nonce, 16 heartbeat, 20 hash160, 32 hashes/scalars, 33/65 keys, 64/128
// curve points).
var edgeLens = []int{0, 1, 7, 8, 9, 15, 16, 17, 19, 20, 21, 31, 32, 33, 34, 63, 64, 65, 66, 127, 128, 129, 256}

// GenEdgeBytes draws a byte string whose length sits on or next to one of the
// lengths the decoders care about.
func GenEdgeBytes(t *rapid.T, label string) []byte {
	var n int
	if draw(t, rapid.IntRange(0, 3), label+".lenKind") == 0 {
		n = draw(t, rapid.IntRange(0, 300), label+".len")
	} else {
		n = draw(t, rapid.SampledFrom(edgeLens), label+".edgeLen")
	}
	switch draw(t, rapid.IntRange(0, 3), label+".fill") {
	case 0:
		return make([]byte, n)
	case 1:
		b := make([]byte, n)
		for i := range b {
			b[i] = 0xff
		}
		return b
	default:
		return draw(t, rapid.SliceOfN(rapid.Byte(), n, n), label+".bytes")
	}
}

type slot struct {
	parent *Node
	idx    int
}

func slots(root *Node) []slot {
	var out []slot
	var walk func(p *Node)
	walk = func(p *Node) {
		for i, k := range p.Kids {
			out = append(out, slot{p, i})
			if k.IsMsg {
				walk(k)
			}
		}
	}
	walk(root)
	return out
}

func containers(root *Node) []*Node {
	out := []*Node{root}
	var walk func(p *Node)
	walk = func(p *Node) {
		for _, k := range p.Kids {
			if k.IsMsg {
				out = append(out, k)
				walk(k)
			}
		}
	}
	walk(root)
	return out
}

func removeAt(p *Node, i int) {
	p.Kids = append(p.Kids[:i:i], p.Kids[i+1:]...)
}

func insertAt(p *Node, i int, n *Node) {
	kids := append([]*Node{}, p.Kids[:i]...)
	kids = append(kids, n)
	p.Kids = append(kids, p.Kids[i:]...)
}

var opNames = []string{
	"delete", "delete", "delete", "empty", "empty", "dup", "dup-end", "varint", "varint", "varint",
	"bytes", "bytes", "bytes", "tweak", "retag", "retype", "len", "unknown", "swap", "pad",
	"add-varint", "add-varint", "add-bytes", "add-bytes", "graft", "packed",
}

// Mutate applies 1..3 structure-aware operations to the field tree of a valid
// encoding and returns the new encoding and the names of the operations.
func Mutate(t *rapid.T, valid []byte) ([]byte, []string) {
	kids, ok := Parse(valid, 6)
	if !ok {
		// cannot happen for encoder output; fall back to raw bytes
		return append([]byte(nil), valid...), []string{"unparsable"}
	}
	root := &Node{IsMsg: true, Kids: kids}
	nOps := draw(t, rapid.IntRange(1, 3), "ops")
	var names []string
	for o := 0; o < nOps; o++ {
		op := draw(t, rapid.SampledFrom(opNames), "op")
		sl := slots(root)
		if len(sl) == 0 && op != "add-varint" && op != "add-bytes" && op != "unknown" {
			op = "add-varint"
		}
		pick := func() slot { return sl[draw(t, rapid.IntRange(0, len(sl)-1), "target")] }
		pickTyp := func(typ uint8) (slot, bool) {
			var c []slot
			for _, s := range sl {
				if s.parent.Kids[s.idx].Typ == typ {
					c = append(c, s)
				}
			}
			if len(c) == 0 {
				return slot{}, false
			}
			return c[draw(t, rapid.IntRange(0, len(c)-1), "typedTarget")], true
		}
		switch op {
		case "delete":
			s := pick()
			removeAt(s.parent, s.idx)
		case "empty":
			s, ok := pickTyp(TBytes)
			if !ok {
				s = pick()
				removeAt(s.parent, s.idx)
				op = "delete"
				break
			}
			n := s.parent.Kids[s.idx]
			n.Raw, n.Kids, n.IsMsg = nil, nil, false
		case "dup":
			s := pick()
			insertAt(s.parent, s.idx+1, s.parent.Kids[s.idx].clone())
		case "dup-end":
			// duplicate with a changed copy at the end: the last one wins /
			// sub-messages merge
			s := pick()
			c := s.parent.Kids[s.idx].clone()
			switch {
			case c.Typ == TVarint:
				c.Val = draw(t, rapid.SampledFrom(edgeVarints), "dupVal")
			case c.Typ == TBytes && !c.IsMsg:
				c.Raw = GenEdgeBytes(t, "dupBytes")
			case c.IsMsg && len(c.Kids) > 0:
				c.Kids = c.Kids[:draw(t, rapid.IntRange(0, len(c.Kids)-1), "dupKeep")]
			}
			s.parent.Kids = append(s.parent.Kids, c)
		case "varint":
			s, ok := pickTyp(TVarint)
			if !ok {
				c := containers(root)
				p := c[draw(t, rapid.IntRange(0, len(c)-1), "container")]
				p.Kids = append(p.Kids, &Node{Num: uint64(draw(t, rapid.IntRange(1, 6), "num")), Typ: TVarint,
					Val: draw(t, rapid.SampledFrom(edgeVarints), "val")})
				op = "add-varint"
				break
			}
			s.parent.Kids[s.idx].Val = draw(t, rapid.SampledFrom(edgeVarints), "val")
		case "bytes":
			s, ok := pickTyp(TBytes)
			if !ok {
				s = pick()
			}
			n := s.parent.Kids[s.idx]
			n.Typ, n.Kids, n.IsMsg = TBytes, nil, false
			n.Raw = GenEdgeBytes(t, "raw")
		case "tweak":
			// change the length of a byte field by one, keep the content
			s, ok := pickTyp(TBytes)
			if !ok {
				s = pick()
			}
			n := s.parent.Kids[s.idx]
			if n.IsMsg {
				n.Raw, n.Kids, n.IsMsg = Encode(n.Kids), nil, false
			}
			n.Typ = TBytes
			switch draw(t, rapid.IntRange(0, 3), "tweak") {
			case 0:
				if len(n.Raw) > 0 {
					n.Raw = n.Raw[:len(n.Raw)-1]
				}
			case 1:
				if len(n.Raw) > 0 {
					n.Raw = n.Raw[1:]
				}
			case 2:
				n.Raw = append(n.Raw, draw(t, rapid.Byte(), "extra"))
			default:
				if len(n.Raw) > 0 {
					i := draw(t, rapid.IntRange(0, len(n.Raw)-1), "flipAt")
					n.Raw[i] ^= 1 << uint(draw(t, rapid.IntRange(0, 7), "flipBit"))
				}
			}
		case "retag":
			s := pick()
			s.parent.Kids[s.idx].Num = uint64(draw(t, rapid.IntRange(1, 12), "newNum"))
		case "retype":
			s := pick()
			n := s.parent.Kids[s.idx]
			nt := draw(t, rapid.SampledFrom([]uint8{TVarint, TFixed64, TBytes, TFixed32, TSGroup, TEGroup}), "newTyp")
			if n.Typ == TBytes && nt != TBytes {
				n.Val = uint64(len(n.Raw))
			}
			if nt == TBytes && n.Typ != TBytes {
				n.Raw, n.Kids, n.IsMsg = appendVarint(nil, n.Val, 0), nil, false
			}
			n.Typ = nt
		case "len":
			s, ok := pickTyp(TBytes)
			if !ok {
				s = pick()
				removeAt(s.parent, s.idx)
				op = "delete"
				break
			}
			s.parent.Kids[s.idx].LenDelta = draw(t, rapid.SampledFrom([]int64{-1, 1, 2, 100, 1 << 20, 1<<31 - 1, 1 << 31, 1 << 40, 1<<63 - 1}), "lenDelta")
		case "unknown":
			c := containers(root)
			p := c[draw(t, rapid.IntRange(0, len(c)-1), "container")]
			n := &Node{Num: draw(t, rapid.SampledFrom([]uint64{13, 15, 16, 100, 2047, 1<<29 - 1, 0, 1 << 29}), "unknownNum"),
				Typ: draw(t, rapid.SampledFrom([]uint8{TVarint, TBytes, TFixed32, TFixed64}), "unknownTyp"),
				Val: draw(t, rapid.SampledFrom(edgeVarints), "unknownVal")}
			if n.Typ == TBytes {
				n.Raw = GenEdgeBytes(t, "unknownRaw")
			}
			insertAt(p, draw(t, rapid.IntRange(0, len(p.Kids)), "at"), n)
		case "swap":
			s := pick()
			j := draw(t, rapid.IntRange(0, len(s.parent.Kids)-1), "swapWith")
			s.parent.Kids[s.idx], s.parent.Kids[j] = s.parent.Kids[j], s.parent.Kids[s.idx]
		case "pad":
			s := pick()
			s.parent.Kids[s.idx].Pad = draw(t, rapid.SampledFrom([]int{1, 2, 5, 9, 10}), "pad")
		case "add-varint":
			c := containers(root)
			p := c[draw(t, rapid.IntRange(0, len(c)-1), "container")]
			n := &Node{Num: uint64(draw(t, rapid.IntRange(1, 8), "num")), Typ: TVarint,
				Val: draw(t, rapid.SampledFrom(edgeVarints), "val")}
			insertAt(p, draw(t, rapid.IntRange(0, len(p.Kids)), "at"), n)
		case "add-bytes":
			c := containers(root)
			p := c[draw(t, rapid.IntRange(0, len(c)-1), "container")]
			n := &Node{Num: uint64(draw(t, rapid.IntRange(1, 10), "num")), Typ: TBytes, Raw: GenEdgeBytes(t, "raw")}
			insertAt(p, draw(t, rapid.IntRange(0, len(p.Kids)), "at"), n)
		case "packed":
			// a length-delimited field holding packed varints (repeated
			// scalar fields accept this form), values at the integer limits
			var payload []byte
			for i, n := 0, draw(t, rapid.IntRange(1, 4), "packedN"); i < n; i++ {
				payload = appendVarint(payload, draw(t, rapid.SampledFrom(edgeVarints), "packedVal"), 0)
			}
			if s, ok := pickTyp(TBytes); ok && draw(t, rapid.Bool(), "packedReplace") {
				n := s.parent.Kids[s.idx]
				n.Raw, n.Kids, n.IsMsg = payload, nil, false
			} else {
				c := containers(root)
				p := c[draw(t, rapid.IntRange(0, len(c)-1), "container")]
				p.Kids = append(p.Kids, &Node{Num: uint64(draw(t, rapid.IntRange(1, 8), "num")), Typ: TBytes, Raw: payload})
			}
		case "graft":
			// move a copy of a field into another message of the tree
			s := pick()
			c := containers(root)
			p := c[draw(t, rapid.IntRange(0, len(c)-1), "container")]
			p.Kids = append(p.Kids, s.parent.Kids[s.idx].clone())
		}
		names = append(names, op)
	}
	out := Encode(root.Kids)
	if len(out) > 0 && draw(t, rapid.IntRange(0, 11), "cut") == 0 {
		out = out[:draw(t, rapid.IntRange(0, len(out)-1), "cutAt")]
		names = append(names, "truncate")
	}
	return out, names
}

// GenTree draws a random well-formed field tree that is not derived from any
// encoder output.
func GenTree(t *rapid.T, depth int) []*Node {
	n := draw(t, rapid.IntRange(0, 6), "fields")
	var out []*Node
	for i := 0; i < n; i++ {
		f := &Node{Num: uint64(draw(t, rapid.IntRange(1, 9), "num"))}
		switch k := draw(t, rapid.IntRange(0, 9), "kind"); {
		case k < 3:
			f.Typ, f.Val = TVarint, draw(t, rapid.SampledFrom(edgeVarints), "val")
		case k < 6:
			f.Typ, f.Raw = TBytes, GenEdgeBytes(t, "raw")
		case k < 8 && depth > 0:
			f.Typ, f.IsMsg, f.Kids = TBytes, true, GenTree(t, depth-1)
		case k == 8:
			f.Typ, f.Val = TFixed32, draw(t, rapid.Uint64(), "fixed")
		default:
			f.Typ, f.Val = TFixed64, draw(t, rapid.Uint64(), "fixed")
		}
		out = append(out, f)
	}
	return out
}

func clip(b []byte, n int) string {
	if len(b) <= n {
		return hexs(b)
	}
	return fmt.Sprintf("%s…(%d bytes)", hexs(b[:n]), len(b))
}
