//go:build go1.23

package c19wire

import (
	"fmt"
	"strings"

	"github.com/keep-network/keep-core/internal/verifkit"
	"pgregory.net/rapid"
)

// Msg is what every decoder under test implements.
type Msg interface {
	Marshal() ([]byte, error)
	Unmarshal([]byte) error
}

// Rule kinds of the validation oracle.
const (
	// MaxVarint: the effective uint32 value of the leaf must be <= Max
	// (member indices, action types), else the decoder must fail.
	MaxVarint = iota
	// MapKeyMax: every key of the map field must be <= Max.
	MapKeyMax
	// FixedLen: the effective byte string must be exactly Len bytes long.
	FixedLen
	// Int32Range: the effective int32 value must be within [Min, Maxi].
	Int32Range
)

// Rule states a validation the decoder documents (error text / comment in the
// marshaling file): an encoding that breaks it must be rejected, never
// silently truncated into a different value.
type Rule struct {
	Name string
	Kind int
	Path []Step
	Max  uint64
	Len  int
	Min  int64
	Maxi int64
}

// Codec describes one decoder under test.
type Codec struct {
	Name string
	// Key is the finding key printed with a violation of this decoder (and the
	// key under which an open known finding excludes it).
	Key string
	New func() Msg
	// Gen draws a typed value of the type's documented domain.
	Gen func(t *rapid.T) Msg
	// Rules of the validation oracle.
	Rules []Rule
	// Sender: path of the sender index (uint32 varint) and the accessor; a
	// successfully decoded message must carry exactly the effective value.
	SenderPath []Step
	Sender     func(Msg) uint64
	// Touch calls the accessors of a decoded value (must not panic).
	Touch func(Msg)
	// Valid checks invariants every value of the type has and the decoder is
	// documented to enforce (curve points are on their curve).
	Valid func(Msg) error
	// Storage marks persisted records (start-up path).
	Storage bool
}

// TB is the part of rapid.T / testing.T the oracle needs.
type TB interface {
	Helper()
	Fatalf(format string, args ...any)
}

type outcome struct {
	err      error
	panicked any
}

func safeUnmarshal(m Msg, b []byte) (o outcome) {
	defer func() {
		if r := recover(); r != nil {
			o.panicked = r
		}
	}()
	o.err = m.Unmarshal(b)
	return
}

func safeMarshal(m Msg) (b []byte, o outcome) {
	defer func() {
		if r := recover(); r != nil {
			o.panicked = r
		}
	}()
	b, o.err = m.Marshal()
	return
}

func safeTouch(c *Codec, m Msg) (p any) {
	if c.Touch == nil {
		return nil
	}
	defer func() { p = recover() }()
	c.Touch(m)
	return nil
}

func (c *Codec) key() string {
	if c.Key != "" {
		return c.Key
	}
	return "C19-" + c.Name
}

// ruleBroken evaluates the validation rules on the encoding with the
// harness' own wire walker. applicable is false when the encoding is not
// well formed on the path (the decoder has to fail for that reason anyway).
func ruleBroken(r *Rule, in []byte) (broken bool, why string, applicable bool) {
	switch r.Kind {
	case MaxVarint:
		ls, ok := Leaves(in, r.Path, TVarint)
		if !ok {
			return false, "", false
		}
		for _, l := range ls {
			if v := uint64(uint32(l.Varint)); v > r.Max {
				return true, fmt.Sprintf("%s = %d > %d", r.Name, v, r.Max), true
			}
		}
	case MapKeyMax:
		ks, ok := MapKeys(in, r.Path)
		if !ok {
			return false, "", false
		}
		for _, k := range ks {
			if k > r.Max {
				return true, fmt.Sprintf("%s key %d > %d", r.Name, k, r.Max), true
			}
		}
	case FixedLen:
		ls, ok := Leaves(in, r.Path, TBytes)
		if !ok {
			return false, "", false
		}
		for _, l := range ls {
			if len(l.Bytes) != r.Len {
				return true, fmt.Sprintf("%s has %d bytes, not %d", r.Name, len(l.Bytes), r.Len), true
			}
		}
	case Int32Range:
		ls, ok := Leaves(in, r.Path, TVarint)
		if !ok {
			return false, "", false
		}
		for _, l := range ls {
			if v := int64(int32(uint32(l.Varint))); v < r.Min || v > r.Maxi {
				return true, fmt.Sprintf("%s = %d outside [%d,%d]", r.Name, v, r.Min, r.Maxi), true
			}
		}
	}
	return false, "", true
}

// Verdict is what the oracle observed for one input.
type Verdict struct {
	Accepted   bool
	Structural bool // the input is a well-formed field sequence at top level
	Canonical  bool // accepted and the re-encoding equals the input (an encoder output)
	RuleBroken bool
}

// CheckDecode runs decoder c on input in and applies the whole oracle:
//  1. Unmarshal does not panic;
//  2. an input that breaks a documented validation is rejected;
//  3. an accepted value carries the effective sender index, survives its
//     accessors, re-marshals without panic or error, and decoding that
//     encoding gives back an equal value (it is a value of the type's domain).
func CheckDecode(t TB, c *Codec, in []byte) Verdict {
	t.Helper()
	var vd Verdict
	_, vd.Structural = scan(in)
	v := c.New()
	o := safeUnmarshal(v, in)
	if o.panicked != nil {
		t.Fatalf("[finding-key=%s] %s.Unmarshal panics: %v\ninput (%d bytes): %s", c.key(), c.Name, o.panicked, len(in), hexs(in))
	}
	for i := range c.Rules {
		broken, why, ok := ruleBroken(&c.Rules[i], in)
		if ok && broken {
			vd.RuleBroken = true
			if o.err == nil {
				t.Fatalf("[finding-key=%s] %s.Unmarshal accepted an encoding it must reject: %s\ninput: %s\ndecoded: %s",
					c.key(), c.Name, why, hexs(in), Render(v))
			}
		}
	}
	if o.err != nil {
		return vd
	}
	vd.Accepted = true
	if c.Sender != nil {
		ls, ok := Leaves(in, c.SenderPath, TVarint)
		if ok && len(ls) == 1 {
			want := uint64(uint32(ls[0].Varint))
			if got := c.Sender(v); got != want {
				t.Fatalf("[finding-key=%s] %s.Unmarshal decoded sender index %d from an encoding that carries %d\ninput: %s",
					c.key(), c.Name, got, want, hexs(in))
			}
		}
	}
	if p := safeTouch(c, v); p != nil {
		t.Fatalf("[finding-key=%s] %s.Unmarshal returned no error but an accessor of the value panics: %v\ninput: %s", c.key(), c.Name, p, hexs(in))
	}
	if c.Valid != nil {
		if err := c.Valid(v); err != nil {
			t.Fatalf("[finding-key=%s] %s.Unmarshal returned no error but the value is not valid: %v\ninput: %s", c.key(), c.Name, err, hexs(in))
		}
	}
	before := Render(v)
	b1, mo := safeMarshal(v)
	if mo.panicked != nil {
		t.Fatalf("[finding-key=%s] %s.Unmarshal returned no error but the value cannot be marshalled (Marshal panics: %v)\ninput: %s\ndecoded: %s",
			c.key(), c.Name, mo.panicked, hexs(in), before)
	}
	if mo.err != nil {
		t.Fatalf("[finding-key=%s] %s.Unmarshal returned no error but the value cannot be marshalled (%v)\ninput: %s\ndecoded: %s",
			c.key(), c.Name, mo.err, hexs(in), before)
	}
	v2 := c.New()
	o2 := safeUnmarshal(v2, b1)
	if o2.panicked != nil || o2.err != nil {
		t.Fatalf("[finding-key=%s] %s: the re-encoding of an accepted value is not decodable (panic=%v err=%v)\ninput: %s\nre-encoded: %s",
			c.key(), c.Name, o2.panicked, o2.err, hexs(in), hexs(b1))
	}
	if after := Render(v2); after != before {
		t.Fatalf("[finding-key=%s] %s accepted an encoding as a value that does not survive its own encoder\ninput: %s\ndecoded:    %s\nre-decoded: %s",
			c.key(), c.Name, hexs(in), before, after)
	}
	vd.Canonical = Canon(b1) == Canon(in)
	return vd
}

// CheckRoundTrip: decoding what was encoded gives back an equal value.
func CheckRoundTrip(t TB, c *Codec, v Msg) []byte {
	t.Helper()
	want := Render(v)
	b, o := safeMarshal(v)
	if o.panicked != nil || o.err != nil {
		t.Fatalf("[finding-key=%s] %s.Marshal failed on a value of its domain (panic=%v err=%v)\nvalue: %s", c.key(), c.Name, o.panicked, o.err, want)
	}
	v2 := c.New()
	o2 := safeUnmarshal(v2, b)
	if o2.panicked != nil || o2.err != nil {
		t.Fatalf("[finding-key=%s] %s.Unmarshal rejects the encoder's output (panic=%v err=%v)\nvalue: %s\nencoding: %s", c.key(), c.Name, o2.panicked, o2.err, want, hexs(b))
	}
	if got := Render(v2); got != want {
		t.Fatalf("[finding-key=%s] %s round trip changed the value\nbefore: %s\nafter:  %s\nencoding: %s", c.key(), c.Name, want, got, hexs(b))
	}
	if c.Valid != nil {
		if err := c.Valid(v2); err != nil {
			t.Fatalf("harness validity predicate of %s rejects a round-tripped value of the domain: %v", c.Name, err)
		}
	}
	if after := Render(v); after != want {
		t.Fatalf("[finding-key=%s] %s.Marshal modified its receiver\nbefore: %s\nafter:  %s", c.key(), c.Name, want, after)
	}
	// the validation oracle must agree that encoder output is acceptable
	for i := range c.Rules {
		if broken, why, ok := ruleBroken(&c.Rules[i], b); ok && broken {
			t.Fatalf("harness rule %q flags encoder output (%s) - rule is wrong\nencoding: %s", c.Rules[i].Name, why, hexs(b))
		}
	}
	if c.Sender != nil {
		if ls, ok := Leaves(b, c.SenderPath, TVarint); !ok || len(ls) != 1 || uint64(uint32(ls[0].Varint)) != c.Sender(v2) {
			t.Fatalf("harness sender path of %s does not find the sender index in encoder output %s", c.Name, hexs(b))
		}
	}
	return b
}

func pickCodec(t *rapid.T, codecs []Codec) *Codec {
	return &codecs[draw(t, rapid.IntRange(0, len(codecs)-1), "decoder")]
}

// RoundTrip is the body of the TestVerif_C19_<Pkg>RoundTrip properties.
func RoundTrip(t *rapid.T, st *verifkit.Stats, codecs []Codec) {
	c := pickCodec(t, codecs)
	v := c.Gen(t)
	b := CheckRoundTrip(t, c, v)
	// A decoded value stays equal to what was encoded: decoding a second
	// message of the same type must not change a value decoded before (the
	// node keeps decoded messages in its histories).
	w := c.Gen(t)
	if bw, ow := safeMarshal(w); ow.panicked == nil && ow.err == nil {
		d1 := c.New()
		if o1 := safeUnmarshal(d1, b); o1.panicked == nil && o1.err == nil {
			want1 := Render(d1)
			d2 := c.New()
			_ = safeUnmarshal(d2, bw)
			if got1 := Render(d1); got1 != want1 {
				t.Fatalf("[finding-key=%s] %s: decoding a second message changed a previously decoded value\nbefore: %s\nafter:  %s\nsecond:  %s",
					c.key(), c.Name, want1, got1, Render(w))
			}
		}
	}
	fields, _ := scan(b)
	desc := fmt.Sprintf("%s %s", c.Name, Render(v))
	st.Case(len(fields) >= 2, desc, "type:"+c.Name, fmt.Sprintf("fields:%d", min(len(fields), 6)), sizeLabel(len(b)))
}

func sizeLabel(n int) string {
	switch {
	case n == 0:
		return "bytes:0"
	case n < 32:
		return "bytes:<32"
	case n < 256:
		return "bytes:<256"
	case n < 4096:
		return "bytes:<4k"
	default:
		return "bytes:>=4k"
	}
}

// Hostile is the body of the TestVerif_C19_<Pkg>Hostile properties: inputs
// other than encoder output.
func Hostile(t *rapid.T, st *verifkit.Stats, codecs []Codec) {
	c := pickCodec(t, codecs)
	if verifkit.Known(c.key()) {
		st.Excluded(c.key())
		return
	}
	var in []byte
	var ops []string
	src := ""
	switch k := draw(t, rapid.IntRange(0, 19), "source"); {
	case k < 13:
		src = "mutated"
		valid := Normalize(CheckRoundTrip(t, c, c.Gen(t)))
		in, ops = Mutate(t, valid)
	case k < 16:
		src = "tree"
		in = Encode(GenTree(t, 3))
	case k < 18 && len(codecs) > 1:
		// a well-formed encoding of another message type of the package (what
		// a peer gets when type tags are confused) - optionally mutated
		src = "other-type"
		o := pickCodec(t, codecs)
		valid := Normalize(CheckRoundTrip(t, o, o.Gen(t)))
		in = valid
		ops = []string{o.Name}
		if draw(t, rapid.Bool(), "mutateOther") {
			var m []string
			in, m = Mutate(t, valid)
			ops = append(ops, m...)
		}
	default:
		src = "raw"
		in = draw(t, rapid.SliceOfN(rapid.Byte(), 0, 96), "rawBytes")
	}
	vd := CheckDecode(t, c, in)
	res := "error"
	if vd.Accepted {
		res = "value"
	}
	nt := vd.Structural && !vd.Canonical
	labels := []string{"type:" + c.Name, "src:" + src, "result:" + res,
		fmt.Sprintf("wellformed:%v", vd.Structural), fmt.Sprintf("rule-broken:%v", vd.RuleBroken)}
	if src == "mutated" {
		for _, o := range ops {
			labels = append(labels, "op:"+o)
		}
	}
	if vd.Accepted && !vd.Canonical {
		labels = append(labels, "accepted-noncanonical")
	}
	st.Case(nt, fmt.Sprintf("%s %s[%s] %s -> %s", c.Name, src, strings.Join(ops, ","), clip(in, 160), res), labels...)
}

// FuzzOne is the oracle of the native fuzz targets: which selects the decoder.
func FuzzOne(t TB, codecs []Codec, which uint8, data []byte) {
	c := &codecs[int(which)%len(codecs)]
	if verifkit.Known(c.key()) {
		return
	}
	CheckDecode(t, c, data)
}

// Seeds returns seed inputs for a native fuzz target: a few valid encodings
// per decoder (deterministic) and some hostile constants.
func Seeds(codecs []Codec) (which []uint8, data [][]byte) {
	for i := range codecs {
		c := &codecs[i]
		for s := 1; s <= 3; s++ {
			v := example(c, s)
			if v == nil {
				continue
			}
			if b, o := safeMarshal(v); o.panicked == nil && o.err == nil {
				which, data = append(which, uint8(i)), append(data, b)
			}
		}
		for _, h := range [][]byte{{}, {0x0a, 0x00}, {0x08, 0xff, 0xff, 0xff, 0xff, 0x0f}, {0x12, 0x02, 0x08, 0x01}} {
			which, data = append(which, uint8(i)), append(data, h)
		}
	}
	return
}

// ---------------------------------------------------------------------------
// helpers to declare codecs

// P builds a path of singular (non-repeated) steps.
func P(nums ...uint64) []Step {
	out := make([]Step, len(nums))
	for i, n := range nums {
		out[i] = Step{Num: n}
	}
	return out
}

// WithSender declares that field 1 of the message is the sender member index
// (uint32 on the wire, uint8 in the protocol): values above 255 must be
// rejected and an accepted message must carry exactly the value on the wire.
func (c Codec) WithSender(get func(Msg) uint64) Codec {
	c.SenderPath = P(1)
	c.Sender = get
	c.Rules = append(c.Rules, Rule{Name: "sender index", Kind: MaxVarint, Path: P(1), Max: 255})
	return c
}

// WithIndexMap declares that field num is a map keyed by member index.
func (c Codec) WithIndexMap(name string, num uint64) Codec {
	c.Rules = append(c.Rules, Rule{Name: name, Kind: MapKeyMax, Path: P(num), Max: 255})
	return c
}

// WithFixed declares a byte field of a fixed length.
func (c Codec) WithFixed(name string, n int, path ...Step) Codec {
	c.Rules = append(c.Rules, Rule{Name: name, Kind: FixedLen, Path: path, Len: n})
	return c
}

// example draws a deterministic value of the decoder's type (nil when the
// generator draws nothing, e.g. for the empty noop proposal).
func example(c *Codec, seed int) (m Msg) {
	defer func() {
		if recover() != nil {
			m = nil
		}
	}()
	return rapid.Custom(c.Gen).Example(seed)
}

// Decode runs the plain decoder of c over b (panics are treated as a
// rejection here; the Hostile property reports them).
func Decode(c *Codec, b []byte) (Msg, bool) {
	v := c.New()
	o := safeUnmarshal(v, b)
	return v, o.panicked == nil && o.err == nil
}
