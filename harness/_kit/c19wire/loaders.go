//go:build go1.23

package c19wire

import (
	"bytes"
	"encoding/hex"
	"encoding/json"
	"fmt"
	"os"
	"os/exec"
	"path/filepath"
	"sort"
	"strings"
	"testing"
	"time"

	"github.com/keep-network/keep-common/pkg/persistence"
	"github.com/keep-network/keep-core/internal/verifkit"
	"pgregory.net/rapid"
)

// Storage loaders: the start-up code that walks a persistence handle and runs
// a record decoder over every file (pre-parameters pool, beacon group
// registry, tbtc wallet registry). They are the only production callers of
// the record decoders, so "a damaged record gives an error, not a crash"
// has to hold for them, not only for Unmarshal itself. The loaders decode in
// goroutines of their own: a panic there cannot be recovered by the test, it
// kills the process. The property therefore runs in a child process (the same
// test binary re-executed); the parent turns a dead child into a violation
// with the input that was being loaded.

// File is one file of a generated storage.
type File struct {
	Dir, Name  string
	Content    []byte
	Unreadable bool   // Content() of the descriptor returns an error
	Kind       string // how the content was made (label only)
}

type fileJSON struct {
	Dir, Name, Hex, Kind string
	Unreadable           bool
}

func encodeFiles(loader string, files []File) []byte {
	out := struct {
		Loader string
		Files  []fileJSON
	}{Loader: loader}
	for _, f := range files {
		out.Files = append(out.Files, fileJSON{f.Dir, f.Name, hex.EncodeToString(f.Content), f.Kind, f.Unreadable})
	}
	b, _ := json.MarshalIndent(out, "", " ")
	return b
}

func decodeFiles(b []byte) (string, []File, error) {
	var in struct {
		Loader string
		Files  []fileJSON
	}
	if err := json.Unmarshal(b, &in); err != nil {
		return "", nil, err
	}
	var files []File
	for _, f := range in.Files {
		c, err := hex.DecodeString(f.Hex)
		if err != nil {
			return "", nil, err
		}
		files = append(files, File{f.Dir, f.Name, c, f.Unreadable, f.Kind})
	}
	return in.Loader, files, nil
}

// MemHandle is an in-memory persistence handle (satisfies BasicHandle and
// ProtectedHandle of keep-common) holding a generated storage.
type MemHandle struct{ Files []File }

type memDescriptor struct{ f File }

func (d memDescriptor) Name() string      { return d.f.Name }
func (d memDescriptor) Directory() string { return d.f.Dir }
func (d memDescriptor) Content() ([]byte, error) {
	if d.f.Unreadable {
		return nil, fmt.Errorf("generated read error")
	}
	return append([]byte(nil), d.f.Content...), nil
}

func (h *MemHandle) Save(data []byte, directory string, name string) error {
	h.Files = append(h.Files, File{Dir: directory, Name: name, Content: append([]byte(nil), data...)})
	return nil
}
func (h *MemHandle) Snapshot(data []byte, directory string, name string) error { return nil }
func (h *MemHandle) Archive(directory string) error                            { return nil }
func (h *MemHandle) Delete(directory string, name string) error {
	for i, f := range h.Files {
		if f.Dir == directory && f.Name == name {
			h.Files = append(h.Files[:i:i], h.Files[i+1:]...)
			return nil
		}
	}
	return fmt.Errorf("no such file")
}
func (h *MemHandle) ReadAll() (<-chan persistence.DataDescriptor, <-chan error) {
	dc := make(chan persistence.DataDescriptor)
	ec := make(chan error)
	files := append([]File(nil), h.Files...)
	go func() {
		for _, f := range files {
			dc <- memDescriptor{f}
		}
		close(dc)
		close(ec)
	}()
	return dc, ec
}

// Loader describes one storage loader under test.
type Loader struct {
	Name string
	// Codec of the record the storage holds (index into Codecs).
	Codecs []Codec
	Record int
	// Dir is the directory the loader reads records from ("" = every
	// directory); files elsewhere must be ignored.
	Dir string
	// Load runs the production loader over the storage and returns one
	// rendering per record it loaded (any order).
	Load func(h *MemHandle) ([]string, error)
	// Expect tells, independently of the loader (plain decoder plus the
	// validation the loader documents), whether the file is a loadable
	// record and how the loaded record renders.
	Expect func(f File) (string, bool)
}

func (l *Loader) key() string { return "C19-loader-" + l.Name }

// GenFiles draws a storage: 1..5 files, each healthy, cut, mutated, foreign,
// raw, empty or unreadable; file order is drawn too.
func GenFiles(t *rapid.T, l *Loader) []File {
	c := &l.Codecs[l.Record]
	n := draw(t, rapid.IntRange(1, 5), "files")
	var files []File
	for i := 0; i < n; i++ {
		f := File{Dir: l.Dir, Name: fmt.Sprintf("record_%d", i)}
		if f.Dir == "" {
			f.Dir = fmt.Sprintf("dir_%d", draw(t, rapid.IntRange(0, 2), "dir"))
		}
		switch k := draw(t, rapid.IntRange(0, 19), "fileKind"); {
		case k < 4:
			f.Kind = "healthy"
			f.Content = CheckRoundTrip(t, c, c.Gen(t))
		case k < 10:
			// a record cut short: crash or full disk while writing. Cut
			// positions inside a length-delimited field dominate because
			// records are a few long number fields.
			f.Kind = "cut"
			valid := CheckRoundTrip(t, c, c.Gen(t))
			if len(valid) > 0 {
				f.Content = valid[:draw(t, rapid.IntRange(0, len(valid)-1), "cutAt")]
			}
		case k < 13:
			f.Kind = "mutated"
			f.Content, _ = Mutate(t, Normalize(CheckRoundTrip(t, c, c.Gen(t))))
		case k < 15:
			f.Kind = "foreign"
			o := pickCodec(t, l.Codecs)
			f.Content = CheckRoundTrip(t, o, o.Gen(t))
		case k < 17:
			f.Kind = "raw"
			f.Content = draw(t, rapid.SliceOfN(rapid.Byte(), 1, 64), "rawBytes")
		case k < 18:
			f.Kind = "empty"
		case k < 19:
			f.Kind = "tree"
			f.Content = Encode(GenTree(t, 3))
		default:
			f.Kind = "unreadable"
			f.Unreadable = true
		}
		if l.Dir != "" && draw(t, rapid.IntRange(0, 9), "elsewhere") == 0 {
			f.Dir = "other_" + l.Dir
			f.Kind += "+elsewhere"
		}
		files = append(files, f)
	}
	return files
}

type loadResult struct {
	loaded   []string
	err      error
	panicked any
}

func safeLoad(l *Loader, files []File) (r loadResult) {
	defer func() {
		if p := recover(); p != nil {
			r.panicked = p
		}
	}()
	r.loaded, r.err = l.Load(&MemHandle{Files: append([]File(nil), files...)})
	return
}

func describeFiles(files []File) string {
	var sb strings.Builder
	for _, f := range files {
		fmt.Fprintf(&sb, "  %s/%s [%s] %s\n", f.Dir, f.Name, f.Kind, clip(f.Content, 120))
	}
	return sb.String()
}

// CheckLoad runs the loader over the storage: it must come back (no panic in
// the calling goroutine; a panic in a goroutine of the loader kills the
// process and is reported by the parent), return no error, and load exactly
// the records the decoder accepts - damaged files are skipped and do not take
// healthy neighbours with them.
func CheckLoad(t TB, l *Loader, files []File) (accepted int) {
	t.Helper()
	var want []string
	for _, f := range files {
		if f.Unreadable || (l.Dir != "" && f.Dir != l.Dir) {
			continue
		}
		if r, ok := l.Expect(f); ok {
			want = append(want, r)
		}
	}
	res := safeLoad(l, files)
	if res.panicked != nil {
		t.Fatalf("[finding-key=%s] %s panics: %v\nstorage:\n%s", l.key(), l.Name, res.panicked, describeFiles(files))
	}
	if res.err != nil {
		t.Fatalf("[finding-key=%s] %s fails as a whole because of damaged files: %v\nstorage:\n%s", l.key(), l.Name, res.err, describeFiles(files))
	}
	got := append([]string(nil), res.loaded...)
	sort.Strings(got)
	sort.Strings(want)
	if strings.Join(got, "\n") != strings.Join(want, "\n") {
		t.Fatalf("[finding-key=%s] %s loaded %d records, the decoder accepts %d of the files\nloaded:   %s\nexpected: %s\nstorage:\n%s",
			l.key(), l.Name, len(got), len(want), clipStrings(got), clipStrings(want), describeFiles(files))
	}
	return len(want)
}

func clipStrings(s []string) string {
	var out []string
	for _, x := range s {
		if len(x) > 160 {
			x = x[:160] + "…"
		}
		out = append(out, x)
	}
	return "[" + strings.Join(out, " | ") + "]"
}

const (
	loaderChildEnv = "VERIF_C19_LOADER_CHILD"
	loaderExt      = ".c19files"
)

func pendingPath(test string) string {
	dir := os.Getenv("VERIF_ARTIFACT_DIR")
	if dir == "" {
		dir = os.TempDir()
	}
	// not inside the artifact dir itself: the driver takes every file there
	// as a replay artifact
	return filepath.Join(filepath.Dir(dir), "pending-"+test+loaderExt)
}

// RunLoaders is the whole body of a TestVerif_C19_<Pkg>Loaders function.
func RunLoaders(t *testing.T, test string, loaders []Loader) {
	if os.Getenv(loaderChildEnv) == "" {
		runLoadersParent(t, test, loaders)
		return
	}
	pending := pendingPath(test)
	arm := func(l *Loader, files []File) {
		_ = os.MkdirAll(filepath.Dir(pending), 0o755)
		_ = os.WriteFile(pending, encodeFiles(l.Name, files), 0o644)
	}
	disarm := func() { _ = os.Remove(pending) }
	if rp := os.Getenv("VERIF_REPLAY"); strings.HasSuffix(rp, loaderExt) {
		data, err := os.ReadFile(rp)
		if err != nil {
			t.Fatalf("VERIF-INCONCLUSIVE: cannot read replay %s: %v", rp, err)
		}
		name, files, err := decodeFiles(data)
		if err != nil {
			t.Fatalf("VERIF-INCONCLUSIVE: cannot decode replay %s: %v", rp, err)
		}
		for i := range loaders {
			if loaders[i].Name == name {
				arm(&loaders[i], files)
				CheckLoad(t, &loaders[i], files)
				disarm()
				return
			}
		}
		t.Fatalf("VERIF-INCONCLUSIVE: replay names unknown loader %q", name)
	}
	st := verifkit.New("C19", test)
	defer st.Flush()
	rapid.Check(t, func(rt *rapid.T) {
		l := &loaders[draw(rt, rapid.IntRange(0, len(loaders)-1), "loader")]
		if verifkit.Known(l.key()) {
			st.Excluded(l.key())
			return
		}
		files := GenFiles(rt, l)
		arm(l, files)
		accepted := CheckLoad(rt, l, files)
		disarm()
		kinds := map[string]bool{}
		labels := []string{"loader:" + l.Name, fmt.Sprintf("files:%d", len(files)), fmt.Sprintf("loaded:%d", accepted)}
		damaged := 0
		var desc strings.Builder
		fmt.Fprintf(&desc, "%s ->%d:", l.Name, accepted)
		for _, f := range files {
			if !kinds[f.Kind] {
				kinds[f.Kind] = true
				labels = append(labels, "file:"+f.Kind)
			}
			if !strings.HasPrefix(f.Kind, "healthy") {
				damaged++
			}
			fmt.Fprintf(&desc, " %s/%s[%s]%s", f.Dir, f.Name, f.Kind, clip(f.Content, 24))
		}
		// non-trivial: at least one damaged file next to at least one record
		// that has to be loaded
		st.Case(damaged > 0 && accepted > 0, desc.String(), labels...)
	})
}

func runChild(test string, extraEnv ...string) (out []byte, err error, timedOut bool) {
	args := append([]string{}, os.Args[1:]...)
	cmd := exec.Command(os.Args[0], args...)
	cmd.Env = append(append(os.Environ(), loaderChildEnv+"=1", "GOLOG_LOG_LEVEL=fatal"), extraEnv...)
	var buf bytes.Buffer
	cmd.Stdout, cmd.Stderr = &buf, &buf
	if err := cmd.Start(); err != nil {
		return nil, err, false
	}
	done := make(chan error, 1)
	go func() { done <- cmd.Wait() }()
	limit := 20 * time.Minute
	if verifkit.Thorough() {
		limit = 35 * time.Minute
	}
	select {
	case err = <-done:
	case <-time.After(limit):
		_ = cmd.Process.Kill()
		<-done
		return buf.Bytes(), fmt.Errorf("killed after %v", limit), true
	}
	return buf.Bytes(), err, false
}

func crashed(out []byte) bool {
	s := string(out)
	return strings.Contains(s, "panic: ") && strings.Contains(s, "goroutine ") && !strings.Contains(s, "[rapid] failed") ||
		strings.Contains(s, "fatal error: ")
}

func tailOf(out []byte, n int) string {
	if len(out) > n {
		return "[...]\n" + string(out[len(out)-n:])
	}
	return string(out)
}

func headOfCrash(out []byte) string {
	s := string(out)
	i := strings.Index(s, "panic: ")
	if j := strings.Index(s, "fatal error: "); j >= 0 && (i < 0 || j < i) {
		i = j
	}
	if i < 0 {
		return tailOf(out, 1500)
	}
	s = s[i:]
	if len(s) > 1500 {
		s = s[:1500] + "\n[...]"
	}
	return s
}

func runLoadersParent(t *testing.T, test string, loaders []Loader) {
	pending := pendingPath(test)
	_ = os.Remove(pending)
	out, err, timedOut := runChild(test)
	if timedOut {
		t.Fatalf("VERIF-INCONCLUSIVE: loader child process did not finish: %v\n%s", err, tailOf(out, 1500))
	}
	if err == nil {
		// pass the child's rapid summary on (the driver reads the case count)
		fmt.Print(tailOf(out, 600))
		return
	}
	data, perr := os.ReadFile(pending)
	if perr != nil || !crashed(out) {
		// ordinary failure inside the child (rapid wrote its fail file): show
		// the failure message, not only the trailing draw log
		msg := string(out)
		if i := strings.Index(msg, "[rapid] failed"); i >= 0 {
			msg = msg[i:]
			if len(msg) > 5000 {
				msg = msg[:3500] + "\n[...]\n" + msg[len(msg)-1200:]
			}
		} else {
			msg = tailOf(out, 6000)
		}
		t.Fatalf("%s", msg)
	}
	// The child died while a loader ran: the pending file holds the storage.
	name, files, derr := decodeFiles(data)
	if derr != nil {
		t.Fatalf("VERIF-INCONCLUSIVE: loader child died and the pending storage is unreadable: %v\n%s", derr, tailOf(out, 1500))
	}
	culprit, crashOut := files, out
	if os.Getenv("VERIF_REPLAY") == "" && len(files) > 1 {
		for _, f := range files {
			one := filepath.Join(filepath.Dir(pending), "isolate"+loaderExt)
			_ = os.WriteFile(one, encodeFiles(name, []File{f}), 0o644)
			o, e, _ := runChild(test, "VERIF_REPLAY="+one)
			_ = os.Remove(one)
			if e != nil && crashed(o) {
				culprit, crashOut = []File{f}, o
				break
			}
		}
	}
	_ = os.Remove(pending)
	path := verifkit.ViolationFile(test+"-crash"+loaderExt, encodeFiles(name, culprit))
	key := "C19-loader-" + name
	t.Fatalf("[finding-key=%s] %s took the process down while loading a storage with damaged files (replay artifact %s)\nstorage:\n%s%s",
		key, name, path, describeFiles(culprit), headOfCrash(crashOut))
}
