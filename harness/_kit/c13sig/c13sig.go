//go:build go1.23

// Package c13sig is the shared generator and reference model of property C13
// (supporting signatures). It only uses exported keep-core API, so the three
// protocol packages (beacon dkg/result, tecdsa/dkg, protocol/inactivity) can
// drive their own unexported states with the same histories and compare with
// the same model.
//
// A Scenario is a group (seats held by operators, some operators holding
// several seats, some seats not operating), the member under test and a
// history of signature messages as they arrive from the network layer: the
// authenticated network key of the sender plus the payload fields (claimed
// sender index, hash, signature, public key, session).
package c13sig

import (
	"bytes"
	"crypto/ecdsa"
	"crypto/sha256"
	"fmt"
	"math/big"
	"sort"
	"strings"
	"sync"

	"github.com/btcsuite/btcd/btcec"
	"github.com/ethereum/go-ethereum/common"
	"github.com/ethereum/go-ethereum/crypto"
	"github.com/keep-network/keep-common/pkg/chain/ethereum/ethutil"
	"github.com/keep-network/keep-core/pkg/chain"
	"github.com/keep-network/keep-core/pkg/chain/local_v1"
	"github.com/keep-network/keep-core/pkg/operator"
	"github.com/keep-network/keep-core/pkg/protocol/group"
	"pgregory.net/rapid"
)

// Style selects the chain signer implementation.
type Style int

const (
	// Local is the local_v1 signer (ASN.1 ECDSA over sha256).
	Local Style = iota
	// Eth is the ethereum style signer of keep-common (65 byte r|s|v over the
	// prefixed keccak hash), wrapped like pkg/chain/ethereum does.
	Eth
)

func (s Style) String() string {
	if s == Eth {
		return "eth"
	}
	return "local"
}

// Key is an operator identity: the bytes the network layer reports as the
// sender's public key and the chain signer bound to the private key.
type Key struct {
	Name    string
	Pub     []byte
	Signing chain.Signing
}

// ethSigning mirrors pkg/chain/ethereum/signer.go (which is unexported).
type ethSigning struct {
	*ethutil.EthereumSigner
}

func (s *ethSigning) Address() chain.Address {
	return s.PublicKeyBytesToAddress(s.PublicKey())
}

func (s *ethSigning) PublicKeyToAddress(publicKey *operator.PublicKey) (chain.Address, error) {
	pk := ecdsa.PublicKey{Curve: crypto.S256(), X: publicKey.X, Y: publicKey.Y}
	return chain.Address(common.BytesToAddress(s.EthereumSigner.PublicKeyToAddress(pk)).String()), nil
}

func (s *ethSigning) PublicKeyBytesToAddress(publicKey []byte) chain.Address {
	return chain.Address(common.BytesToAddress(s.EthereumSigner.PublicKeyBytesToAddress(publicKey)).String())
}

const poolSize = 12 // 9 possible operators + 3 outsiders

var (
	poolOnce sync.Once
	pools    [2][]*Key
)

func keyPool(style Style) []*Key {
	poolOnce.Do(func() {
		for i := 0; i < poolSize; i++ {
			seed := sha256.Sum256([]byte(fmt.Sprintf("c13sig operator key %d", i)))
			d := new(big.Int).SetBytes(seed[:])
			d.Mod(d, new(big.Int).Sub(btcec.S256().N, big.NewInt(1)))
			d.Add(d, big.NewInt(1))
			x, y := btcec.S256().ScalarBaseMult(d.Bytes())
			opKey := &operator.PrivateKey{
				PublicKey: operator.PublicKey{Curve: operator.Secp256k1, X: x, Y: y},
				D:         d,
			}
			ls := local_v1.NewSigner(opKey)
			pools[Local] = append(pools[Local], &Key{
				Name: fmt.Sprintf("k%d", i), Pub: ls.PublicKey(), Signing: ls,
			})
			ethKey, err := crypto.ToECDSA(d.FillBytes(make([]byte, 32)))
			if err != nil {
				panic(err)
			}
			es := &ethSigning{ethutil.NewSigner(ethKey)}
			pools[Eth] = append(pools[Eth], &Key{
				Name: fmt.Sprintf("k%d", i), Pub: es.PublicKey(), Signing: es,
			})
		}
	})
	return pools[style]
}

// Mode is the documented duplicate rule of the protocol.
type Mode int

const (
	// DropAllDuplicates: a sender with several accepted messages is not
	// counted at all (beacon, documented in VerifyDKGResultSignatures).
	DropAllDuplicates Mode = iota
	// KeepFirst: the first accepted message of a sender decides (async
	// protocols, documented in DeduplicateMessagesPayloads).
	KeepFirst
)

// Event is one message as seen by the state's Receive.
type Event struct {
	Kind    string
	Sender  group.MemberIndex // index claimed in the payload
	Net     *Key              // authenticated network identity of the sender
	Msg     *Key              // key named in the payload
	HashSel int               // 0 = hash preferred by the member under test
	SigKind string
	SigBy   *Key   // key that actually produced the signature (good/stolen/...)
	Raw     []byte // drawn bytes for garbage signatures
	Pos     int    // drawn position for flips
	Session string

	Hash      [32]byte
	Signature []byte
	Verifies  bool // the chain verifier accepts Signature over Hash under Msg.Pub
}

// Options bound the generator.
type Options struct {
	AllowExcluded bool
	MaxSize       int
	// Participation is the list the per-case participation percentage of the
	// honest members is drawn from (default 100,100,90,75,50).
	Participation []int
}

// Scenario is one generated case.
type Scenario struct {
	Style     Style
	N         int
	Operators []*Key // seat (index-1) -> operator
	MultiSeat bool
	Self      group.MemberIndex
	Excluded  map[group.MemberIndex]string // seat -> "inactive" | "disqualified"
	Session   string
	Events    []*Event

	pool   []*Key
	hashes [3][32]byte
}

// SelfKey is the identity of the member under test.
func (sc *Scenario) SelfKey() *Key { return sc.Operators[sc.Self-1] }

// Addresses is the group selection result (seat order) for the
// MembershipValidator.
func (sc *Scenario) Addresses() []chain.Address {
	out := make([]chain.Address, sc.N)
	for i, k := range sc.Operators {
		out[i] = k.Signing.PublicKeyBytesToAddress(k.Pub)
	}
	return out
}

// Operating tells whether the seat exists and is not excluded.
func (sc *Scenario) Operating(m group.MemberIndex) bool {
	if m < 1 || int(m) > sc.N {
		return false
	}
	_, ex := sc.Excluded[m]
	return !ex
}

// OperatingCount is the number of operating seats including self.
func (sc *Scenario) OperatingCount() int {
	return sc.N - len(sc.Excluded)
}

var noiseKinds = []string{
	"dup-same", "dup-same", "conflict", "conflict", "badsig", "badsig",
	"malleated", "wrongkey", "impersonate", "replay", "session",
	"selfecho", "selfspoof", "range",
}

var badSigKinds = []string{"garbage", "empty", "flip", "otherhash", "stolen"}

// Gen draws a scenario. Signatures are produced later by Materialize, when
// the package knows the three hashes.
func Gen(t *rapid.T, opt Options) *Scenario {
	if opt.MaxSize == 0 {
		opt.MaxSize = 8
	}
	sc := &Scenario{Excluded: map[group.MemberIndex]string{}}
	sc.Style = Style(rapid.IntRange(0, 1).Draw(t, "style"))
	sc.pool = keyPool(sc.Style)
	sc.N = rapid.IntRange(3, opt.MaxSize).Draw(t, "groupSize")
	sc.Session = "s" + rapid.StringMatching("[a-f0-9]{1,4}").Draw(t, "session")

	sc.MultiSeat = rapid.IntRange(0, 2).Draw(t, "multiSeat") == 0
	sc.Operators = make([]*Key, sc.N)
	if sc.MultiSeat {
		nOps := rapid.IntRange(2, sc.N-1).Draw(t, "operators")
		for i := range sc.Operators {
			sc.Operators[i] = sc.pool[rapid.IntRange(0, nOps-1).Draw(t, "seatOperator")]
		}
	} else {
		perm := rapid.Permutation([]int{0, 1, 2, 3, 4, 5, 6, 7, 8}).Draw(t, "operatorOrder")
		for i := range sc.Operators {
			sc.Operators[i] = sc.pool[perm[i]]
		}
	}
	sc.Self = group.MemberIndex(rapid.IntRange(1, sc.N).Draw(t, "self"))

	var others []group.MemberIndex
	for i := 1; i <= sc.N; i++ {
		if group.MemberIndex(i) != sc.Self {
			others = append(others, group.MemberIndex(i))
		}
	}
	if opt.AllowExcluded && rapid.IntRange(0, 2).Draw(t, "withExcluded") == 0 {
		k := rapid.IntRange(1, 2).Draw(t, "excludedCount")
		for i := 0; i < k && i < len(others)-1; i++ {
			m := rapid.SampledFrom(others).Draw(t, "excludedSeat")
			sc.Excluded[m] = rapid.SampledFrom([]string{"inactive", "disqualified"}).Draw(t, "excludedHow")
		}
	}

	// base: honest members broadcast one valid signature over the same hash
	if len(opt.Participation) == 0 {
		opt.Participation = []int{100, 100, 90, 75, 50}
	}
	participation := rapid.SampledFrom(opt.Participation).Draw(t, "participation")
	for _, m := range others {
		if rapid.IntRange(1, 100).Draw(t, "participates") <= participation {
			kind := "honest"
			if !sc.Operating(m) {
				kind = "excluded"
			}
			k := sc.Operators[m-1]
			sc.Events = append(sc.Events, &Event{
				Kind: kind, Sender: m, Net: k, Msg: k, SigKind: "good", SigBy: k, Session: sc.Session,
			})
		}
	}

	// noise
	nNoise := rapid.SampledFrom([]int{0, 1, 2, 2, 3, 3, 4, 5, 6, 8}).Draw(t, "noise")
	var prevSeat group.MemberIndex
	for i := 0; i < nNoise; i++ {
		e := sc.genNoise(t, others, prevSeat)
		prevSeat = e.Sender
		sc.Events = append(sc.Events, e)
	}

	// a rogue member: everything it sends (twice or more) is unacceptable
	if rapid.IntRange(0, 4).Draw(t, "withRogue") == 0 {
		m := rapid.SampledFrom(others).Draw(t, "rogueSeat")
		kept := sc.Events[:0]
		for _, e := range sc.Events {
			if e.Sender == m && e.Net == sc.Operators[m-1] {
				continue
			}
			kept = append(kept, e)
		}
		sc.Events = kept
		k := sc.Operators[m-1]
		sc.Events = append(sc.Events, &Event{
			Kind: "conflict", Sender: m, Net: k, Msg: k, SigKind: "good", SigBy: k, Session: sc.Session,
			HashSel: rapid.IntRange(1, 2).Draw(t, "rogueHash"),
		})
		second := &Event{Kind: "conflict", Sender: m, Net: k, Msg: k, SigKind: "good", SigBy: k, Session: sc.Session,
			HashSel: rapid.IntRange(1, 2).Draw(t, "rogueHash2")}
		if rapid.Bool().Draw(t, "rogueBadSig") {
			second.Kind, second.HashSel = "badsig", 0
			second.SigKind = rapid.SampledFrom([]string{"empty", "otherhash", "stolen"}).Draw(t, "rogueSigKind")
			if second.SigKind == "stolen" {
				second.SigBy = sc.otherKey(t, k, "rogueStolenFrom")
			}
		}
		sc.Events = append(sc.Events, second)
	}

	order := make([]int, len(sc.Events))
	for i := range order {
		order[i] = i
	}
	if len(order) > 1 {
		order = rapid.Permutation(order).Draw(t, "arrivalOrder")
	}
	shuffled := make([]*Event, len(order))
	for i, j := range order {
		shuffled[i] = sc.Events[j]
	}
	sc.Events = shuffled
	return sc
}

func (sc *Scenario) otherKey(t *rapid.T, not *Key, label string) *Key {
	var cands []*Key
	for _, k := range sc.pool {
		if k != not {
			cands = append(cands, k)
		}
	}
	// members first half of the time (a member abusing its own identity is
	// the interesting attacker), any key incl. outsiders otherwise
	if rapid.Bool().Draw(t, label+"Member") {
		var mem []*Key
		for _, k := range sc.Operators {
			if k != not {
				mem = append(mem, k)
			}
		}
		if len(mem) > 0 {
			return rapid.SampledFrom(mem).Draw(t, label)
		}
	}
	return rapid.SampledFrom(cands).Draw(t, label)
}

func (sc *Scenario) genNoise(t *rapid.T, others []group.MemberIndex, prevSeat group.MemberIndex) *Event {
	kind := rapid.SampledFrom(noiseKinds).Draw(t, "noiseKind")
	m := rapid.SampledFrom(others).Draw(t, "noiseSeat")
	// several abuses of the same seat in one history (duplicates that are
	// all invalid, invalid then valid, ...)
	if prevSeat != sc.Self && int(prevSeat) >= 1 && int(prevSeat) <= sc.N && rapid.IntRange(0, 2).Draw(t, "sameSeat") == 0 {
		m = prevSeat
	}
	k := sc.Operators[m-1]
	e := &Event{Kind: kind, Sender: m, Net: k, Msg: k, SigKind: "good", SigBy: k, Session: sc.Session}
	switch kind {
	case "dup-same":
	case "conflict":
		e.HashSel = rapid.IntRange(1, 2).Draw(t, "conflictHash")
	case "badsig":
		e.SigKind = rapid.SampledFrom(badSigKinds).Draw(t, "badSigKind")
		switch e.SigKind {
		case "garbage":
			e.Raw = rapid.SliceOfN(rapid.Byte(), 1, 72).Draw(t, "garbage")
			if sc.Style == Eth && rapid.Bool().Draw(t, "garbage65") {
				e.Raw = rapid.SliceOfN(rapid.Byte(), 65, 65).Draw(t, "garbage65bytes")
			}
		case "flip":
			e.Pos = rapid.IntRange(0, 511).Draw(t, "flipBit")
		case "stolen":
			e.SigBy = sc.otherKey(t, k, "stolenFrom")
		}
	case "malleated":
		e.SigKind = "malleated"
		e.Pos = rapid.IntRange(0, 3).Draw(t, "malleation")
	case "wrongkey":
		e.Msg = sc.otherKey(t, k, "payloadKey")
		e.SigBy = e.Msg
	case "impersonate":
		e.Net = sc.otherKey(t, k, "impersonator")
		e.Msg = e.Net
		e.SigBy = e.Net
	case "replay":
		// somebody else re-broadcasts the victim's (public) signed payload
		e.Net = sc.otherKey(t, k, "replayer")
	case "session":
		e.Session = sc.Session + rapid.SampledFrom([]string{"0", "x", " "}).Draw(t, "sessionSuffix")
		if rapid.IntRange(0, 3).Draw(t, "emptySession") == 0 {
			e.Session = ""
		}
	case "selfecho":
		e.Sender = sc.Self
		e.Net, e.Msg, e.SigBy = sc.SelfKey(), sc.SelfKey(), sc.SelfKey()
	case "selfspoof":
		e.Sender = sc.Self
	case "range":
		e.Sender = group.MemberIndex(rapid.SampledFrom([]int{0, sc.N + 1, sc.N + 2, 255}).Draw(t, "outOfRange"))
	}
	return e
}

// Materialize signs the history. hashes[0] is the hash preferred by the
// member under test, hashes[1..2] are hashes of conflicting results.
func (sc *Scenario) Materialize(hashes [3][32]byte) error {
	if hashes[0] == hashes[1] || hashes[0] == hashes[2] {
		return fmt.Errorf("conflicting hashes equal the preferred one")
	}
	sc.hashes = hashes
	cache := map[string][]byte{}
	sign := func(k *Key, sel int) ([]byte, error) {
		id := fmt.Sprintf("%s/%d", k.Name, sel)
		if s, ok := cache[id]; ok {
			return append([]byte{}, s...), nil
		}
		s, err := k.Signing.Sign(hashes[sel][:])
		if err != nil {
			return nil, err
		}
		cache[id] = s
		return append([]byte{}, s...), nil
	}
	for _, e := range sc.Events {
		e.Hash = hashes[e.HashSel]
		var err error
		switch e.SigKind {
		case "good", "stolen":
			e.Signature, err = sign(e.SigBy, e.HashSel)
		case "otherhash":
			e.Signature, err = sign(e.SigBy, (e.HashSel+1)%3)
		case "garbage":
			e.Signature = append([]byte{}, e.Raw...)
		case "empty":
			e.Signature = []byte{}
		case "flip":
			e.Signature, err = sign(e.SigBy, e.HashSel)
			if err == nil {
				n := len(e.Signature)
				if sc.Style == Eth {
					n = 64 // the recovery byte is not part of the verification
				}
				bit := e.Pos % (n * 8)
				e.Signature[bit/8] ^= 1 << uint(bit%8)
			}
		case "malleated":
			e.Signature, err = sign(e.SigBy, e.HashSel)
			if err == nil {
				if sc.Style == Eth {
					switch e.Pos {
					case 0:
						e.Signature[64] ^= 1 // 27 <-> 28
					case 1:
						e.Signature[64] = 0
					case 2:
						e.Signature = e.Signature[:64]
					default:
						e.Signature[64] = 0xff
					}
				} else {
					e.Signature = append(e.Signature, byte(e.Pos)) // trailing data after the DER sequence
				}
			}
		default:
			err = fmt.Errorf("unknown signature kind %q", e.SigKind)
		}
		if err != nil {
			return fmt.Errorf("signing %s/%s: %v", e.Kind, e.SigKind, err)
		}
		ok, verr := e.Msg.Signing.VerifyWithPublicKey(e.Hash[:], e.Signature, e.Msg.Pub)
		e.Verifies = ok && verr == nil
		if e.SigKind == "good" && !e.Verifies {
			return fmt.Errorf("a fresh signature of %s does not verify (%v)", e.SigBy.Name, verr)
		}
		if (e.SigKind == "empty" || e.SigKind == "stolen" || e.SigKind == "otherhash") && e.Verifies {
			return fmt.Errorf("signature kind %s verifies", e.SigKind)
		}
	}
	return nil
}

// receivable is the documented acceptance rule of the signing state's Receive.
func (sc *Scenario) receivable(e *Event) bool {
	if e.Sender == sc.Self {
		return false
	}
	if e.Sender < 1 || int(e.Sender) > sc.N {
		return false
	}
	// the network identity must hold the claimed seat
	if !bytes.Equal(sc.Operators[e.Sender-1].Pub, e.Net.Pub) {
		return false
	}
	if !sc.Operating(e.Sender) {
		return false
	}
	// the result hash must be signed with the key used on the network
	if !bytes.Equal(e.Msg.Pub, e.Net.Pub) {
		return false
	}
	return e.Session == sc.Session
}

func (sc *Scenario) bySender() (map[group.MemberIndex][]*Event, []group.MemberIndex) {
	per := map[group.MemberIndex][]*Event{}
	var senders []group.MemberIndex
	for _, e := range sc.Events {
		if !sc.receivable(e) {
			continue
		}
		if _, ok := per[e.Sender]; !ok {
			senders = append(senders, e.Sender)
		}
		per[e.Sender] = append(per[e.Sender], e)
	}
	sort.Slice(senders, func(i, j int) bool { return senders[i] < senders[j] })
	return per, senders
}

// Expect is the reference model: the exact set of supporting signatures.
func (sc *Scenario) Expect(mode Mode, selfSignature []byte) map[group.MemberIndex][]byte {
	out := map[group.MemberIndex][]byte{sc.Self: selfSignature}
	per, senders := sc.bySender()
	for _, m := range senders {
		list := per[m]
		if mode == DropAllDuplicates && len(list) > 1 {
			continue
		}
		e := list[0]
		if e.Hash == sc.hashes[0] && e.Verifies {
			out[m] = e.Signature
		}
	}
	return out
}

// DistinctSenders is the number of senders with at least one message accepted
// by Receive (what the async signing states count before moving on).
func (sc *Scenario) DistinctSenders() int {
	_, senders := sc.bySender()
	return len(senders)
}

// CheckSound asserts the property statement directly on the produced set,
// without the model: own signature, at most one signature per other
// operating member, each one delivered by that member under its network key
// over the preferred hash, and verifying.
func (sc *Scenario) CheckSound(got map[group.MemberIndex][]byte, selfSignature []byte) error {
	own, ok := got[sc.Self]
	if !ok {
		return fmt.Errorf("own signature missing")
	}
	if !bytes.Equal(own, selfSignature) {
		return fmt.Errorf("entry of the member itself is not the signature it broadcast")
	}
	if len(got) > sc.OperatingCount() {
		return fmt.Errorf("%d signatures for %d operating members", len(got), sc.OperatingCount())
	}
	for m, sig := range got {
		if m == sc.Self {
			continue
		}
		if !sc.Operating(m) {
			return fmt.Errorf("signature counted for member %d which is not an operating member", m)
		}
		k := sc.Operators[m-1]
		ok, err := k.Signing.VerifyWithPublicKey(sc.hashes[0][:], sig, k.Pub)
		if err != nil || !ok {
			return fmt.Errorf("signature counted for member %d does not verify over the preferred hash under the member's network key (%v)", m, err)
		}
		delivered := false
		for _, e := range sc.Events {
			if e.Sender == m && e.Net == k && e.Msg == k && e.Hash == sc.hashes[0] &&
				e.Session == sc.Session && bytes.Equal(e.Signature, sig) {
				delivered = true
				break
			}
		}
		if !delivered {
			return fmt.Errorf("signature counted for member %d was never sent by that member with its network key over the preferred hash", m)
		}
	}
	return nil
}

// Diff renders the difference between the produced and the expected set.
func Diff(got, want map[group.MemberIndex][]byte) string {
	var parts []string
	for m := 0; m <= 255; m++ {
		g, gok := got[group.MemberIndex(m)]
		w, wok := want[group.MemberIndex(m)]
		switch {
		case gok && !wok:
			parts = append(parts, fmt.Sprintf("member %d counted but must not be", m))
		case !gok && wok:
			parts = append(parts, fmt.Sprintf("member %d not counted but must be", m))
		case gok && wok && !bytes.Equal(g, w):
			parts = append(parts, fmt.Sprintf("member %d counted with a different signature", m))
		}
	}
	return strings.Join(parts, "; ")
}

// Truncate keeps only the first k events (the part of the history that
// arrived before the signing state was left).
func (sc *Scenario) Truncate(k int) {
	if k < len(sc.Events) {
		sc.Events = sc.Events[:k]
	}
}

// HasDuplicate: some sender has more than one message accepted by Receive.
func (sc *Scenario) HasDuplicate() bool {
	per, _ := sc.bySender()
	for _, l := range per {
		if len(l) > 1 {
			return true
		}
	}
	return false
}

// HasInvalid: the history holds an entry that must not be counted.
func (sc *Scenario) HasInvalid() bool {
	for _, e := range sc.Events {
		if !sc.receivable(e) || e.Hash != sc.hashes[0] || !e.Verifies {
			return true
		}
	}
	return false
}

// NonTrivial is the NT rule of DESIGN.md: a duplicate and an invalid entry.
func (sc *Scenario) NonTrivial() bool { return sc.HasDuplicate() && sc.HasInvalid() }

// Describe renders the case compactly (no signature bytes: local signatures
// are randomised).
func (sc *Scenario) Describe() string {
	var b strings.Builder
	fmt.Fprintf(&b, "%s n=%d self=%d seats=[", sc.Style, sc.N, sc.Self)
	for i, k := range sc.Operators {
		if i > 0 {
			b.WriteByte(' ')
		}
		b.WriteString(k.Name)
	}
	b.WriteString("]")
	if len(sc.Excluded) > 0 {
		var ex []int
		for m := range sc.Excluded {
			ex = append(ex, int(m))
		}
		sort.Ints(ex)
		fmt.Fprintf(&b, " excl=%v", ex)
	}
	b.WriteString(" ev=[")
	for i, e := range sc.Events {
		if i > 0 {
			b.WriteByte(' ')
		}
		fmt.Fprintf(&b, "%d:%s", e.Sender, e.Kind)
		if e.Kind == "badsig" {
			b.WriteString("/" + e.SigKind)
		}
		if e.HashSel != 0 {
			fmt.Fprintf(&b, "/h%d", e.HashSel)
		}
		if e.Net != sc.opOf(e.Sender) {
			b.WriteString("@" + e.Net.Name)
		}
		if e.Msg != e.Net {
			b.WriteString("#" + e.Msg.Name)
		}
		if e.Kind == "malleated" {
			if e.Verifies {
				b.WriteString("/ok")
			} else {
				b.WriteString("/bad")
			}
		}
	}
	b.WriteString("]")
	return b.String()
}

func (sc *Scenario) opOf(m group.MemberIndex) *Key {
	if m < 1 || int(m) > sc.N {
		return nil
	}
	return sc.Operators[m-1]
}

// Labels gives the distribution labels of the case.
func (sc *Scenario) Labels(expected map[group.MemberIndex][]byte) []string {
	seen := map[string]bool{"style:" + sc.Style.String(): true}
	for _, e := range sc.Events {
		seen["kind:"+e.Kind] = true
		if e.Kind == "badsig" {
			seen["badsig:"+e.SigKind] = true
		}
		if e.Kind == "malleated" {
			seen[fmt.Sprintf("malleated-verifies:%v", e.Verifies)] = true
		}
	}
	if sc.MultiSeat {
		seen["group:multi-seat"] = true
		for i, k := range sc.Operators {
			if group.MemberIndex(i+1) != sc.Self && k == sc.SelfKey() {
				seen["group:own-operator-other-seat"] = true
			}
		}
	}
	if len(sc.Excluded) > 0 {
		seen["group:excluded-seats"] = true
	}
	if sc.HasDuplicate() {
		seen["history:duplicate"] = true
		per, _ := sc.bySender()
		for _, l := range per {
			if len(l) > 1 {
				first := l[0].Hash == sc.hashes[0] && l[0].Verifies
				anyGood := false
				for _, e := range l {
					if e.Hash == sc.hashes[0] && e.Verifies {
						anyGood = true
					}
				}
				switch {
				case first:
					seen["duplicate:first-valid"] = true
				case anyGood:
					seen["duplicate:valid-after-invalid"] = true
				default:
					seen["duplicate:all-invalid"] = true
				}
			}
		}
	}
	if sc.HasInvalid() {
		seen["history:invalid"] = true
	}
	if len(sc.Events) == 0 {
		seen["history:empty"] = true
	}
	switch c := len(expected); {
	case c == 1:
		seen["support:self-only"] = true
	case c == sc.OperatingCount():
		seen["support:all-operating"] = true
	default:
		seen["support:partial"] = true
	}
	out := make([]string, 0, len(seen))
	for l := range seen {
		out = append(out, l)
	}
	sort.Strings(out)
	return out
}
