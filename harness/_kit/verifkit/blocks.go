//go:build go1.23

package verifkit

import (
	"context"
	"sync"
	"time"
)

// FakeBlockCounter satisfies chain.BlockCounter structurally (no import
// needed). Blocks only advance when the harness says so. Emission semantics
// follow the production counters (keep-common ethereum BlockCounter and
// local_v1): a waiter for a height already reached fires at once with the
// requested height, otherwise it fires when that exact height is reached
// (heights are never skipped: Advance steps one block at a time).
type FakeBlockCounter struct {
	mu       sync.Mutex
	height   uint64
	waiters  map[uint64][]chan uint64
	watchers []*fakeWatcher
	// bookkeeping for quiescence detection
	pending int // waiters registered and not yet fired
	regs    int // total BlockHeightWaiter registrations
}

type fakeWatcher struct {
	ctx context.Context
	ch  chan uint64
}

// NewFakeBlockCounter starts at the given height.
func NewFakeBlockCounter(start uint64) *FakeBlockCounter {
	return &FakeBlockCounter{height: start, waiters: map[uint64][]chan uint64{}}
}

func (f *FakeBlockCounter) WaitForBlockHeight(blockNumber uint64) error {
	w, _ := f.BlockHeightWaiter(blockNumber)
	<-w
	return nil
}

func (f *FakeBlockCounter) BlockHeightWaiter(blockNumber uint64) (<-chan uint64, error) {
	ch := make(chan uint64, 1)
	f.mu.Lock()
	defer f.mu.Unlock()
	f.regs++
	if blockNumber <= f.height {
		ch <- blockNumber // like the production counters: one value, never closed
		return ch, nil
	}
	f.pending++
	f.waiters[blockNumber] = append(f.waiters[blockNumber], ch)
	return ch, nil
}

func (f *FakeBlockCounter) CurrentBlock() (uint64, error) {
	f.mu.Lock()
	defer f.mu.Unlock()
	return f.height, nil
}

func (f *FakeBlockCounter) WatchBlocks(ctx context.Context) <-chan uint64 {
	w := &fakeWatcher{ctx: ctx, ch: make(chan uint64, 1)}
	f.mu.Lock()
	f.watchers = append(f.watchers, w)
	f.mu.Unlock()
	return w.ch
}

// Height returns the current height.
func (f *FakeBlockCounter) Height() uint64 {
	f.mu.Lock()
	defer f.mu.Unlock()
	return f.height
}

// Advance mines n blocks one at a time, firing waiters and watchers.
func (f *FakeBlockCounter) Advance(n int) {
	for i := 0; i < n; i++ {
		f.mu.Lock()
		f.height++
		h := f.height
		ws := f.waiters[h]
		delete(f.waiters, h)
		f.pending -= len(ws)
		watchers := append([]*fakeWatcher{}, f.watchers...)
		f.mu.Unlock()
		for _, ch := range ws {
			ch <- h // buffered; never closed (production counters do not close)
		}
		for _, w := range watchers {
			if w.ctx.Err() != nil {
				continue
			}
			select {
			case w.ch <- h:
			default:
			}
		}
	}
}

// AdvanceTo mines blocks until the given height is reached.
func (f *FakeBlockCounter) AdvanceTo(h uint64) {
	for f.Height() < h {
		f.Advance(1)
	}
}

// Pending returns (number of waiters not yet fired, total registrations).
func (f *FakeBlockCounter) Pending() (int, int) {
	f.mu.Lock()
	defer f.mu.Unlock()
	return f.pending, f.regs
}

// MinPendingHeight returns the lowest height somebody waits for (0 if none).
func (f *FakeBlockCounter) MinPendingHeight() uint64 {
	f.mu.Lock()
	defer f.mu.Unlock()
	var m uint64
	for h, l := range f.waiters {
		if len(l) > 0 && (m == 0 || h < m) {
			m = h
		}
	}
	return m
}

// WaitPending blocks until at least n waiters are pending or the timeout
// elapses; it reports whether the condition was met. A timeout is a
// machinery condition (inconclusive), never a verdict.
func (f *FakeBlockCounter) WaitPending(n int, timeout time.Duration) bool {
	deadline := time.Now().Add(timeout)
	for {
		p, _ := f.Pending()
		if p >= n {
			return true
		}
		if time.Now().After(deadline) {
			return false
		}
		time.Sleep(200 * time.Microsecond)
	}
}

// Eventually polls cond until it is true or the timeout elapses.
func Eventually(timeout time.Duration, cond func() bool) bool {
	deadline := time.Now().Add(timeout)
	for {
		if cond() {
			return true
		}
		if time.Now().After(deadline) {
			return false
		}
		time.Sleep(200 * time.Microsecond)
	}
}
