//go:build go1.23

// Package verifkit is the shared kit of the /verif harnesses. It is injected
// into the keep-core build with -overlay (it never exists on disk in /repo).
// It depends on the standard library only so every package may import it.
package verifkit

import (
	"encoding/binary"
	"encoding/json"
	"fmt"
	"hash/fnv"
	"os"
	"path/filepath"
	"sort"
	"strconv"
	"strings"
	"sync"
)

const (
	maxFingerprints = 2_000_000
	maxSampleLen    = 700
	keepNontrivial  = 5
	keepTrivial     = 2
)

type sample struct {
	h    uint64
	text string
}

// Stats collects what a harness test actually generated: case counts, label
// distribution, distinct non-trivial fingerprints and a few written-out cases.
type Stats struct {
	mu         sync.Mutex
	property   string
	test       string
	cases      int64
	nontrivial int64
	labels     map[string]int64
	excluded   map[string]int64
	known      map[string]int64
	fps        map[uint64]struct{}
	fpsCapped  bool
	ntSamples  []sample
	trSamples  []sample
	notes      []string
}

// New creates the statistics collector of one test function.
func New(property, test string) *Stats {
	return &Stats{
		property: property,
		test:     test,
		labels:   map[string]int64{},
		excluded: map[string]int64{},
		known:    map[string]int64{},
		fps:      map[uint64]struct{}{},
	}
}

func hash64(s string) uint64 {
	h := fnv.New64a()
	_, _ = h.Write([]byte(s))
	return h.Sum64()
}

func keepSmallest(list []sample, s sample, n int) []sample {
	for _, e := range list {
		if e.h == s.h {
			return list
		}
	}
	list = append(list, s)
	sort.Slice(list, func(i, j int) bool { return list[i].h < list[j].h })
	if len(list) > n {
		list = list[:n]
	}
	return list
}

// Case records one generated case. desc is a compact rendering of the case:
// it is hashed into the distinct-case fingerprint and may be kept as a sample.
// nontrivial says whether the case is non-trivial by the rule of the property.
func (s *Stats) Case(nontrivial bool, desc string, labels ...string) {
	h := hash64(desc)
	s.mu.Lock()
	defer s.mu.Unlock()
	s.cases++
	for _, l := range labels {
		if l != "" {
			s.labels[l]++
		}
	}
	if len(desc) > maxSampleLen {
		desc = desc[:maxSampleLen] + "…"
	}
	if nontrivial {
		s.nontrivial++
		if len(s.fps) < maxFingerprints {
			s.fps[h] = struct{}{}
		} else {
			s.fpsCapped = true
		}
		if len(s.ntSamples) < keepNontrivial || h < s.ntSamples[len(s.ntSamples)-1].h {
			s.ntSamples = keepSmallest(s.ntSamples, sample{h, desc}, keepNontrivial)
		}
	} else if len(s.trSamples) < keepTrivial || h < s.trSamples[len(s.trSamples)-1].h {
		s.trSamples = keepSmallest(s.trSamples, sample{h, desc}, keepTrivial)
	}
}

// Label counts an event without counting a case.
func (s *Stats) Label(l string) {
	s.mu.Lock()
	s.labels[l]++
	s.mu.Unlock()
}

// Excluded counts a generated case (or part of one) that was steered away from
// a known finding so the search continues behind it.
func (s *Stats) Excluded(key string) {
	s.mu.Lock()
	s.excluded[key]++
	s.mu.Unlock()
}

// KnownHit counts an observation of a listed known finding.
func (s *Stats) KnownHit(key string) {
	s.mu.Lock()
	s.known[key]++
	s.mu.Unlock()
}

// Note attaches a free-text remark to the evidence.
func (s *Stats) Note(format string, args ...any) {
	s.mu.Lock()
	if len(s.notes) < 20 {
		s.notes = append(s.notes, fmt.Sprintf(format, args...))
	}
	s.mu.Unlock()
}

type statsFile struct {
	Property           string           `json:"property"`
	Test               string           `json:"test"`
	Cases              int64            `json:"cases"`
	Nontrivial         int64            `json:"nontrivial"`
	DistinctNontrivial int              `json:"distinct_nontrivial"`
	FingerprintsCapped bool             `json:"fingerprints_capped"`
	Labels             map[string]int64 `json:"labels"`
	Excluded           map[string]int64 `json:"excluded"`
	KnownHits          map[string]int64 `json:"known_hits"`
	Samples            []string         `json:"samples"`
	TrivialSamples     []string         `json:"trivial_samples"`
	Notes              []string         `json:"notes"`
}

// Flush writes the statistics to $VERIF_STATS_DIR (no-op when unset).
func (s *Stats) Flush() {
	dir := os.Getenv("VERIF_STATS_DIR")
	if dir == "" {
		return
	}
	s.mu.Lock()
	defer s.mu.Unlock()
	out := statsFile{
		Property: s.property, Test: s.test, Cases: s.cases, Nontrivial: s.nontrivial,
		DistinctNontrivial: len(s.fps), FingerprintsCapped: s.fpsCapped,
		Labels: s.labels, Excluded: s.excluded, KnownHits: s.known, Notes: s.notes,
	}
	for _, e := range s.ntSamples {
		out.Samples = append(out.Samples, e.text)
	}
	for _, e := range s.trSamples {
		out.TrivialSamples = append(out.TrivialSamples, e.text)
	}
	_ = os.MkdirAll(dir, 0o755)
	data, _ := json.MarshalIndent(out, "", " ")
	_ = os.WriteFile(filepath.Join(dir, s.test+".json"), data, 0o644)
	buf := make([]byte, 0, 8*len(s.fps))
	for h := range s.fps {
		buf = binary.LittleEndian.AppendUint64(buf, h)
	}
	_ = os.WriteFile(filepath.Join(dir, s.test+".fp"), buf, 0o644)
}

// Known reports whether key is listed as an open (not fixed) known finding.
// The driver passes the list in VERIF_KNOWN; harnesses use it to exclude the
// site by construction (and count the exclusions) so the search continues.
func Known(key string) bool {
	for _, k := range strings.Split(os.Getenv("VERIF_KNOWN"), ",") {
		if k == key && k != "" {
			return true
		}
	}
	return false
}

// Thorough reports whether the thorough tier is running.
func Thorough() bool { return os.Getenv("VERIF_TIER") == "thorough" }

// EnvInt reads an integer knob passed by the driver.
func EnvInt(name string, def int) int {
	v, err := strconv.Atoi(os.Getenv(name))
	if err != nil {
		return def
	}
	return v
}

// Checks is the case count the driver asks a non-rapid test to run.
func Checks(def int) int { return EnvInt("VERIF_CHECKS", def) }

// Seed is the seed the driver passes (never 0).
func Seed() int64 {
	v := int64(EnvInt("VERIF_RAPID_SEED", 1))
	if v == 0 {
		v = 1
	}
	return v
}

// ViolationFile writes a custom replay artifact (for failures rapid cannot
// persist itself, e.g. non-termination) and returns its path; the driver picks
// the file up from $VERIF_ARTIFACT_DIR.
func ViolationFile(name string, data []byte) string {
	dir := os.Getenv("VERIF_ARTIFACT_DIR")
	if dir == "" {
		dir = os.TempDir()
	}
	_ = os.MkdirAll(dir, 0o755)
	p := filepath.Join(dir, name)
	_ = os.WriteFile(p, data, 0o644)
	return p
}
