//go:build go1.23

// Package c19gen holds the generators of cryptographic values (curve points,
// ephemeral keys, tss-lib save data) used by the C19 harnesses. It is kept
// apart from c19wire so that the harnesses of the small packages do not link
// tss-lib and bn256.
package c19gen

import (
	"math/big"

	tsscrypto "github.com/bnb-chain/tss-lib/crypto"
	"github.com/bnb-chain/tss-lib/crypto/paillier"
	"github.com/bnb-chain/tss-lib/ecdsa/keygen"
	"github.com/bnb-chain/tss-lib/tss"
	bn256 "github.com/ethereum/go-ethereum/crypto/bn256/cloudflare"
	"pgregory.net/rapid"

	"github.com/keep-network/keep-core/internal/c19wire"

	"github.com/keep-network/keep-core/pkg/crypto/ephemeral"
)

// GenSecpPoint draws a point of secp256k1 (never the point at infinity).
func GenSecpPoint(t *rapid.T, label string) (x, y *big.Int) {
	k := c19wire.GenScalar32(t, label)
	return tss.S256().ScalarBaseMult(k)
}

// GenECPoint draws a tss-lib point on secp256k1.
func GenECPoint(t *rapid.T, label string) *tsscrypto.ECPoint {
	x, y := GenSecpPoint(t, label)
	p, err := tsscrypto.NewECPoint(tss.S256(), x, y)
	if err != nil {
		t.Fatalf("harness: generated point not on curve: %v", err)
	}
	return p
}

// GenLocalPreParams draws tss-lib pre-parameters (arbitrary non-negative
// numbers; the codecs do not interpret them).
func GenLocalPreParams(t *rapid.T) keygen.LocalPreParams {
	return keygen.LocalPreParams{
		PaillierSK: &paillier.PrivateKey{
			PublicKey: paillier.PublicKey{N: c19wire.GenBig(t, "paillierN")},
			LambdaN:   c19wire.GenBig(t, "lambdaN"),
			PhiN:      c19wire.GenBig(t, "phiN"),
		},
		NTildei: c19wire.GenBig(t, "nTilde"),
		H1i:     c19wire.GenBig(t, "h1i"),
		H2i:     c19wire.GenBig(t, "h2i"),
		Alpha:   c19wire.GenBig(t, "alpha"),
		Beta:    c19wire.GenBig(t, "beta"),
		P:       c19wire.GenBig(t, "p"),
		Q:       c19wire.GenBig(t, "q"),
	}
}

// GenSaveData draws the tss-lib key generation output stored in a tECDSA
// private key share: every point is on the curve, numbers are arbitrary.
func GenSaveData(t *rapid.T) keygen.LocalPartySaveData {
	n := c19wire.Draw(t, rapid.IntRange(0, 4), "parties")
	d := keygen.LocalPartySaveData{
		LocalPreParams: GenLocalPreParams(t),
		LocalSecrets:   keygen.LocalSecrets{Xi: c19wire.GenBig(t, "xi"), ShareID: c19wire.GenBig(t, "shareID")},
		ECDSAPub:       GenECPoint(t, "ecdsaPub"),
	}
	// the per-party lists have independent lengths in the type; mostly equal
	same := c19wire.Draw(t, rapid.IntRange(0, 3), "sameLen") != 0
	ln := func(label string) int {
		if same {
			return n
		}
		return c19wire.Draw(t, rapid.IntRange(0, 4), label)
	}
	for i, k := 0, ln("nKs"); i < k; i++ {
		d.Ks = append(d.Ks, c19wire.GenBig(t, "ks"))
	}
	for i, k := 0, ln("nNTildej"); i < k; i++ {
		d.NTildej = append(d.NTildej, c19wire.GenBig(t, "nTildej"))
	}
	for i, k := 0, ln("nH1j"); i < k; i++ {
		d.H1j = append(d.H1j, c19wire.GenBig(t, "h1j"))
	}
	for i, k := 0, ln("nH2j"); i < k; i++ {
		d.H2j = append(d.H2j, c19wire.GenBig(t, "h2j"))
	}
	for i, k := 0, ln("nBigXj"); i < k; i++ {
		d.BigXj = append(d.BigXj, GenECPoint(t, "bigXj"))
	}
	for i, k := 0, ln("nPaillierPKs"); i < k; i++ {
		d.PaillierPKs = append(d.PaillierPKs, &paillier.PublicKey{N: c19wire.GenBig(t, "paillierPK")})
	}
	return d
}

// GenEphemeralPrivateKey draws an ephemeral ECDH private key.
func GenEphemeralPrivateKey(t *rapid.T, label string) *ephemeral.PrivateKey {
	return ephemeral.UnmarshalPrivateKey(c19wire.GenScalar32(t, label))
}

// GenEphemeralPublicKey draws an ephemeral ECDH public key.
func GenEphemeralPublicKey(t *rapid.T, label string) *ephemeral.PublicKey {
	priv := GenEphemeralPrivateKey(t, label)
	return (*ephemeral.PublicKey)(&priv.PublicKey)
}

// GenEphemeralPublicKeys draws a member -> public key map.
func GenEphemeralPublicKeys(t *rapid.T) map[uint8]*ephemeral.PublicKey {
	m := map[uint8]*ephemeral.PublicKey{}
	for _, id := range c19wire.GenIndexSet(t, "keyOwner", 4) {
		m[id] = GenEphemeralPublicKey(t, "ephemeralKey")
	}
	return m
}

// GenEphemeralPrivateKeys draws a member -> private key map.
func GenEphemeralPrivateKeys(t *rapid.T) map[uint8]*ephemeral.PrivateKey {
	m := map[uint8]*ephemeral.PrivateKey{}
	for _, id := range c19wire.GenIndexSet(t, "keyOwner", 4) {
		m[id] = GenEphemeralPrivateKey(t, "ephemeralKey")
	}
	return m
}

// GenG1 draws a bn256 G1 point (identity included now and then).
func GenG1(t *rapid.T, label string) *bn256.G1 {
	k := new(big.Int).SetBytes(c19wire.GenScalar32(t, label))
	if c19wire.Draw(t, rapid.IntRange(0, 15), label+".zero") == 0 {
		k.SetInt64(0)
	}
	return new(bn256.G1).ScalarBaseMult(k)
}

// GenG2 draws a bn256 G2 point (identity included now and then).
func GenG2(t *rapid.T, label string) *bn256.G2 {
	k := new(big.Int).SetBytes(c19wire.GenScalar32(t, label))
	if c19wire.Draw(t, rapid.IntRange(0, 15), label+".zero") == 0 {
		k.SetInt64(0)
	}
	return new(bn256.G2).ScalarBaseMult(k)
}

// GenPayloadMap draws a member -> opaque payload map.
func GenPayloadMap(t *rapid.T) map[uint8][]byte {
	m := map[uint8][]byte{}
	for _, id := range c19wire.GenIndexSet(t, "receiver", 4) {
		m[id] = c19wire.GenPayload(t, "peerPayload")
	}
	return m
}
