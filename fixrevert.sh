#!/bin/bash
# For every fixed finding: revert the fix commit in a scratch worktree and confirm the check reports the violation again.
cd /verif
python3 - <<'PY' > work/fixlist.txt
import json
for f in json.load(open('/verif/known_findings.json'))['findings']:
    if f['status']=='fixed': print(f['property'], f['commit'], f['key'])
PY
mkdir -p work/fixrevert
while read prop commit key; do
  wt=/tmp/vs-revert-$commit
  git -C /repo worktree remove --force $wt 2>/dev/null; rm -rf $wt
  git -C /repo worktree add --detach $wt HEAD -q
  if ! git -C $wt revert -n $commit >/dev/null 2>&1; then
     git -C $wt revert --abort 2>/dev/null; git -C $wt checkout -- . 2>/dev/null
     # overlapping later fixes: fall back to reverse-applying the commit's diff with 3-way
     if ! (git -C /repo show $commit | git -C $wt apply -R --3way >/dev/null 2>&1); then echo "$prop $key $commit REVERT-CONFLICT"; git -C /repo worktree remove --force $wt; continue; fi
  fi
  VERIF_REPO=$wt ./check $prop --tier quick --seed 1 > work/fixrevert/$key.log 2>&1; rc=$?
  echo "$prop $key $commit reverted -> check rc=$rc"
  git -C /repo worktree remove --force $wt
  for d in /verif/work/alt-*; do [ -f $d/repo_path ] && grep -q "^$wt\$" $d/repo_path && rm -rf $d; done
done < work/fixlist.txt
