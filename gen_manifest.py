#!/usr/bin/env python3
"""Regenerates MANIFEST.json from props/*.json (one file per claimed property)."""
import glob, json, os
V = os.path.dirname(os.path.abspath(__file__))
ids = [json.loads(l)["id"] for l in open(os.path.join(V, "properties.jsonl"))]
checks, na = [], []
try:
    na_reasons = json.load(open(os.path.join(V, "props", "not_applicable.json")))
except FileNotFoundError:
    na_reasons = {}
for pid in ids:
    p = os.path.join(V, "props", pid + ".json")
    if not os.path.exists(p):
        na.append({"property_id": pid, "reason": na_reasons.get(pid, "check not built yet (work in progress in this session; see DESIGN.md section 5 for the planned generator and oracle)")})
        continue
    prop = json.load(open(p))
    if not prop.get("ready"):
        na.append({"property_id": pid, "reason": na_reasons.get(pid, "check under construction in this session (harness not yet validated on the unchanged tree); see DESIGN.md section 5 for the planned generator and oracle")})
        continue
    m = prop.get("manifest", {})
    checks.append({
        "property_id": pid,
        "quick_cmd": "./check %s --tier quick" % pid,
        "thorough_cmd": "./check %s --tier thorough" % pid,
        "evidence_file": "/verif/evidence/%s.json" % pid,
        "replay_cmd_template": "./check %s --replay {path}" % pid,
        "engine": "rapid-overlay",
        "level_claimed": {
            "category": prop.get("level", "exploration"),
            "text": m.get("level_text", ""),
            "design_ref": m.get("design_ref", "DESIGN.md section 5, " + pid),
        },
        "level_note": m.get("level_note", ""),
        "technique": m.get("technique", "property-based testing (pgregory.net/rapid) against an explicit oracle"),
    })
hooks_commits = []
hp = os.path.join(V, "props", "hooks.json")
if os.path.exists(hp):
    hooks_commits = json.load(open(hp)).get("source_commits", [])
manifest = {
    "version": 1,
    "setup_cmd": "./check --build-all",
    "hooks": {
        "guard": "verif",
        "enable": "go build tag: checks build /repo with `-tags verif`; harness code is injected with -overlay/-modfile from /verif/harness (no file of /repo is modified at run time)",
        "baseline_off_cmd": "cd /repo && GOFLAGS=-mod=mod GOPROXY=off GOSUMDB=off GOTOOLCHAIN=local go test -vet=off -count=1 -timeout 25m ./...",
        "source_commits": hooks_commits,
        "add_only": True,
    },
    "engines": [{
        "name": "rapid-overlay",
        "path": "/verif/check",
        "serves_properties": [c["property_id"] for c in checks],
        "kind_free_text": "python driver that injects in-package property-based tests (pgregory.net/rapid v1.3.0 state machines and generators, Go native fuzzing in the thorough tier, race detector as second oracle) into keep-core with go test -c -overlay -modfile, runs them per property with a fixed seed, merges the harness statistics into evidence and turns rapid fail files into replay files",
    }],
    "checks": checks,
    "not_applicable": na,
    "notes": "All checks are decided by generated-input search against explicit oracles (see DESIGN.md). Exit 2 of ./check means inconclusive machinery trouble, never a verdict.",
}
json.dump(manifest, open(os.path.join(V, "MANIFEST.json"), "w"), indent=1)
print("MANIFEST.json: %d checks, %d not_applicable" % (len(checks), len(na)))
